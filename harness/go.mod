module verif/harness

go 1.26.8

require (
	github.com/jhalter/mobius v0.0.0
	golang.org/x/crypto v0.29.0
	pgregory.net/rapid v1.3.0
)

require (
	github.com/davecgh/go-spew v1.1.1 // indirect
	github.com/pmezard/go-difflib v1.0.0 // indirect
	github.com/stretchr/objx v0.5.2 // indirect
	github.com/stretchr/testify v1.10.0 // indirect
	golang.org/x/text v0.20.0 // indirect
	golang.org/x/time v0.8.0 // indirect
	gopkg.in/yaml.v3 v3.0.1 // indirect
)

replace github.com/jhalter/mobius => /repo
