package props

// C17 — disconnects and bans are enforced at the door.

import (
	"fmt"
	"os"
	"path/filepath"
	"sort"
	"strings"
	"sync"
	"testing"
	"time"

	"github.com/jhalter/mobius/verifhooks"
	"gopkg.in/yaml.v3"
	"pgregory.net/rapid"

	"verif/harness/evid"
	"verif/harness/hlref"
	"verif/harness/hlsim"
)

type banEntry struct {
	perm   bool
	expiry time.Time
}

type c17user struct {
	conn *hlsim.Conn
	id   int
	addr string
	acct string
}

var c17Addrs = []string{"10.0.0.2", "10.0.0.20", "110.0.0.2", "10.0.0.3", "10.0.0.30", "192.168.1.1", "10.0.0.200"}

func c17prop(ev *evid.Rec) func(rt *rapid.T) {
	return func(rt *rapid.T) {
		accounts := []hlsim.AccountSpec{acct("admin", "Admin", "adminpw", allAccess)}
		for i := 0; i < 4; i++ {
			accounts = append(accounts, acct(fmt.Sprintf("u%d", i), fmt.Sprintf("U%d", i), "pw", hlref.AccessOf(hlref.PrivReadChat, hlref.PrivAnyName)))
		}
		// one account is protected: a disconnect request against it is refused, whatever ban option it carries, and must
		// leave no trace at the door
		accounts = append(accounts, acct("u4", "U4", "pw", hlref.AccessOf(hlref.PrivReadChat, hlref.PrivAnyName, hlref.PrivCannotBeDiscon)))
		var history []string
		nt := false
		inWorld(rt, hlsim.Options{Agreement: "a", Accounts: accounts}, func(rt *rapid.T, w *hlsim.World) {
			bans := map[string]banEntry{} // what the running server must enforce
			// what the ban file holds.  The two differ only while the file cannot be written (blocked): a ban that was
			// acknowledged then must still be enforced by the running server; the next restart or reload goes by the file.
			fileBans := map[string]banEntry{}
			blocked := false
			unsure := map[string]bool{} // addresses about which nothing is claimed any more (a ban request was refused while blocked)
			synced := func() {
				fileBans = map[string]banEntry{}
				for k, v := range bans {
					fileBans[k] = v
				}
			}
			inSync := func() bool { // a reload changes nothing the running server enforces
				if len(bans) != len(fileBans) {
					return false
				}
				for k, v := range bans {
					if f, ok := fileBans[k]; !ok || f != v {
						return false
					}
				}
				return true
			}
			var users []*c17user
			port := 5000
			var admin *hlsim.Conn
			fail := func(f string, a ...any) { rt.Fatalf(f+"\nhistory: "+strings.Join(history, " | "), a...) }
			rec := func(f string, a ...any) {
				history = append(history, fmt.Sprintf("[t+%s] ", time.Since(time.Date(2000, 1, 1, 0, 0, 0, 0, time.UTC)).Round(time.Millisecond))+fmt.Sprintf(f, a...))
			}
			loginAdmin := func() {
				port++
				admin = loginAs(rt, w, fmt.Sprintf("10.99.0.1:%d", port), "admin", "adminpw", "admin")
			}
			loginAdmin()
			banned := func(ip string) bool {
				b, ok := bans[ip]
				return ok && (b.perm || time.Now().Before(b.expiry))
			}
			userIDs := func() map[int]bool {
				us, err := admin.UserList()
				if err != nil {
					fail("admin user list: %v", err)
				}
				m := map[int]bool{}
				for _, u := range us {
					m[u.ID] = true
				}
				return m
			}
			// attempt connects from ip and checks the door against the model
			// flow: "123" = name and icon in the login; "15" = 1.5 login, then agreed with a name; "15-nameless" = agreed
			// without a name field (such a user is listed and announced like any other)
			attempt := func(ip, account, flow string) {
				port++
				wantBanned := banned(ip)
				if wantBanned {
					// what a banned peer sends after its handshake does not matter - a valid login, a wrong password, an unknown
					// login or nothing at all: it is told about the ban and the connection is closed
					switch rapid.SampledFrom([]string{"valid", "nothing", "wrong-password", "unknown-login", "valid"}).Draw(rt, "bannedPeerSends") {
					case "nothing":
						rec("  (the banned peer sends its handshake only)")
						c := w.Connect(fmt.Sprintf("%s:%d", ip, port))
						c.SendParts([][]byte{hlref.Handshake(1, 2)})
						settle(2 * time.Second)
						if hs, ok := c.Take(8); !ok || string(hs) != "TRTP\x00\x00\x00\x00" {
							fail("connection from %s: no handshake reply", ip)
						}
						got := c.TakeInbox()
						if len(got) != 1 || got[0].Type != hlref.TranServerMsg || got[0].IsReply != 0 || !c.EOF() {
							fail("a connection from the banned address %s that sent its handshake and nothing else received %s (closed: %v) instead of the ban notice and the end of the connection (ban %+v)", ip, tranSummary(got), c.EOF(), bans[ip])
						}
						nt = true
						return
					case "wrong-password":
						rec("  (the banned peer sends a wrong password)")
						account = account + "\x00wrongpw"
					case "unknown-login":
						rec("  (the banned peer sends an unknown login)")
						account = "nobody-" + account
					}
				}
				before := userIDs()
				admin.TakeInbox()
				for _, u := range users {
					u.conn.TakeInbox()
				}
				c := w.Connect(fmt.Sprintf("%s:%d", ip, port))
				pwd := "pw"
				if i := strings.Index(account, "\x00wrongpw"); i >= 0 {
					account, pwd = account[:i], "not the password"
				}
				lo := hlsim.LoginOpts{Login: account, Password: pwd, Name: []byte("visitor"), Icon: 1}
				if flow != "123" {
					lo = hlsim.LoginOpts{Login: account, Password: pwd, Version: hlref.BE16(190)}
				}
				// handshake and login pipelined in one write: a banned peer's login must not be processed
				c.SendParts([][]byte{hlref.Handshake(1, 2), hlref.Tran{Type: hlref.TranLogin, ID: 77, Fields: lo.Fields()}.Encode()})
				settle(2 * time.Second)
				hs, ok := c.Take(8)
				if !ok || string(hs) != "TRTP\x00\x00\x00\x00" {
					fail("connection from %s: no handshake reply", ip)
				}
				got := c.TakeInbox()
				if wantBanned {
					if len(got) != 1 || got[0].Type != hlref.TranServerMsg || got[0].IsReply != 0 {
						fail("connection from banned address %s received %s instead of exactly one ban notice (ban %+v, now %s)", ip, tranSummary(got), bans[ip], time.Now().Format(time.RFC3339Nano))
					}
					if !c.EOF() {
						fail("connection from banned address %s was not closed", ip)
					}
					after := userIDs()
					if len(after) != len(before) {
						fail("connection from banned address %s appears in the user list", ip)
					}
					if in := admin.TakeInbox(); len(in) != 0 {
						fail("connection from banned address %s caused notifications to other users: %s", ip, tranSummary(in))
					}
					for _, u := range users {
						if in := u.conn.TakeInbox(); len(in) != 0 {
							fail("connection from banned address %s caused notifications to other users: %s", ip, tranSummary(in))
						}
					}
					nt = true
					return
				}
				in := false
				for _, t := range got {
					if t.IsReply == 1 && t.ID == 77 && t.Err == 0 {
						in = true
					}
				}
				if !in || c.EOF() {
					why := "never banned"
					if b, ok := bans[ip]; ok {
						why = fmt.Sprintf("ban expired at %s, now %s", b.expiry.Format(time.RFC3339Nano), time.Now().Format(time.RFC3339Nano))
						nt = true
					}
					fail("connection from %s (%s) could not log in: received %s", ip, why, tranSummary(got))
				}
				if _, ok := bans[ip]; ok {
					nt = true // reconnect after expiry
				}
				switch flow {
				case "15":
					if !okReply(c.Agreed([]byte("visitor"), 1, 0, nil)) {
						fail("agreed refused")
					}
				case "15-nameless":
					if !okReply(c.Request(hlref.TranAgreed, fld(hlref.FUserIconID, hlref.BE16(1)), fld(hlref.FOptions, hlref.BE16(0)))) {
						fail("agreed (without a name field) refused")
					}
				}
				after := userIDs()
				id := 0
				for x := range after {
					if !before[x] {
						id = x
					}
				}
				users = append(users, &c17user{conn: c, id: id, addr: ip, acct: account})
			}
			checkFile := func(ctx string) {
				fresh, err := verifhooks.NewBanFile(filepath.Join(w.Cfg, "Banlist.yaml"))
				if err != nil {
					fail("%s: ban file does not load: %v", ctx, err)
				}
				for _, ip := range c17Addrs {
					if unsure[ip] {
						continue
					}
					isB, until := fresh.IsBanned(ip)
					m, ok := fileBans[ip]
					if isB != ok {
						fail("%s: ban file lists %s: %v, model: %v", ctx, ip, isB, ok)
					}
					if ok && m.perm != (until == nil) {
						fail("%s: ban of %s permanent in file=%v, model=%v", ctx, ip, until == nil, m.perm)
					}
					if ok && !m.perm && !until.Equal(m.expiry) {
						fail("%s: ban of %s expires %s in the file, model %s", ctx, ip, until.Format(time.RFC3339Nano), m.expiry.Format(time.RFC3339Nano))
					}
				}
			}
			rt.Repeat(map[string]func(*rapid.T){
				"connect": func(rt *rapid.T) {
					ip := rapid.SampledFrom(c17Addrs).Draw(rt, "ip")
					acc := fmt.Sprintf("u%d", rapid.IntRange(0, 4).Draw(rt, "acct"))
					flow := rapid.SampledFrom([]string{"123", "123", "15", "15-nameless"}).Draw(rt, "flow")
					if unsure[ip] {
						rt.Skip()
					}
					rec("connect from %s as %s (%s)", ip, acc, flow)
					attempt(ip, acc, flow)
				},
				"kick": func(rt *rapid.T) {
					if len(users) == 0 {
						rt.Skip()
					}
					i := rapid.IntRange(0, len(users)-1).Draw(rt, "who")
					u := users[i]
					opt := rapid.IntRange(0, 2).Draw(rt, "option")
					rec("kick id %d (%s) option %d", u.id, u.addr, opt)
					for _, o := range users {
						o.conn.TakeInbox()
					}
					admin.TakeInbox()
					fs := []hlref.Field{fld(hlref.FUserID, hlref.BE16(u.id))}
					if opt != 0 {
						fs = append(fs, fld(hlref.FOptions, hlref.BE16(opt)))
					}
					now := time.Now()
					if u.acct == "u4" {
						// protected: refused, still connected, nobody told, and the address is as welcome as before
						if r := admin.Request(hlref.TranDisconnectUser, fs...); r == nil || r.Err == 0 {
							fail("disconnect request (option %d) against the protected user %d was not refused", opt, u.id)
						}
						settle(1*time.Second + time.Millisecond)
						if u.conn.EOF() {
							fail("protected user %d was disconnected", u.id)
						}
						checkFile("after a refused kick of a protected user")
						return
					}
					if opt != 0 && rapid.IntRange(0, 2).Draw(rt, "reloadsMeanwhile") == 0 && !blocked && inSync() {
						// the operator's reload request (SIGHUP) arrives while the ban is being recorded
						rec("  (ban list reloaded from four goroutines meanwhile)")
						rid := admin.NewID()
						admin.SendAsync(hlref.Tran{Type: hlref.TranDisconnectUser, ID: rid, Fields: fs}.Encode())
						var rg sync.WaitGroup
						for g := 0; g < 4; g++ {
							rg.Add(1)
							go func() {
								defer rg.Done()
								for k := 0; k < 8; k++ {
									_ = w.Bans.Load()
								}
							}()
						}
						rg.Wait()
						settle(0)
						ok := false
						for _, t := range admin.TakeInbox() {
							if t.IsReply == 1 && t.ID == rid && t.Err == 0 {
								ok = true
							}
						}
						if !ok {
							fail("disconnect request refused")
						}
					} else if r := admin.Request(hlref.TranDisconnectUser, fs...); !okReply(r) {
						if blocked && opt != 0 && r != nil {
							// a server may refuse a ban it cannot record: then nothing is claimed about this address any more
							rec("  (refused while the ban file cannot be written)")
							unsure[u.addr] = true
							settle(1*time.Second + time.Millisecond)
							if u.conn.EOF() {
								users = append(users[:i], users[i+1:]...)
							}
							admin.TakeInbox()
							for _, o := range users {
								o.conn.TakeInbox()
							}
							return
						}
						fail("disconnect request refused")
					}
					switch opt {
					case 1:
						bans[u.addr] = banEntry{expiry: now.Add(30 * time.Minute)}
					case 2:
						bans[u.addr] = banEntry{perm: true}
					}
					if opt != 0 && !blocked {
						synced()
					}
					if opt != 0 && blocked {
						nt = true
					}
					settle(1*time.Second + time.Millisecond)
					if !u.conn.EOF() {
						fail("kicked user id %d still connected one second after the disconnect request", u.id)
					}
					users = append(users[:i], users[i+1:]...)
					told := func(ts []hlref.Tran) bool {
						for _, t := range ts {
							if id, _ := t.Get(hlref.FUserID); t.Type == hlref.TranNotifyDeleteUser && intOf(id) == u.id {
								return true
							}
						}
						return false
					}
					if !told(admin.TakeInbox()) {
						fail("administrator was not told that user %d left", u.id)
					}
					for _, o := range users {
						if !told(o.conn.TakeInbox()) {
							fail("user %d was not told that user %d left", o.id, u.id)
						}
						if o.conn.EOF() {
							fail("kick of user %d closed the connection of user %d", u.id, o.id)
						}
					}
					if opt != 0 {
						checkFile("after kick")
						if b, _ := w.Bans.IsBanned(u.addr); !b {
							fail("the ban of %s was acknowledged (ban file writable: %v), but the running server does not enforce it", u.addr, !blocked)
						}
					}
				},
				"kickWhileLeaving": func(rt *rapid.T) {
					// the kicked user hangs up by itself during the one-second grace of the disconnect request, and somebody else logs
					// in during that same second: the delayed disconnect is about the user that was named, not about whoever is there now
					var cand []int
					for i, u := range users {
						if u.acct != "u4" {
							cand = append(cand, i)
						}
					}
					var free []string
					if len(cand) == 0 || blocked {
						rt.Skip()
					}
					i := cand[rapid.IntRange(0, len(cand)-1).Draw(rt, "who")]
					u := users[i]
					opt := rapid.IntRange(0, 2).Draw(rt, "option")
					for _, ip := range c17Addrs {
						if !banned(ip) && !unsure[ip] && (opt == 0 || ip != u.addr) {
							free = append(free, ip)
						}
					}
					if len(free) == 0 {
						rt.Skip()
					}
					nip := rapid.SampledFrom(free).Draw(rt, "newcomerAddr")
					rec("kick id %d (%s) option %d, who hangs up at once; newcomer from %s", u.id, u.addr, opt, nip)
					fs := []hlref.Field{fld(hlref.FUserID, hlref.BE16(u.id))}
					if opt != 0 {
						fs = append(fs, fld(hlref.FOptions, hlref.BE16(opt)))
					}
					now := time.Now()
					if !okReply(admin.Request(hlref.TranDisconnectUser, fs...)) {
						fail("disconnect request refused")
					}
					switch opt {
					case 1:
						bans[u.addr] = banEntry{expiry: now.Add(30 * time.Minute)}
					case 2:
						bans[u.addr] = banEntry{perm: true}
					}
					if opt != 0 {
						synced()
					}
					u.conn.Close()
					settle(100 * time.Millisecond)
					users = append(users[:i], users[i+1:]...)
					attempt(nip, fmt.Sprintf("u%d", rapid.IntRange(0, 3).Draw(rt, "acct")), "123")
					nc := users[len(users)-1]
					settle(1*time.Second + time.Millisecond)
					if nc.conn.EOF() {
						fail("user %d, who logged in while the kicked user %d was leaving, was disconnected", nc.id, u.id)
					}
					if !userIDs()[nc.id] {
						fail("user %d, who logged in while the kicked user %d was leaving, is no longer in the user list", nc.id, u.id)
					}
					if !okReply(nc.conn.Request(hlref.TranGetUserNameList)) {
						fail("user %d, who logged in while the kicked user %d was leaving, is no longer served", nc.id, u.id)
					}
					for _, o := range users {
						o.conn.TakeInbox()
					}
					admin.TakeInbox()
					if opt != 0 {
						checkFile("after kick of a user who was leaving")
					}
				},
				"advance": func(rt *rapid.T) {
					d := rapid.SampledFrom([]time.Duration{time.Second, 29 * time.Minute, 29*time.Minute + 58*time.Second, time.Minute + time.Second, 2 * time.Hour, 999 * time.Millisecond}).Draw(rt, "delta")
					rec("advance %s", d)
					settle(d)
				},
				"directBan": func(rt *rapid.T) {
					ip := rapid.SampledFrom(c17Addrs).Draw(rt, "ip")
					d := rapid.SampledFrom([]time.Duration{-time.Hour, -time.Second, -1, 0, 1, time.Second, 3 * time.Second, 30 * time.Minute}).Draw(rt, "delta")
					perm := rapid.IntRange(0, 4).Draw(rt, "perm") == 0
					if blocked || unsure[ip] {
						rt.Skip()
					}
					rec("ban-list add %s delta=%s perm=%v", ip, d, perm)
					if perm {
						if err := w.Srv.BanList.Add(ip, nil); err != nil {
							fail("ban list add: %v", err)
						}
						bans[ip] = banEntry{perm: true}
					} else {
						t := time.Now().Add(d)
						if err := w.Srv.BanList.Add(ip, &t); err != nil {
							fail("ban list add: %v", err)
						}
						bans[ip] = banEntry{expiry: t}
					}
					synced()
					checkFile("after ban-list add")
				},
				"banWhileConnectionIdles": func(rt *rapid.T) {
					// a peer has opened its connection and sent nothing yet; its address is banned; then it sends handshake and
					// login.  The ban in force when the handshake is done decides.
					ip := rapid.SampledFrom(c17Addrs).Draw(rt, "ip")
					if unsure[ip] || blocked {
						rt.Skip()
					}
					perm := rapid.Bool().Draw(rt, "perm")
					port++
					rec("connection from %s opened, then its address is banned (perm=%v), then it sends handshake and login", ip, perm)
					c := w.Connect(fmt.Sprintf("%s:%d", ip, port))
					settle(time.Second)
					if perm {
						must(w.Srv.BanList.Add(ip, nil))
						bans[ip] = banEntry{perm: true}
					} else {
						until := time.Now().Add(30 * time.Minute)
						must(w.Srv.BanList.Add(ip, &until))
						bans[ip] = banEntry{expiry: until}
					}
					synced()
					c.SendParts([][]byte{hlref.Handshake(1, 2), hlref.Tran{Type: hlref.TranLogin, ID: 77, Fields: hlsim.LoginOpts{Login: "u0", Password: "pw", Name: []byte("visitor"), Icon: 1}.Fields()}.Encode()})
					settle(2 * time.Second)
					c.Take(8)
					got := c.TakeInbox()
					if len(got) != 1 || got[0].Type != hlref.TranServerMsg || got[0].IsReply != 0 || !c.EOF() {
						fail("a connection from %s was open and silent when the address was banned; after its handshake and login it received %s (closed: %v) instead of the ban notice and the end of the connection", ip, tranSummary(got), c.EOF())
					}
					nt = true
				},
				"operatorUnban": func(rt *rapid.T) {
					// the operator removes an entry from the ban file by hand and has the server reload it: the address is
					// no longer banned (what the server held in memory before does not matter any more)
					var banned []string
					for ip := range fileBans {
						if !unsure[ip] {
							banned = append(banned, ip)
						}
					}
					sort.Strings(banned)
					if len(banned) == 0 {
						rt.Skip()
					}
					ip := rapid.SampledFrom(banned).Draw(rt, "unban")
					rec("operator removes %s from the ban file and reloads", ip)
					path := filepath.Join(w.Cfg, "Banlist.yaml")
					b, err := os.ReadFile(path)
					if err != nil {
						fail("harness: %v", err)
					}
					var doc map[string]*time.Time
					if err := yaml.Unmarshal(b, &doc); err != nil {
						fail("harness: ban file: %v", err)
					}
					delete(doc, ip)
					out, _ := yaml.Marshal(doc)
					must(os.WriteFile(path, out, 0o644))
					if err := w.Bans.Load(); err != nil {
						fail("reload of the ban file: %v", err)
					}
					delete(fileBans, ip)
					bans = map[string]banEntry{} // the reload goes by the file
					for k, v := range fileBans {
						bans[k] = v
					}
					checkFile("after the operator's edit")
					nt = true
				},
				"blockBanFile": func(rt *rapid.T) {
					// the ban file cannot be rewritten for a while (its temporary name is taken by a folder)
					tmp := filepath.Join(w.Cfg, "Banlist.yaml.tmp")
					if blocked {
						must(os.RemoveAll(tmp))
					} else {
						must(os.MkdirAll(filepath.Join(tmp, "in the way"), 0o755))
					}
					blocked = !blocked
					rec("ban file writable: %v", !blocked)
				},
				"restart": func(rt *rapid.T) {
					rec("restart")
					if err := w.Restart(); err != nil {
						fail("restart: %v", err)
					}
					users = nil
					bans = map[string]banEntry{} // the restart goes by the file
					for k, v := range fileBans {
						bans[k] = v
					}
					loginAdmin()
					if len(bans) > 0 {
						nt = true
					}
					checkFile("after restart")
				},
			})
		})
		ev.Case(evid.Hash(strings.Join(history, "|")), nt, fmt.Sprintf("steps:%d", min(len(history)/5*5, 40)))
		if nt && ev.WantSample() {
			ev.Sample(map[string]any{"history": history})
		}
	}
}

func TestC17(t *testing.T) {
	ev := evid.New("C17", "TestC17")
	defer ev.Flush()
	rapid.Check(t, c17prop(ev))
}

// TestC17Burst: several administrators disconnect-and-ban different users at the same instant,
// then the server restarts: every requested ban must be enforced before and after the restart.
func TestC17Burst(t *testing.T) {
	ev := evid.New("C17", "TestC17Burst")
	defer ev.Flush()
	rapid.Check(t, func(rt *rapid.T) {
		n := rapid.IntRange(2, 8).Draw(rt, "pairs")
		opts := rapid.SliceOfN(rapid.IntRange(1, 2), n, n).Draw(rt, "options")
		rounds := rapid.IntRange(1, 3).Draw(rt, "rounds")
		inWorld(rt, hlsim.Options{Agreement: "a", Accounts: []hlsim.AccountSpec{acct("admin", "Admin", "adminpw", allAccess), acct("user", "User", "upw", hlref.AccessOf(hlref.PrivAnyName))}}, func(rt *rapid.T, w *hlsim.World) {
			var banned []string
			for round := 0; round < rounds; round++ {
				var admins, victims []*hlsim.Conn
				var addrs []string
				for i := 0; i < n; i++ {
					admins = append(admins, loginAs(rt, w, fmt.Sprintf("10.17.%d.%d:1", round, 100+i), "admin", "adminpw", fmt.Sprintf("admin%d", i)))
				}
				for i := 0; i < n; i++ {
					addr := fmt.Sprintf("10.17.%d.%d", round, 1+i)
					addrs = append(addrs, addr)
					victims = append(victims, loginAs(rt, w, addr+":5", "user", "upw", fmt.Sprintf("victim%d", i)))
				}
				us, err := admins[0].UserList()
				if err != nil {
					rt.Fatalf("harness: %v", err)
				}
				idOf := map[string]int{}
				for _, u := range us {
					idOf[string(u.Name)] = u.ID
				}
				for i, a := range admins {
					a.SendAsync(hlref.Tran{Type: hlref.TranDisconnectUser, ID: a.NewID(), Fields: []hlref.Field{fld(hlref.FUserID, hlref.BE16(idOf[fmt.Sprintf("victim%d", i)])), fld(hlref.FOptions, hlref.BE16(opts[i]))}}.Encode())
				}
				settle(3 * time.Second)
				for i, v := range victims {
					if !v.EOF() {
						rt.Fatalf("round %d: victim %d still connected three seconds after %d administrators sent their disconnect requests at the same instant", round, i, n)
					}
				}
				banned = append(banned, addrs...)
				for _, a := range admins {
					a.Close()
				}
				settle(time.Second)
				check := func(when string) {
					bf, err := verifhooks.NewBanFile(filepath.Join(w.Cfg, "Banlist.yaml"))
					if err != nil {
						rt.Fatalf("%s: the ban file does not load: %v", when, err)
					}
					for _, addr := range banned {
						if is, _ := bf.IsBanned(addr); !is {
							rt.Fatalf("%s: the ban of %s (requested at the same instant as %d others) is not in the ban file", when, addr, n-1)
						}
						c := w.Connect(addr + ":9")
						if r := c.Login(hlsim.LoginOpts{Login: "user", Password: "upw", Name: []byte("back"), Icon: 1}); r != nil && r.Err == 0 {
							rt.Fatalf("%s: %s was banned but can log in again", when, addr)
						}
						c.Close()
					}
					settle(2 * time.Second)
				}
				check(fmt.Sprintf("round %d, before the restart", round))
				if err := w.Restart(); err != nil {
					rt.Fatalf("restart: %v", err)
				}
				check(fmt.Sprintf("round %d, after the restart", round))
			}
		})
		ev.Case(evid.Hash("c17burst", n, fmt.Sprint(opts), rounds), true, "burst", fmt.Sprintf("pairs:%d", n))
		ev.Label("burst_rounds", rounds)
	})
}
