package props

// C07 with a file root that the operator configured through a symbolic link (the files live on
// another volume): requests that name the root itself - "..", "", ".", "/", "x/.." - in every
// request kind that removes, renames or moves something.  The link, the real folder and the
// would-be side files of the link (its siblings) are all there afterwards.

import (
	"fmt"
	"os"
	"path/filepath"
	"testing"

	"pgregory.net/rapid"

	"verif/harness/evid"
	"verif/harness/hlref"
	"verif/harness/hlsim"
)

func TestC07LinkedRoot(t *testing.T) {
	ev := evid.New("C07", "TestC07LinkedRoot")
	defer ev.Flush()
	rapid.Check(t, func(rt *rapid.T) {
		name := rapid.SampledFrom([]string{"..", "", ".", "/", "dir/..", "../..", "dir/../.."}).Draw(rt, "name")
		kind := rapid.SampledFrom([]string{"delete", "rename", "move", "comment", "alias"}).Draw(rt, "kind")
		withPath := rapid.SampledFrom([]string{"", "dir", ".."}).Draw(rt, "path")
		inWorld(rt, hlsim.Options{Agreement: "a", RootSpelling: 5, Accounts: []hlsim.AccountSpec{acct("admin", "Admin", "adminpw", allAccess)}}, func(rt *rapid.T, w *hlsim.World) {
			link := w.FileRoot + " (link)"
			if fi, err := os.Lstat(link); err != nil || fi.Mode()&os.ModeSymlink == 0 {
				rt.Fatalf("harness: the configured root is not a symbolic link: %v", err)
			}
			for _, d := range []string{"dir", "other"} {
				must(os.MkdirAll(filepath.Join(w.FileRoot, d), 0o755))
			}
			must(os.WriteFile(filepath.Join(w.FileRoot, "f.txt"), []byte("legit"), 0o644))
			// what would be the side files of the link itself are its siblings, outside the root
			base := filepath.Base(link)
			for _, sf := range []string{".info_" + base, ".rsrc_" + base, base + ".incomplete"} {
				must(os.WriteFile(filepath.Join(filepath.Dir(link), sf), []byte("MARKER sibling of the root link "+sf), 0o644))
			}
			before := hlsim.Snap(w.Sandbox)
			c := loginAs(rt, w, "10.7.5.1:1", "admin", "adminpw", "admin")
			fs := []hlref.Field{sfld(hlref.FFileName, name)}
			if withPath != "" {
				fs = append(fs, fld(hlref.FFilePath, p1(withPath)))
			}
			switch kind {
			case "delete":
				c.Request(hlref.TranDeleteFile, fs...)
			case "rename":
				c.Request(hlref.TranSetFileInfo, append(fs, sfld(hlref.FFileNewName, "renamed"))...)
			case "comment":
				c.Request(hlref.TranSetFileInfo, append(fs, sfld(hlref.FFileComment, "a comment"))...)
			case "move":
				c.Request(hlref.TranMoveFile, append(fs, fld(hlref.FFileNewPath, p1("other")))...)
			case "alias":
				c.Request(hlref.TranMakeFileAlias, append(fs, fld(hlref.FFileNewPath, p1("other")))...)
			}
			settle(0)
			relRoot, _ := filepath.Rel(w.Sandbox, w.FileRoot)
			var outside []string
			for _, d := range before.Diff(hlsim.Snap(w.Sandbox)) {
				if len(d) < len(relRoot) || !containsPath(d, relRoot+"/") {
					outside = append(outside, d)
				}
			}
			if len(outside) != 0 {
				rt.Fatalf("file root configured through the symbolic link %q: a %s request with name %q (path %q) changed the file system outside the root: %v", filepath.Base(link), kind, name, withPath, outside)
			}
			if _, err := os.Stat(filepath.Join(link, "f.txt")); err != nil {
				rt.Fatalf("file root configured through a symbolic link: after a %s request with name %q (path %q) the root is not reachable through the link any more: %v", kind, name, withPath, err)
			}
		})
		ev.Case(evid.Hash("linkedroot", name, kind, withPath), true, "kind:"+kind, fmt.Sprintf("name:%q", name))
	})
}

// containsPath: the snapshot difference d is about an entry below prefix.
func containsPath(d, prefix string) bool {
	for i := 0; i+len(prefix) <= len(d); i++ {
		if d[i:i+len(prefix)] == prefix {
			return true
		}
	}
	return false
}
