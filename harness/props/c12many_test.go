package props

// C12 over the chat ids the server hands out: ids are four random bytes, so some private chats
// get an id whose low half is zero (one in 65 536) or whose high half is zero.  Such a chat is a
// private chat like any other: what is said in it reaches its members and nobody else.  The
// test opens chats until the server hands out such an id (up to 300 000 tries), then talks.

import (
	"bytes"
	"fmt"
	"testing"

	"pgregory.net/rapid"

	"verif/harness/evid"
	"verif/harness/hlref"
	"verif/harness/hlsim"
)

func TestC12ManyChats(t *testing.T) {
	ev := evid.New("C12", "TestC12ManyChats")
	defer ev.Flush()
	rapid.Check(t, func(rt *rapid.T) {
		want := rapid.SampledFrom([]string{"low-half-zero", "high-half-zero", "low-half-zero"}).Draw(rt, "idShape")
		found, tries := false, 0
		acc := hlref.AccessOf(hlref.PrivReadChat, hlref.PrivSendChat, hlref.PrivOpenChat, hlref.PrivAnyName)
		inWorld(rt, hlsim.Options{Agreement: "a", Accounts: []hlsim.AccountSpec{acct("u", "U", "pw", acc)}}, func(rt *rapid.T, w *hlsim.World) {
			member := loginAs(rt, w, "10.12.5.1:1", "u", "pw", "member")
			outsider := loginAs(rt, w, "10.12.5.2:1", "u", "pw", "outsider")
			var cid []byte
			for tries = 0; tries < 300000 && !found; tries++ {
				r := member.Request(hlref.TranInviteNewChat, fld(hlref.FUserID, hlref.BE16(2))) // (the outsider is invited each time and never accepts)
				id, ok := r.Get(hlref.FChatID)
				if !okReply(r) || !ok || len(id) != 4 {
					rt.Fatalf("harness: opening private chat %d: %s", tries, replySummary(r))
				}
				switch {
				case bytes.Equal(id, []byte{0, 0, 0, 0}):
					rt.Fatalf("the server handed out the public chat's id 0 for a private chat (after %d chats)", tries)
				case want == "low-half-zero" && id[2] == 0 && id[3] == 0, want == "high-half-zero" && id[0] == 0 && id[1] == 0:
					found, cid = true, append([]byte{}, id...)
				default:
					// not the shape looked for: leave it again so that the server's chat table stays small where it can
					member.Request(hlref.TranLeaveChat, fld(hlref.FChatID, id))
				}
				if tries%2000 == 0 {
					member.TakeInbox()
					outsider.TakeInbox()
				}
			}
			if !found {
				return
			}
			member.TakeInbox()
			outsider.TakeInbox()
			member.Request(hlref.TranChatSend, fld(hlref.FChatID, cid), sfld(hlref.FData, "for members only"))
			settle(0)
			for _, tr := range outsider.TakeInbox() {
				if tr.Type == hlref.TranChatMsg {
					d, _ := tr.Get(hlref.FData)
					rt.Fatalf("a line said in the private chat %x (opened as chat number %d) was delivered to a connected user who is not a member: %q", cid, tries, d)
				}
			}
			got := 0
			for _, tr := range member.TakeInbox() {
				if tr.Type == hlref.TranChatMsg {
					if id, _ := tr.Get(hlref.FChatID); !bytes.Equal(id, cid) {
						rt.Fatalf("the member's own line in private chat %x came back with chat id %x", cid, id)
					}
					got++
				}
			}
			if got != 1 {
				rt.Fatalf("the member of private chat %x received its own line %d times", cid, got)
			}
		})
		ev.Case(evid.Hash("manychats", want, tries), found, fmt.Sprintf("found:%v", found))
		ev.Label("chats_opened", tries)
		if found && ev.WantSample() {
			ev.Sample(map[string]any{"id_shape": want, "chats_opened_until_found": tries})
		}
	})
}
