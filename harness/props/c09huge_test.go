package props

// C09, magnitude of the announced size: an upload whose data fork is announced with 2 GiB .. 4 GiB-1 bytes and whose
// connection dies after a few bytes (nothing large is ever sent).  The final name must not exist, the partial file holds
// exactly what arrived, and the server reports that offset for a resume.

import (
	"bytes"
	"fmt"
	"os"
	"path/filepath"
	"testing"

	"pgregory.net/rapid"

	"verif/harness/evid"
	"verif/harness/hlref"
	"verif/harness/hlsim"
)

func TestC09HugeAnnounced(t *testing.T) {
	ev := evid.New("C09", "TestC09HugeAnnounced")
	defer ev.Flush()
	rapid.Check(t, func(rt *rapid.T) {
		announced := rapid.SampledFrom([]int64{1 << 24, 1<<31 - 1, 1 << 31, 1<<31 + 16, 3 << 30, 1<<32 - 1}).Draw(rt, "announcedDataSize")
		got := rapid.SampledFrom([]int{0, 1, 300, 5000, 40000}).Draw(rt, "bytesBeforeTheCut")
		preserve := rapid.Bool().Draw(rt, "preserve")
		data := genBytes(rt, "data", got)
		inWorld(rt, hlsim.Options{Agreement: "a", PreserveResourceForks: preserve, Accounts: []hlsim.AccountSpec{acct("admin", "Admin", "adminpw", allAccess)}}, func(rt *rapid.T, w *hlsim.World) {
			c := loginAs(rt, w, "10.0.0.1:1", "admin", "adminpw", "admin")
			name := []byte("huge.bin")
			r := c.Request(hlref.TranUploadFile, fld(hlref.FFileName, name), fld(hlref.FTransferSize, hlref.BE32(int(uint32(announced+200)))))
			if !okReply(r) {
				rt.Fatalf("upload request refused: %s", replySummary(r))
			}
			ref, _ := r.Get(hlref.FRefNum)
			info := hlref.InfoFork{Platform: [4]byte{'A', 'M', 'A', 'C'}, Type: [4]byte{'T', 'E', 'X', 'T'}, Creator: [4]byte{'t', 't', 'x', 't'}, Name: name}
			stream := append(hlref.FlatHeader(2, info, int(announced)), data...)
			w.Transfer("10.0.0.1:2", ref, len(stream), stream, 16+len(stream)) // everything is sent, then the connection dies
			final, partial := filepath.Join(w.FileRoot, "huge.bin"), filepath.Join(w.FileRoot, "huge.bin.incomplete")
			ctx := fmt.Sprintf("upload announcing a data fork of %d bytes, connection lost after %d of them", announced, got)
			if b, err := os.ReadFile(final); err == nil {
				rt.Fatalf("%s: the file exists under its final name with %d bytes", ctx, len(b))
			}
			pb, err := os.ReadFile(partial)
			if err != nil {
				rt.Fatalf("%s: no partial file: %v", ctx, err)
			}
			if !bytes.Equal(pb, data) {
				rt.Fatalf("%s: the partial file holds %d bytes that are not the prefix received", ctx, len(pb))
			}
			rr := c.Request(hlref.TranUploadFile, fld(hlref.FFileName, name), fld(hlref.FFileTransferOptions, hlref.BE16(2)))
			rd, ok := rr.Get(hlref.FFileResumeData)
			if !okReply(rr) || !ok {
				rt.Fatalf("%s: resume request not granted with resume data: %s", ctx, replySummary(rr))
			}
			fo, derr := hlref.DecodeResume(rd)
			if derr != nil || len(fo) == 0 || int(fo[0].Offset) != got {
				rt.Fatalf("%s: the server reports resume offset %v (%v), %d bytes were received", ctx, fo, derr, got)
			}
		})
		ev.Case(evid.Hash("huge", announced, got, preserve), announced >= 1<<31, fmt.Sprintf("announced>=2^31:%v", announced >= 1<<31))
	})
}
