package props

// C10 — folder transfers reproduce the tree, item by item.

import (
	"bytes"
	"fmt"
	"os"
	"path/filepath"
	"sort"
	"strings"
	"testing"

	"pgregory.net/rapid"

	"verif/harness/evid"
	"verif/harness/hlref"
	"verif/harness/hlsim"
)

type tnode struct {
	name string
	dir  bool
	data []byte
	kids []*tnode
	rsrc []byte // stored resource fork (side file .rsrc_<name>), download trees only
	info bool   // stored information fork (side file .info_<name>) with a comment, download trees only
	link string // download trees only: the entry is an alias (a symbolic link, as make-alias creates) of this sibling file
}

// decorate gives some files of a download tree stored fork side files (left by uploads made while
// PreserveResourceForks was on, or put there by the operator).
func decorate(rt *rapid.T, label string, kids []*tnode) []*tnode {
	// an alias of one of the folder's files now and then: it is an item like any other, sent with the target's bytes
	var files []*tnode
	used := map[string]bool{}
	for _, k := range kids {
		used[k.name] = true
		if !k.dir && len(k.name) < 200 {
			files = append(files, k)
		}
	}
	if len(files) > 0 && rapid.IntRange(0, 3).Draw(rt, label+"_alias") == 0 {
		tg := files[rapid.IntRange(0, len(files)-1).Draw(rt, label+"_aliasOf")]
		if n := "alias of " + tg.name; !used[n] {
			kids = append(kids, &tnode{name: n, data: tg.data, link: tg.name})
		}
	}
	// ... and the leftover of an interrupted upload: a visible file like any other, sent under the name it has on disk
	if len(files) > 0 && rapid.IntRange(0, 3).Draw(rt, label+"_leftover") == 0 {
		tg := files[rapid.IntRange(0, len(files)-1).Draw(rt, label+"_leftoverOf")]
		n := tg.name + ".incomplete"
		if rapid.Bool().Draw(rt, label+"_leftoverAlone") {
			n = "left behind.incomplete"
		}
		if !used[n] {
			used[n] = true
			kids = append(kids, &tnode{name: n, data: tg.data[:len(tg.data)/2]})
		}
	}
	for i, k := range kids {
		l := fmt.Sprintf("%s_%d", label, i)
		if k.dir {
			k.kids = decorate(rt, l, k.kids)
			continue
		}
		if k.link != "" || len(k.name) > 200 || rapid.IntRange(0, 3).Draw(rt, l+"_forks") != 0 {
			continue
		}
		if rapid.IntRange(0, 2).Draw(rt, l+"_infoOnly") == 0 {
			// only an information fork is stored (what set-comment leaves behind): no resource fork side file at all
			k.rsrc, k.info = []byte{}, true
			continue
		}
		k.rsrc = genBytes(rt, l+"_rsrc", rapid.IntRange(1, 300).Draw(rt, l+"_rsrclen"))
		k.info = rapid.Bool().Draw(rt, l+"_info")
	}
	return kids
}

var treeNameRunes = []rune("abcdefghijklmnopqrstuvwxyzABCXYZ0123456789 _-+()&!,=#\\") // the backslash is a name byte like any other on the server's file system

func genTreeName(rt *rapid.T, label string, allowDot bool, used map[string]bool) string {
	for tries := 0; ; tries++ {
		n := rapid.IntRange(1, 9).Draw(rt, fmt.Sprintf("%s_len%d", label, tries))
		rs := make([]rune, n)
		for i := range rs {
			rs[i] = rapid.SampledFrom(treeNameRunes).Draw(rt, fmt.Sprintf("%s_r%d_%d", label, tries, i))
		}
		s := strings.TrimSpace(string(rs))
		if len(s) > 0 && rapid.IntRange(0, 4).Draw(rt, fmt.Sprintf("%s_hi%d", label, tries)) == 0 {
			// a byte beyond ASCII (Mac Roman e-acute, a UTF-8 lead byte, 0xff): item names are bytes, and what is uploaded
			// comes back under the same bytes
			i := rapid.IntRange(0, len(s)-1).Draw(rt, fmt.Sprintf("%s_hipos%d", label, tries))
			s = s[:i] + string([]byte{rapid.SampledFrom([]byte{0x8e, 0xc3, 0xff, 0xa9}).Draw(rt, fmt.Sprintf("%s_hib%d", label, tries))}) + s[i+1:]
		}
		if rapid.IntRange(0, 3).Draw(rt, fmt.Sprintf("%s_ext%d", label, tries)) == 0 {
			s += rapid.SampledFrom([]string{".txt", ".sit", ".jpg"}).Draw(rt, fmt.Sprintf("%s_e%d", label, tries))
		}
		if allowDot && rapid.IntRange(0, 5).Draw(rt, fmt.Sprintf("%s_dot%d", label, tries)) == 0 {
			s = "." + s
		}
		if s == "" || s == "." || s == ".." || used[s] || strings.HasSuffix(s, ".incomplete") || strings.HasPrefix(s, ".info_") || strings.HasPrefix(s, ".rsrc_") {
			continue
		}
		used[s] = true
		return s
	}
}

func genTree(rt *rapid.T, label string, depth int, budget *int, allowDot bool) []*tnode {
	var out []*tnode
	maxKids := 5
	if depth == 0 {
		maxKids = 6
	}
	n := rapid.IntRange(0, maxKids).Draw(rt, label+"_n")
	used := map[string]bool{}
	for i := 0; i < n && *budget > 0; i++ {
		*budget--
		nd := &tnode{name: genTreeName(rt, fmt.Sprintf("%s_%d", label, i), allowDot, used)}
		isDir := depth < 3 && rapid.IntRange(0, 2).Draw(rt, fmt.Sprintf("%s_%d_isdir", label, i)) == 0
		if rapid.IntRange(0, 14).Draw(rt, fmt.Sprintf("%s_%d_long", label, i)) == 0 {
			// a name near the 255 bytes one length byte (and the file system) allow; files stay short enough for the
			// ".incomplete" suffix an upload needs
			lens := []int{200, 243, 244}
			if isDir {
				lens = []int{244, 250, 252, 253, 254, 255}
			}
			if l := rapid.SampledFrom(lens).Draw(rt, fmt.Sprintf("%s_%d_longlen", label, i)); l > len(nd.name) {
				// (the short name stays taken: a later sibling that drew it again and was padded alike would be the same entry twice)
				if long := nd.name + strings.Repeat("L", l-len(nd.name)); !used[long] {
					nd.name = long
					used[long] = true
				}
			}
		}
		if isDir {
			nd.dir = true
			nd.kids = genTree(rt, fmt.Sprintf("%s_%d", label, i), depth+1, budget, allowDot)
		} else {
			sz := rapid.SampledFrom([]int{0, 1, 10, 100, 511, 513, 4096, 40000}).Draw(rt, fmt.Sprintf("%s_%d_size", label, i))
			if rapid.Bool().Draw(rt, fmt.Sprintf("%s_%d_rnd", label, i)) {
				sz = rapid.IntRange(0, 3000).Draw(rt, fmt.Sprintf("%s_%d_size2", label, i))
			}
			nd.data = genBytes(rt, fmt.Sprintf("%s_%d_data", label, i), sz)
		}
		out = append(out, nd)
	}
	return out
}

// wideFolder: in one case of forty the tree also has a folder with 254-300 tiny files, so that the whole transfer has
// more items than fit one byte of the 16-bit item count.
func wideFolder(rt *rapid.T, kids []*tnode) []*tnode {
	if rapid.IntRange(0, 39).Draw(rt, "wide") != 0 {
		return kids
	}
	for _, k := range kids {
		if k.name == "wide" {
			return kids
		}
	}
	n := rapid.SampledFrom([]int{254, 255, 256, 257, 300}).Draw(rt, "wideItems")
	nd := &tnode{name: "wide", dir: true}
	for i := 0; i < n; i++ {
		nd.kids = append(nd.kids, &tnode{name: fmt.Sprintf("w%03d", i), data: []byte{byte(i), byte(i >> 8)}[:i%3]})
	}
	return append(kids, nd)
}

// deepChain: in one case of forty the tree also has a chain of 253-258 nested folders with a file at the bottom, so that
// item paths have more segments than fit one byte of their 16-bit segment count.
func deepChain(rt *rapid.T, kids []*tnode) []*tnode {
	if rapid.IntRange(0, 39).Draw(rt, "deep") != 0 {
		return kids
	}
	for _, k := range kids {
		if k.name == "deep" {
			return kids
		}
	}
	n := rapid.SampledFrom([]int{253, 254, 255, 256, 258}).Draw(rt, "deepLevels")
	top := &tnode{name: "deep", dir: true}
	cur := top
	for i := 1; i < n; i++ {
		nx := &tnode{name: "d", dir: true}
		cur.kids = append(cur.kids, nx)
		cur = nx
	}
	cur.kids = append(cur.kids, &tnode{name: "bottom.txt", data: []byte("the file at the bottom of the chain")})
	return append(kids, top)
}

// sameNameAsRoot: now and then an entry somewhere below has the name the transferred folder itself has ("Tree" for
// downloads, "Up" for uploads) - a file or a folder with children of its own.
func sameNameAsRoot(rt *rapid.T, kids []*tnode) []*tnode {
	if rapid.IntRange(0, 7).Draw(rt, "sameNameAsRoot") != 0 {
		return kids
	}
	for _, n := range []string{"Tree", "Up"} {
		for _, k := range kids {
			if k.name == n {
				return kids
			}
		}
	}
	mk := func(n string) *tnode {
		if rapid.Bool().Draw(rt, "sameName_"+n+"_dir") {
			return &tnode{name: n, dir: true, kids: []*tnode{{name: "inside.txt", data: []byte("inside " + n)}, {name: n, data: []byte("a file named like the folder")}}}
		}
		return &tnode{name: n, data: []byte("a file named like the transferred folder")}
	}
	// at the top level or one level down
	var dirs []*tnode
	for _, k := range kids {
		if k.dir && len(k.name) < 100 && k.name != "wide" && k.name != "deep" {
			dirs = append(dirs, k)
		}
	}
	if len(dirs) > 0 && rapid.Bool().Draw(rt, "sameNameDeeper") {
		d := dirs[rapid.IntRange(0, len(dirs)-1).Draw(rt, "sameNameIn")]
		for _, k := range d.kids {
			if k.name == "Tree" || k.name == "Up" {
				return kids
			}
		}
		d.kids = append(d.kids, mk("Tree"), mk("Up"))
		return kids
	}
	return append(kids, mk("Tree"), mk("Up"))
}

func sortKids(k []*tnode) []*tnode {
	s := append([]*tnode{}, k...)
	sort.Slice(s, func(i, j int) bool { return s[i].name < s[j].name })
	return s
}

func writeTree(dir string, kids []*tnode) {
	for _, k := range kids {
		p := filepath.Join(dir, k.name)
		if k.dir {
			must(os.MkdirAll(p, 0o755))
			writeTree(p, k.kids)
		} else if k.link != "" {
			must(os.Symlink(filepath.Join(dir, k.link), p))
		} else {
			must(os.WriteFile(p, k.data, 0o644))
			if len(k.rsrc) > 0 {
				must(os.WriteFile(filepath.Join(dir, ".rsrc_"+k.name), k.rsrc, 0o644))
			}
			if k.info {
				inf := hlref.InfoFork{Platform: [4]byte{'A', 'M', 'A', 'C'}, Type: [4]byte{'T', 'E', 'X', 'T'}, Creator: [4]byte{'t', 't', 'x', 't'}, Name: []byte(k.name), Comment: []byte("stored comment")}
				must(os.WriteFile(filepath.Join(dir, ".info_"+k.name), inf.Encode(), 0o644))
			}
		}
	}
}

type flatItem struct {
	path []string
	dir  bool
	data []byte
	rsrc []byte
}

// flatten lists the tree depth-first in lexical order; visibleOnly drops entries whose
// own name starts with a dot (their children are still visited, as the statement says
// "each file and sub-folder whose name does not start with a dot").
func flatten(prefix []string, kids []*tnode, visibleOnly bool) []flatItem {
	var out []flatItem
	for _, k := range sortKids(kids) {
		p := append(append([]string{}, prefix...), k.name)
		if !visibleOnly || !strings.HasPrefix(k.name, ".") {
			out = append(out, flatItem{path: p, dir: k.dir, data: k.data, rsrc: k.rsrc})
		}
		if k.dir {
			out = append(out, flatten(p, k.kids, visibleOnly)...)
		}
	}
	return out
}

func hasNested(kids []*tnode) (nestedDir, file bool) {
	for _, k := range kids {
		if k.dir {
			nestedDir = true
			_, f := hasNested(k.kids)
			file = file || f
		} else {
			file = true
		}
	}
	return
}

func treeHash(kids []*tnode) string {
	var sb strings.Builder
	for _, it := range flatten(nil, kids, false) {
		fmt.Fprintf(&sb, "%s|%v|%d|%s;", strings.Join(it.path, "/"), it.dir, len(it.data), evid.Hash(it.data))
	}
	return sb.String()
}

// readTree reads a directory back into flat items (all entries, lexical depth-first).
func readTree(dir string) []flatItem {
	var out []flatItem
	var walk func(prefix []string, d string)
	walk = func(prefix []string, d string) {
		ents, _ := os.ReadDir(d)
		for _, e := range ents {
			p := append(append([]string{}, prefix...), e.Name())
			if e.IsDir() {
				out = append(out, flatItem{path: p, dir: true})
				walk(p, filepath.Join(d, e.Name()))
			} else {
				b, _ := os.ReadFile(filepath.Join(d, e.Name()))
				out = append(out, flatItem{path: p, data: b})
			}
		}
	}
	walk(nil, dir)
	return out
}

func sameItems(a, b []flatItem) string {
	if len(a) != len(b) {
		return fmt.Sprintf("%d entries vs %d (%s | %s)", len(a), len(b), itemNames(a), itemNames(b))
	}
	for i := range a {
		if strings.Join(a[i].path, "/") != strings.Join(b[i].path, "/") || a[i].dir != b[i].dir || !bytes.Equal(a[i].data, b[i].data) {
			return fmt.Sprintf("entry %d: %s dir=%v %d bytes vs %s dir=%v %d bytes", i, strings.Join(a[i].path, "/"), a[i].dir, len(a[i].data), strings.Join(b[i].path, "/"), b[i].dir, len(b[i].data))
		}
	}
	return ""
}

func itemNames(a []flatItem) string {
	var s []string
	for _, x := range a {
		s = append(s, strings.Join(x.path, "/"))
	}
	return strings.Join(s, ",")
}

// downloadFolder runs a folder download with the given per-item action script and applies
// the oracle.  actions[i] applies to the i-th expected *file* header: 1 send, 2 resume, 3 skip.
func downloadFolder(rt *rapid.T, w *hlsim.World, c *hlsim.Conn, folder string, fpath []byte, kids []*tnode, actions func(i int, size int) (int, int)) (nontrivialActions int) {
	r := c.Request(hlref.TranDownloadFldr, append([]hlref.Field{sfld(hlref.FFileName, folder)}, pathField(fpath)...)...)
	if !okReply(r) {
		rt.Fatalf("folder download of %q not granted: %s", folder, replySummary(r))
	}
	ref, _ := r.Get(hlref.FRefNum)
	cnt, ok := r.Get(hlref.FFolderItemCount)
	if !ok {
		rt.Fatalf("folder download reply lacks the item count")
	}
	want := flatten(nil, kids, true)
	type choice struct{ act, off int }
	choices := map[string]choice{}
	fileIdx := 0
	items, leftover, err := w.FolderDownload("10.0.0.1:2", ref, func(path []string, isDir bool) (int, int) {
		if isDir {
			return 3, 0
		}
		// find the expected size for this path (unknown paths get "send")
		size := 0
		for _, x := range want {
			if strings.Join(x.path, "/") == strings.Join(path, "/") {
				size = len(x.data)
			}
		}
		a, off := actions(fileIdx, size)
		fileIdx++
		choices[strings.Join(path, "/")] = choice{a, off}
		return a, off
	}, len(want)+5)
	if err != nil {
		rt.Fatalf("folder download of %q: %v (items so far: %d)", folder, err, len(items))
	}
	if len(leftover) != 0 {
		rt.Fatalf("folder download of %q: %d stray bytes after the last item: %s", folder, len(leftover), hexs(leftover))
	}
	if hlref.U16(cnt) != len(items) {
		rt.Fatalf("folder download of %q announced %d items but sent %d item headers (%s)", folder, hlref.U16(cnt), len(items), fmt.Sprint(items))
	}
	if len(items) != len(want) {
		rt.Fatalf("folder download of %q sent %d item headers, the folder has %d visible entries (sent: %v, expected: %s)", folder, len(items), len(want), itemPaths(items), itemNames(want))
	}
	for i, it := range items {
		x := want[i]
		if strings.Join(it.Path, "/") != strings.Join(x.path, "/") || it.IsDir != x.dir {
			rt.Fatalf("folder download of %q: item %d is %q (dir=%v), expected %q (dir=%v) in depth-first order", folder, i, strings.Join(it.Path, "/"), it.IsDir, strings.Join(x.path, "/"), x.dir)
		}
		if x.dir {
			continue
		}
		ch := choices[strings.Join(x.path, "/")]
		switch ch.act {
		case 3:
			if it.Size != -1 || len(it.Data) != 0 {
				rt.Fatalf("folder download: skipped file %q was sent anyway (%d bytes)", strings.Join(x.path, "/"), len(it.Data))
			}
			nontrivialActions++
		case 1, 2:
			k := 0
			if ch.act == 2 {
				k = ch.off
				nontrivialActions++
			}
			p, err := hlref.ParseFlatHeader(it.Data)
			if err != nil {
				rt.Fatalf("folder download: file %q: stream after the size prefix is not a flattened-file header: %v (%s)", strings.Join(x.path, "/"), err, hexs(it.Data))
			}
			if x.rsrc != nil {
				// a file with stored fork side files.  What the server does with them in a folder download is not pinned down by
				// the statement (it sends the stored resource fork when an information fork is stored too, and not when the
				// file is resumed); what is checked is that the item agrees with its own header: the data fork is content[k:],
				// and a header that announces three forks is followed by the stored resource fork - otherwise the client waits
				// for a fork that never comes and the rest of the tree is lost.  (The size prefix is not compared for these
				// files: like the transfer size of a single download with a stored resource fork - which C08 leaves out for the
				// same reason - it does not count that fork's header.)
				data := it.Data[p.HeaderLen:]
				if len(data) < len(x.data)-k || !bytes.Equal(data[:len(x.data)-k], x.data[k:]) {
					rt.Fatalf("folder download: file %q (with stored fork side files): the bytes after the header do not start with content[%d:] (%d bytes follow, first difference at %d)", strings.Join(x.path, "/"), k, len(data), firstDiff(data[:min(len(data), len(x.data)-k)], x.data[k:]))
				}
				rest := data[len(x.data)-k:]
				fork := append(hlref.ForkHeader("MACR", len(x.rsrc)), x.rsrc...)
				switch {
				case ch.act == 1 && p.ForkCount == 3 && !bytes.Equal(rest, fork):
					rt.Fatalf("folder download: file %q: the header announces 3 forks and the file has a stored resource fork of %d bytes, but after the data fork come %d bytes that are not that fork (PreserveResourceForks=%v)", strings.Join(x.path, "/"), len(x.rsrc), len(rest), w.Srv.Config.PreserveResourceForks)
				case len(rest) != 0 && !bytes.Equal(rest, fork):
					rt.Fatalf("folder download: file %q: %d stray bytes after the data fork that are not the stored resource fork", strings.Join(x.path, "/"), len(rest))
				}
				continue
			}
			if it.Size != len(it.Data) {
				rt.Fatalf("folder download: file %q (size %d, action %d offset %d): size prefix %d but %d bytes follow", strings.Join(x.path, "/"), len(x.data), ch.act, k, it.Size, len(it.Data))
			}
			tail := x.data[k:]
			if it.Size != p.HeaderLen+len(tail) {
				rt.Fatalf("folder download: file %q: size prefix %d, expected header %d + data %d - offset %d", strings.Join(x.path, "/"), it.Size, p.HeaderLen, len(x.data), k)
			}
			if !bytes.Equal(it.Data[p.HeaderLen:], tail) {
				rt.Fatalf("folder download: file %q: bytes after the header are not content[%d:] (first difference at %d)", strings.Join(x.path, "/"), k, firstDiff(it.Data[p.HeaderLen:], tail))
			}
		}
	}
	return nontrivialActions
}

func itemPaths(items []hlsim.FolderItem) []string {
	var s []string
	for _, it := range items {
		s = append(s, strings.Join(it.Path, "/"))
	}
	return s
}

func c10download(ev *evid.Rec) func(rt *rapid.T) {
	return func(rt *rapid.T) {
		budget := 40
		if thorough() {
			budget = 300
		}
		kids := genTree(rt, "t", 0, &budget, true)
		kids = wideFolder(rt, kids)
		kids = deepChain(rt, kids)
		kids = sameNameAsRoot(rt, kids)
		kids = decorate(rt, "f", kids)
		preserve := rapid.Bool().Draw(rt, "preserveResourceForks") // the option governs what uploads keep, not what downloads send
		script := rapid.SliceOfN(rapid.IntRange(0, 9), 60, 60).Draw(rt, "script")
		offs := rapid.SliceOfN(rapid.IntRange(0, 1000), 60, 60).Draw(rt, "offsets")
		own := rapid.IntRange(0, 3).Draw(rt, "ownroot") == 0
		nta := 0
		inWorld(rt, hlsim.Options{Agreement: "a", PreserveResourceForks: preserve, Accounts: []hlsim.AccountSpec{acct("admin", "Admin", "adminpw", allAccess)}}, func(rt *rapid.T, w *hlsim.World) {
			froot := w.FileRoot
			if own {
				// the account has a file root of its own; the server-wide root has a folder of the same name with other content
				froot = ownRoot(rt, w, acct("admin", "Admin", "adminpw", allAccess))
				must(os.MkdirAll(filepath.Join(w.FileRoot, "Tree", "decoy folder"), 0o755))
				must(os.WriteFile(filepath.Join(w.FileRoot, "Tree", "decoy.txt"), []byte("not this tree"), 0o644))
			}
			must(os.MkdirAll(filepath.Join(froot, "Tree"), 0o755))
			writeTree(filepath.Join(froot, "Tree"), kids)
			c := loginAs(rt, w, "10.0.0.1:1", "admin", "adminpw", "admin")
			nta = downloadFolder(rt, w, c, "Tree", nil, kids, func(i, size int) (int, int) {
				switch s := script[i%len(script)]; {
				case s < 5:
					return 1, 0
				case s < 8:
					off := 0
					if size > 0 {
						switch offs[i%len(offs)] % 4 {
						case 0:
							off = size
						case 1:
							off = 1
						case 2:
							off = size - 1
						default:
							off = offs[i%len(offs)] * size / 1000
						}
					}
					return 2, off
				default:
					return 3, 0
				}
			})
		})
		nd, f := hasNested(kids)
		ev.Case(evid.Hash("dl", treeHash(kids), fmt.Sprint(script[:8]), own), nd && f && nta > 0, "download", fmt.Sprintf("own-root:%v", own), fmt.Sprintf("entries:%d", min(len(flatten(nil, kids, false))/10*10, 100)))
		if nd && f && nta > 0 && ev.WantSample() {
			ev.Sample(map[string]any{"direction": "download", "tree": itemNames(flatten(nil, kids, false)), "non_default_actions": nta})
		}
	}
}

func c10upload(ev *evid.Rec) func(rt *rapid.T) {
	return func(rt *rapid.T) {
		budget := 30
		if thorough() {
			budget = 200
		}
		kids := genTree(rt, "t", 0, &budget, false)
		kids = wideFolder(rt, kids)
		kids = deepChain(rt, kids)
		kids = sameNameAsRoot(rt, kids)
		// some clients end the information fork of an item right after the name (items are streamed without a comment)
		hlref.ShortInfoFork = rapid.Bool().Draw(rt, "shortInfoFork")
		defer func() { hlref.ShortInfoFork = false }()
		all := flatten(nil, kids, false)
		// server pre-seeding: some files already complete, some partial
		seed := map[string]int{} // path -> -1 complete, >=0 partial length
		for i, it := range all {
			if it.dir {
				continue
			}
			switch rapid.IntRange(0, 5).Draw(rt, fmt.Sprintf("seed%d", i)) {
			case 0:
				seed[strings.Join(it.path, "/")] = -1
			case 1:
				seed[strings.Join(it.path, "/")] = rapid.IntRange(0, len(it.data)).Draw(rt, fmt.Sprintf("seedlen%d", i))
			case 2:
				if rapid.Bool().Draw(rt, fmt.Sprintf("seedalias%d", i)) {
					seed[strings.Join(it.path, "/")] = -2 // an alias whose target is gone lies where the file will go: there is no such file yet
				}
			}
		}
		target := rapid.SampledFrom([]string{"root", "Uploads"}).Draw(rt, "target")
		own := rapid.IntRange(0, 3).Draw(rt, "ownroot") == 0
		rsrcOf := rapid.SliceOfN(rapid.SampledFrom([]int{0, 0, 0, 1, 2, 700}), 8, 8).Draw(rt, "rsrcForks") // per item: 0 = two forks, n = resource fork of n-1 bytes
		preserve := rapid.Bool().Draw(rt, "preserve")
		cutAt, wasCut := -1, false
		if rapid.IntRange(0, 2).Draw(rt, "cutFirst") == 0 {
			streamed := 0
			for _, it := range all {
				streamed += len(it.data) + 150
			}
			cutAt = rapid.IntRange(0, 16+streamed).Draw(rt, "cutAt")
		}
		inWorld(rt, hlsim.Options{Agreement: "a", PreserveResourceForks: preserve, Accounts: []hlsim.AccountSpec{acct("admin", "Admin", "adminpw", allAccess)}}, func(rt *rapid.T, w *hlsim.World) {
			base := w.FileRoot
			if own {
				base = ownRoot(rt, w, acct("admin", "Admin", "adminpw", allAccess))
			}
			var path []byte
			if target == "Uploads" {
				base = filepath.Join(base, "Uploads")
				must(os.MkdirAll(base, 0o755))
				path = p1("Uploads")
			}
			dst := filepath.Join(base, "Up")
			if len(seed) > 0 {
				for _, it := range all {
					key := strings.Join(it.path, "/")
					if s, ok := seed[key]; ok {
						must(os.MkdirAll(filepath.Dir(filepath.Join(dst, key)), 0o755))
						if s == -2 {
							must(os.Symlink(filepath.Join(dst, "a target that is gone"), filepath.Join(dst, key)))
						} else if s < 0 {
							must(os.WriteFile(filepath.Join(dst, key), it.data, 0o644))
						} else {
							must(os.WriteFile(filepath.Join(dst, key)+".incomplete", it.data[:s], 0o644))
						}
					}
				}
			}
			c := loginAs(rt, w, "10.0.0.1:1", "admin", "adminpw", "admin")
			total := 0
			var items []hlsim.UploadItem
			for _, it := range all {
				u := hlsim.UploadItem{IsDir: it.dir, Data: it.data}
				if !it.dir && rsrcOf[len(items)%len(rsrcOf)] > 0 {
					// the client streams a resource fork as well (the server keeps it or not, depending on its configuration;
					// either way the items that follow must arrive)
					u.Rsrc = bytes.Repeat([]byte{'r'}, rsrcOf[len(items)%len(rsrcOf)]-1)
				}
				for _, p := range it.path {
					u.Path = append(u.Path, []byte(p))
				}
				items = append(items, u)
				total += len(it.data)
			}
			// what the server must answer per item, from what is on disk when the upload starts
			expectNow := func() (expect []string) {
				for _, it := range all {
					full := filepath.Join(dst, filepath.Join(it.path...))
					switch {
					case it.dir:
						expect = append(expect, "next")
					case fileExists(full):
						expect = append(expect, "next")
					case fileExists(full + ".incomplete"):
						st, _ := os.Stat(full + ".incomplete")
						expect = append(expect, fmt.Sprintf("resume:%d", st.Size()))
					default:
						expect = append(expect, "send")
					}
				}
				return expect
			}
			upload := func(remote string, cut int) (hlsim.UploadTrace, []string, error) {
				expect := expectNow()
				fs := []hlref.Field{sfld(hlref.FFileName, "Up"), fld(hlref.FTransferSize, hlref.BE32(total)), fld(hlref.FFolderItemCount, hlref.BE16(len(items)))}
				fs = append(fs, pathField(path)...)
				r := c.Request(hlref.TranUploadFldr, fs...)
				if !okReply(r) {
					rt.Fatalf("folder upload not granted: %s", replySummary(r))
				}
				ref, _ := r.Get(hlref.FRefNum)
				tr, err := w.FolderUploadCut(remote, ref, items, cut)
				return tr, expect, err
			}
			if cutAt >= 0 {
				// the connection dies after cutAt bytes of the client's stream: nothing may be published truncated,
				// partial data must be a prefix, and the same upload done again must complete the tree
				tr, expect, err := upload("10.0.0.1:3", cutAt)
				if err == hlsim.ErrCut {
					wasCut = true
					for i, a := range tr.Actions {
						if a != "no-answer" && a != expect[i] {
							rt.Fatalf("folder upload (cut after %d bytes): server answered %v, expected a prefix of %v for items %s (pre-seeded: %v)", cutAt, tr.Actions, expect, itemNames(all), seed)
						}
					}
					for _, it := range all {
						if it.dir {
							continue
						}
						full := filepath.Join(dst, filepath.Join(it.path...))
						if b, e := os.ReadFile(full); e == nil && !bytes.Equal(b, it.data) {
							rt.Fatalf("folder upload cut after %d bytes of the client's stream: %q is published under its final name with %d bytes, the client's file has %d (pre-seeded: %v)", cutAt, strings.Join(it.path, "/"), len(b), len(it.data), seed)
						}
						if b, e := os.ReadFile(full + ".incomplete"); e == nil && !bytes.HasPrefix(it.data, b) {
							rt.Fatalf("folder upload cut after %d bytes: partial data of %q (%d bytes) is not a prefix of the client's file", cutAt, strings.Join(it.path, "/"), len(b))
						}
					}
				} else if err != nil {
					rt.Fatalf("folder upload of %s: %v (answers so far %v)", itemNames(all), err, tr.Actions)
				}
			}
			tr, expect, err := upload("10.0.0.1:2", -1)
			if err != nil {
				rt.Fatalf("folder upload of %s: %v (answers so far %v)", itemNames(all), err, tr.Actions)
			}
			if fmt.Sprint(tr.Actions) != fmt.Sprint(expect) {
				rt.Fatalf("folder upload: server answered %v, expected %v for items %s (pre-seeded: %v, earlier upload cut: %v)", tr.Actions, expect, itemNames(all), seed, wasCut)
			}
			onDisk := readTree(dst)
			if preserve {
				// the fork side files the server keeps next to each file are not entries of the tree
				kept := onDisk[:0]
				for _, it := range onDisk {
					if n := it.path[len(it.path)-1]; !strings.HasPrefix(n, ".info_") && !strings.HasPrefix(n, ".rsrc_") {
						kept = append(kept, it)
					}
				}
				onDisk = kept
			}
			if d := sameItems(onDisk, all); d != "" {
				rt.Fatalf("folder upload: resulting tree differs from the streamed tree: %s (pre-seeded: %v, earlier upload cut: %v at %d)", d, seed, wasCut, cutAt)
			}
			if preserve {
				// what the server keeps of an item that was sent whole with three forks: the resource fork as it was sent, and an
				// information fork that is one
				for i, u := range items {
					if u.IsDir || u.Rsrc == nil || i >= len(tr.Actions) || tr.Actions[i] != "send" {
						continue
					}
					var ps []string
					for _, x := range u.Path {
						ps = append(ps, string(x))
					}
					dir, name := filepath.Join(dst, filepath.Join(ps[:len(ps)-1]...)), ps[len(ps)-1]
					if rb, err := os.ReadFile(filepath.Join(dir, ".rsrc_"+name)); err != nil || !bytes.Equal(rb, u.Rsrc) {
						rt.Fatalf("folder upload with PreserveResourceForks: item %q was sent with a resource fork of %d bytes, the server keeps %d bytes that are not that fork (%v)", strings.Join(ps, "/"), len(u.Rsrc), len(rb), err)
					}
					if ib, err := os.ReadFile(filepath.Join(dir, ".info_"+name)); err == nil {
						if _, derr := hlref.DecodeInfoFork(ib); derr != nil {
							rt.Fatalf("folder upload with PreserveResourceForks: what the server keeps as the information fork of %q (%d bytes) is not one: %v", strings.Join(ps, "/"), len(ib), derr)
						}
					}
				}
			}
			// round trip: download what was uploaded (files with stored forks are outside the property's quantifier: skipped
			// when the server kept a resource fork for some item)
			storedFork := false
			for _, u := range items {
				storedFork = storedFork || (preserve && u.Rsrc != nil)
			}
			if !storedFork && !preserve {
				downloadFolder(rt, w, c, "Up", path, kids, func(int, int) (int, int) { return 1, 0 })
			}
		})
		nd, f := hasNested(kids)
		cl := "uncut"
		if wasCut {
			cl = "cut-then-again"
		}
		ev.Case(evid.Hash("ul", treeHash(kids), fmt.Sprint(seed), cutAt, own), nd && f && (len(seed) > 0 || wasCut), "upload", cl, fmt.Sprintf("own-root:%v", own), fmt.Sprintf("entries:%d", min(len(all)/10*10, 100)), "target:"+target)
		if nd && f && len(seed) > 0 && ev.WantSample() {
			ev.Sample(map[string]any{"direction": "upload+roundtrip", "tree": itemNames(all), "preseeded(-1=complete,-2=dangling alias,n=partial bytes)": seed})
		}
	}
}

func TestC10Download(t *testing.T) {
	ev := evid.New("C10", "TestC10Download")
	defer ev.Flush()
	rapid.Check(t, c10download(ev))
}

func TestC10Upload(t *testing.T) {
	ev := evid.New("C10", "TestC10Upload")
	defer ev.Flush()
	rapid.Check(t, c10upload(ev))
}

func fileExists(p string) bool {
	st, err := os.Stat(p)
	return err == nil && !st.IsDir()
}
