package props

import (
	"fmt"
	"os"
	"path/filepath"
	"runtime"
	"sync"
	"testing/synctest"
	"time"

	"pgregory.net/rapid"

	"verif/harness/evid"
	"verif/harness/hlref"
	"verif/harness/hlsim"
)

var (
	baseOnce sync.Once
	baseDir  string
)

// worldBase returns a per-process scratch directory under $TMPDIR (the driver points
// TMPDIR into its own scratch directory and removes it afterwards).
func worldBase() string {
	baseOnce.Do(func() {
		d, err := os.MkdirTemp("", fmt.Sprintf("verif-%d-", os.Getpid()))
		if err != nil {
			panic(err)
		}
		baseDir = d
	})
	return baseDir
}

// inWorld runs body inside a synctest bubble with a freshly built world; the world is
// torn down and its directory removed afterwards, also when body fails.
func inWorld(rt *rapid.T, opt hlsim.Options, body func(rt *rapid.T, w *hlsim.World)) {
	// A real-time watchdog, started outside the bubble (inside it the clock is fake): when a server goroutine is stuck on
	// a lock somebody never released, or spins, the bubble never becomes quiescent and the case would hang until the test
	// deadline.  Cases take seconds at most, also on a loaded machine; ten minutes is a wedge.
	done := make(chan struct{})
	defer close(done)
	go func() {
		select {
		case <-done:
		case <-time.After(worldWatchdog):
			buf := make([]byte, 1<<20)
			n := runtime.Stack(buf, true)
			fmt.Fprintf(os.Stderr, "VERIF-HANG-SUSPECT\nVERIF-VIOLATION %s %s: the server did not become quiescent within %s of real time in one generated case (a goroutine waits for a lock that is never released, or spins)\n%s\n", evid.LastProp, evid.LastTest, worldWatchdog, buf[:n])
			os.Exit(3)
		}
	}()
	rapid.SyncTest(rt, func(rt *rapid.T) {
		// the operator may have spelled the file root in any equivalent way (trailing slash, /./, //, a detour through ..)
		if opt.RootSpelling == 0 {
			opt.RootSpelling = rapid.SampledFrom([]int{0, 0, 0, 0, 1, 2, 3, 4}).Draw(rt, "rootSpelling") // (5, a symbolic link, only where the oracles resolve links: TestC07LinkedRoot)
		}
		// ... and may have configured a banner (the shipped configuration does): 1.5 clients are then told about it when
		// they agree
		if opt.BannerFile == "-" {
			opt.BannerFile = "" // the caller decided: no banner (checks that compare two worlds must build them alike)
		} else if opt.BannerFile == "" && rapid.Bool().Draw(rt, "bannerConfigured") {
			opt.BannerFile = "banner.jpg"
		}
		// ... and may have written the account files by hand, listing only the privileges an account has
		if !opt.SparseAccountFiles {
			opt.SparseAccountFiles = rapid.IntRange(0, 3).Draw(rt, "handWrittenAccountFiles") == 0
		}
		w, err := hlsim.New(worldBase(), opt)
		if err != nil {
			rt.Fatalf("harness: building world: %v", err)
		}
		// what the server code takes for the system's temporary directory lies inside the sandbox, where the snapshot
		// oracles see it (anything the server leaves there is a file outside its trees)
		oldTmp, hadTmp := os.LookupEnv("TMPDIR")
		systmp := filepath.Join(w.Sandbox, "systmp")
		if err := os.MkdirAll(systmp, 0o755); err != nil {
			rt.Fatalf("harness: %v", err)
		}
		os.Setenv("TMPDIR", systmp)
		defer func() {
			if hadTmp {
				os.Setenv("TMPDIR", oldTmp)
			} else {
				os.Unsetenv("TMPDIR")
			}
		}()
		// clients may send the fields of a request in any order: in half of the cases every request of the case does
		if rapid.Bool().Draw(rt, "shuffleRequestFields") {
			w.FieldOrder = rapid.Uint64Range(1, 1<<62).Draw(rt, "fieldOrder")
		}
		w.Start()
		defer func() {
			w.Stop()
			w.Remove()
		}()
		body(rt, w)
	})
}

func settle(d time.Duration) {
	time.Sleep(d)
	synctest.Wait()
}

// worldWatchdog: 4 minutes in the quick tier (its jobs have 10-15 minute budgets), 10 minutes otherwise.
var worldWatchdog = func() time.Duration {
	if os.Getenv("VERIF_TIER") == "thorough" {
		return 10 * time.Minute
	}
	return 4 * time.Minute
}()

var allAccess = hlref.AllAccess()

func acct(login, name, pw string, a hlref.Access) hlsim.AccountSpec {
	return hlsim.AccountSpec{Login: login, Name: name, Password: pw, Access: a}
}

// loginAs connects and logs in with the 1.2.3 flow (name in the login transaction).
func loginAs(rt *rapid.T, w *hlsim.World, remote, login, pw, name string) *hlsim.Conn {
	c := w.Connect(remote)
	if r := c.Login(hlsim.LoginOpts{Login: login, Password: pw, Name: []byte(name), Icon: 1}); r == nil {
		rt.Fatalf("harness: login of %q from %s failed (bytes received: %x)", login, remote, c.Bytes())
	}
	return c
}

func tranSummary(ts []hlref.Tran) string {
	s := ""
	for _, t := range ts {
		s += fmt.Sprintf("[type=%d reply=%d id=%d err=%d fields=%d]", t.Type, t.IsReply, t.ID, t.Err, len(t.Fields))
	}
	return s
}

func writeFile(dir, name string, data []byte) error {
	return os.WriteFile(dir+"/"+name, data, 0o644)
}

// ownRoot gives the account its own file root (the per-account FileRoot option) and restarts the
// server so that it is loaded; it must be called before any connection is made.  The returned
// directory is empty; the server-wide root stays what it was.
func ownRoot(rt *rapid.T, w *hlsim.World, a hlsim.AccountSpec) string {
	root := filepath.Join(w.Cfg, "ownroot-"+a.Login)
	must(os.MkdirAll(root, 0o755))
	a.FileRoot = hlsim.SpellRoot(root, w.RootSpelling())
	must(os.WriteFile(filepath.Join(w.UsersDir, a.Login+".yaml"), hlsim.AccountYAML(a), 0o644))
	if err := w.Restart(); err != nil {
		rt.Fatalf("harness: restart with a per-account file root: %v", err)
	}
	return root
}
