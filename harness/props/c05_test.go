package props

// C05 — every privileged effect requires the governing privilege.
// The table below (request x target kind -> governing privilege numbers) is written from
// the protocol's privilege list, independently of mobius's handler code.

import (
	"bytes"
	"flag"
	"fmt"
	"os"
	"path/filepath"
	"strconv"
	"strings"
	"testing"
	"time"

	"pgregory.net/rapid"

	"verif/harness/evid"
	"verif/harness/hlref"
	"verif/harness/hlsim"
)

type c05ctx struct {
	rt                       *rapid.T
	w                        *hlsim.World
	req, admin, obs, victim  *hlsim.Conn
	reqID, adminID, victimID int
	chatID                   []byte
	bits                     hlref.Access
}

type c05cell struct {
	name    string
	effects [][]int // per effect: privilege numbers all of which are required (empty = ungoverned)
	name26  bool    // display-name cell: without the privilege the name is simply not adopted (no error)
	noReply bool    // the request has no reply when it succeeds
	anyOf   []int   // effect 0 is governed by "at least one of these" (targets whose kind the protocol does not pin down)
	mayFail bool    // with every governing privilege held the request may still be refused (e.g. a target that cannot be resolved)
	reveal  bool    // only "the effect is not observed without the privilege" is claimed (a request whose odd form the server may read either way)
	run     func(x *c05ctx) (*hlref.Tran, []bool)
}

func p1(items ...string) []byte {
	bs := make([][]byte, len(items))
	for i, s := range items {
		bs[i] = []byte(s)
	}
	return hlref.EncodePath(bs)
}

func exists(parts ...string) bool {
	_, err := os.Lstat(filepath.Join(parts...))
	return err == nil
}

func fileHas(path, needle string) bool {
	b, err := os.ReadFile(path)
	return err == nil && bytes.Contains(b, []byte(needle))
}

func okReply(r *hlref.Tran) bool { return r != nil && r.Err == 0 }

func hasType(ts []hlref.Tran, typ int) bool {
	for _, t := range ts {
		if t.Type == typ && t.IsReply == 0 {
			return true
		}
	}
	return false
}

func fld(id int, d []byte) hlref.Field  { return hlref.F(id, d) }
func sfld(id int, s string) hlref.Field { return hlref.F(id, []byte(s)) }

func (x *c05ctx) nameOf(id int) string {
	us, err := x.admin.UserList()
	if err != nil {
		x.rt.Fatalf("harness: user list: %v", err)
	}
	for _, u := range us {
		if u.ID == id {
			return string(u.Name)
		}
	}
	return "<absent>"
}

var zeroAccess = make([]byte, 8)

func uploadCell(name string, need []int, path []byte) c05cell {
	return c05cell{name: name, effects: [][]int{need}, run: func(x *c05ctx) (*hlref.Tran, []bool) {
		fs := []hlref.Field{sfld(hlref.FFileName, "up.bin"), fld(hlref.FTransferSize, hlref.BE32(100))}
		if path != nil {
			fs = append(fs, fld(hlref.FFilePath, path))
		}
		r := x.req.Request(hlref.TranUploadFile, fs...)
		_, ref := r.Get(hlref.FRefNum)
		return r, []bool{okReply(r) && ref}
	}}
}

func uploadFolderCell(name string, need []int, path []byte) c05cell {
	return c05cell{name: name, effects: [][]int{need}, run: func(x *c05ctx) (*hlref.Tran, []bool) {
		fs := []hlref.Field{sfld(hlref.FFileName, "upf"), fld(hlref.FTransferSize, hlref.BE32(100)), fld(hlref.FFolderItemCount, hlref.BE16(1))}
		if path != nil {
			fs = append(fs, fld(hlref.FFilePath, path))
		}
		r := x.req.Request(hlref.TranUploadFldr, fs...)
		_, ref := r.Get(hlref.FRefNum)
		return r, []bool{okReply(r) && ref}
	}}
}

func replyCell(name string, need []int, typ int, want int, fields func(x *c05ctx) []hlref.Field) c05cell {
	return c05cell{name: name, effects: [][]int{need}, run: func(x *c05ctx) (*hlref.Tran, []bool) {
		var fs []hlref.Field
		if fields != nil {
			fs = fields(x)
		}
		r := x.req.Request(typ, fs...)
		ok := okReply(r)
		if ok && want != 0 {
			_, ok = r.Get(want)
		}
		return r, []bool{ok}
	}}
}

func diskCell(name string, need []int, typ int, fields func(x *c05ctx) []hlref.Field, effect func(x *c05ctx) bool) c05cell {
	return c05cell{name: name, effects: [][]int{need}, run: func(x *c05ctx) (*hlref.Tran, []bool) {
		r := x.req.Request(typ, fields(x)...)
		return r, []bool{effect(x)}
	}}
}

func newsChanged(x *c05ctx, needle string) bool {
	return fileHas(filepath.Join(x.w.Cfg, "ThreadedNews.yaml"), needle)
}

var c05cells = []c05cell{
	{name: "chat-send", effects: [][]int{{hlref.PrivSendChat}}, noReply: true, run: func(x *c05ctx) (*hlref.Tran, []bool) {
		r := x.req.Request(hlref.TranChatSend, sfld(hlref.FData, "hi all"))
		return r, []bool{hasType(x.admin.TakeInbox(), hlref.TranChatMsg)}
	}},
	{name: "chat-send:private", effects: [][]int{{hlref.PrivSendChat}}, noReply: true, run: func(x *c05ctx) (*hlref.Tran, []bool) {
		r := x.req.Request(hlref.TranChatSend, sfld(hlref.FData, "psst, privately"), fld(hlref.FChatID, x.chatID))
		got := false
		for _, t := range x.admin.TakeInbox() {
			if id, _ := t.Get(hlref.FChatID); t.Type == hlref.TranChatMsg && string(id) == string(x.chatID) {
				got = true
			}
		}
		return r, []bool{got}
	}},
	{name: "chat-send:chat-id-0", effects: [][]int{{hlref.PrivSendChat}}, noReply: true, run: func(x *c05ctx) (*hlref.Tran, []bool) {
		r := x.req.Request(hlref.TranChatSend, sfld(hlref.FData, "hi"), fld(hlref.FChatID, []byte{0, 0, 0, 0}))
		return r, []bool{hasType(x.admin.TakeInbox(), hlref.TranChatMsg)}
	}},
	{name: "chat-send:emote", effects: [][]int{{hlref.PrivSendChat}}, noReply: true, run: func(x *c05ctx) (*hlref.Tran, []bool) {
		r := x.req.Request(hlref.TranChatSend, sfld(hlref.FData, "waves"), fld(hlref.FChatOptions, hlref.BE16(1)))
		return r, []bool{hasType(x.admin.TakeInbox(), hlref.TranChatMsg)}
	}},
	{name: "send-instant-msg", effects: [][]int{{hlref.PrivSendPrivMsg}}, run: func(x *c05ctx) (*hlref.Tran, []bool) {
		r := x.req.Request(hlref.TranSendInstantMsg, fld(hlref.FUserID, hlref.BE16(x.adminID)), sfld(hlref.FData, "psst"), fld(hlref.FOptions, hlref.BE16(1)))
		return r, []bool{hasType(x.admin.TakeInbox(), hlref.TranServerMsg)}
	}},
	replyCell("get-file-info", nil, hlref.TranGetFileInfo, hlref.FFileName, func(x *c05ctx) []hlref.Field { return []hlref.Field{sfld(hlref.FFileName, "f.txt")} }),
	diskCell("set-comment:file", []int{hlref.PrivSetFileComment}, hlref.TranSetFileInfo,
		func(x *c05ctx) []hlref.Field {
			return []hlref.Field{sfld(hlref.FFileName, "f.txt"), sfld(hlref.FFileComment, "cmt")}
		},
		func(x *c05ctx) bool { return fileHas(filepath.Join(x.w.FileRoot, ".info_f.txt"), "cmt") }),
	diskCell("set-comment:folder", []int{hlref.PrivSetFolderComment}, hlref.TranSetFileInfo,
		func(x *c05ctx) []hlref.Field {
			return []hlref.Field{sfld(hlref.FFileName, "dir"), sfld(hlref.FFileComment, "cmt")}
		},
		func(x *c05ctx) bool { return fileHas(filepath.Join(x.w.FileRoot, ".info_dir"), "cmt") }),
	// the kind of the target is what the file system says, not what a side file left by an earlier entry of that name
	// (a commented folder renamed away, a file uploaded under the old name) or sent by an uploader claims
	diskCell("set-comment:file-with-folder-sidecar", []int{hlref.PrivSetFileComment}, hlref.TranSetFileInfo,
		func(x *c05ctx) []hlref.Field {
			return []hlref.Field{sfld(hlref.FFileName, "odd.txt"), sfld(hlref.FFileComment, "cmt")}
		},
		func(x *c05ctx) bool { return fileHas(filepath.Join(x.w.FileRoot, ".info_odd.txt"), "cmt") }),
	diskCell("rename:file-with-folder-sidecar", []int{hlref.PrivRenameFile}, hlref.TranSetFileInfo,
		func(x *c05ctx) []hlref.Field {
			return []hlref.Field{sfld(hlref.FFileName, "odd.txt"), sfld(hlref.FFileNewName, "odd2.txt")}
		},
		func(x *c05ctx) bool { return exists(x.w.FileRoot, "odd2.txt") && !exists(x.w.FileRoot, "odd.txt") }),
	diskCell("set-comment:folder-with-file-sidecar", []int{hlref.PrivSetFolderComment}, hlref.TranSetFileInfo,
		func(x *c05ctx) []hlref.Field {
			return []hlref.Field{sfld(hlref.FFileName, "odd dir"), sfld(hlref.FFileComment, "cmt")}
		},
		func(x *c05ctx) bool { return fileHas(filepath.Join(x.w.FileRoot, ".info_odd dir"), "cmt") }),
	diskCell("rename:folder-with-file-sidecar", []int{hlref.PrivRenameFolder}, hlref.TranSetFileInfo,
		func(x *c05ctx) []hlref.Field {
			return []hlref.Field{sfld(hlref.FFileName, "odd dir"), sfld(hlref.FFileNewName, "odd dir 2")}
		},
		func(x *c05ctx) bool { return exists(x.w.FileRoot, "odd dir 2") && !exists(x.w.FileRoot, "odd dir") }),
	diskCell("rename:file", []int{hlref.PrivRenameFile}, hlref.TranSetFileInfo,
		func(x *c05ctx) []hlref.Field {
			return []hlref.Field{sfld(hlref.FFileName, "f.txt"), sfld(hlref.FFileNewName, "g.txt")}
		},
		func(x *c05ctx) bool { return exists(x.w.FileRoot, "g.txt") && !exists(x.w.FileRoot, "f.txt") }),
	diskCell("rename:folder", []int{hlref.PrivRenameFolder}, hlref.TranSetFileInfo,
		func(x *c05ctx) []hlref.Field {
			return []hlref.Field{sfld(hlref.FFileName, "dir"), sfld(hlref.FFileNewName, "dir2")}
		},
		func(x *c05ctx) bool { return exists(x.w.FileRoot, "dir2") && !exists(x.w.FileRoot, "dir") }),
	{name: "comment+rename:file", effects: [][]int{{hlref.PrivSetFileComment}, {hlref.PrivRenameFile}}, run: func(x *c05ctx) (*hlref.Tran, []bool) {
		r := x.req.Request(hlref.TranSetFileInfo, sfld(hlref.FFileName, "f.txt"), sfld(hlref.FFileComment, "cmt"), sfld(hlref.FFileNewName, "g.txt"))
		commented := fileHas(filepath.Join(x.w.FileRoot, ".info_f.txt"), "cmt") || fileHas(filepath.Join(x.w.FileRoot, ".info_g.txt"), "cmt")
		return r, []bool{commented, exists(x.w.FileRoot, "g.txt") && !exists(x.w.FileRoot, "f.txt")}
	}},
	{name: "comment+rename:folder", effects: [][]int{{hlref.PrivSetFolderComment}, {hlref.PrivRenameFolder}}, run: func(x *c05ctx) (*hlref.Tran, []bool) {
		r := x.req.Request(hlref.TranSetFileInfo, sfld(hlref.FFileName, "dir"), sfld(hlref.FFileComment, "cmt"), sfld(hlref.FFileNewName, "dir2"))
		commented := fileHas(filepath.Join(x.w.FileRoot, ".info_dir"), "cmt") || fileHas(filepath.Join(x.w.FileRoot, ".info_dir2"), "cmt")
		return r, []bool{commented, exists(x.w.FileRoot, "dir2") && !exists(x.w.FileRoot, "dir")}
	}},
	diskCell("delete:file", []int{hlref.PrivDeleteFile}, hlref.TranDeleteFile,
		func(x *c05ctx) []hlref.Field { return []hlref.Field{sfld(hlref.FFileName, "f.txt")} },
		func(x *c05ctx) bool { return !exists(x.w.FileRoot, "f.txt") }),
	diskCell("delete:folder", []int{hlref.PrivDeleteFolder}, hlref.TranDeleteFile,
		func(x *c05ctx) []hlref.Field { return []hlref.Field{sfld(hlref.FFileName, "dir")} },
		func(x *c05ctx) bool { return !exists(x.w.FileRoot, "dir") }),
	diskCell("delete:file-in-folder", []int{hlref.PrivDeleteFile}, hlref.TranDeleteFile,
		func(x *c05ctx) []hlref.Field {
			return []hlref.Field{sfld(hlref.FFileName, "inner.txt"), fld(hlref.FFilePath, p1("dir"))}
		},
		func(x *c05ctx) bool { return !exists(x.w.FileRoot, "dir", "inner.txt") }),
	{name: "delete:dangling-alias", effects: [][]int{nil}, anyOf: []int{hlref.PrivDeleteFile, hlref.PrivDeleteFolder}, mayFail: true, run: func(x *c05ctx) (*hlref.Tran, []bool) {
		r := x.req.Request(hlref.TranDeleteFile, sfld(hlref.FFileName, "stale alias"))
		_, err := os.Lstat(filepath.Join(x.w.FileRoot, "stale alias"))
		return r, []bool{err != nil}
	}},
	{name: "move:dangling-alias", effects: [][]int{nil}, anyOf: []int{hlref.PrivMoveFile, hlref.PrivMoveFolder}, mayFail: true, run: func(x *c05ctx) (*hlref.Tran, []bool) {
		r := x.req.Request(hlref.TranMoveFile, sfld(hlref.FFileName, "stale alias 2"), fld(hlref.FFilePath, p1("dir")), fld(hlref.FFileNewPath, p1("other")))
		_, err := os.Lstat(filepath.Join(x.w.FileRoot, "dir", "stale alias 2"))
		return r, []bool{err != nil}
	}},
	diskCell("move:file", []int{hlref.PrivMoveFile}, hlref.TranMoveFile,
		func(x *c05ctx) []hlref.Field {
			return []hlref.Field{sfld(hlref.FFileName, "f.txt"), fld(hlref.FFileNewPath, p1("other"))}
		},
		func(x *c05ctx) bool { return exists(x.w.FileRoot, "other", "f.txt") && !exists(x.w.FileRoot, "f.txt") }),
	diskCell("move:folder", []int{hlref.PrivMoveFolder}, hlref.TranMoveFile,
		func(x *c05ctx) []hlref.Field {
			return []hlref.Field{sfld(hlref.FFileName, "dir"), fld(hlref.FFileNewPath, p1("other"))}
		},
		func(x *c05ctx) bool { return exists(x.w.FileRoot, "other", "dir") && !exists(x.w.FileRoot, "dir") }),
	diskCell("new-folder", []int{hlref.PrivCreateFolder}, hlref.TranNewFolder,
		func(x *c05ctx) []hlref.Field { return []hlref.Field{sfld(hlref.FFileName, "nf")} },
		func(x *c05ctx) bool { return exists(x.w.FileRoot, "nf") }),
	diskCell("new-folder:nested", []int{hlref.PrivCreateFolder}, hlref.TranNewFolder,
		func(x *c05ctx) []hlref.Field {
			return []hlref.Field{sfld(hlref.FFileName, "nf"), fld(hlref.FFilePath, p1("dir"))}
		},
		func(x *c05ctx) bool { return exists(x.w.FileRoot, "dir", "nf") }),
	diskCell("make-alias", []int{hlref.PrivMakeAlias}, hlref.TranMakeFileAlias,
		func(x *c05ctx) []hlref.Field {
			return []hlref.Field{sfld(hlref.FFileName, "f.txt"), fld(hlref.FFileNewPath, p1("other"))}
		},
		func(x *c05ctx) bool { return exists(x.w.FileRoot, "other", "f.txt") }),
	replyCell("download-file", []int{hlref.PrivDownloadFile}, hlref.TranDownloadFile, hlref.FRefNum, func(x *c05ctx) []hlref.Field { return []hlref.Field{sfld(hlref.FFileName, "f.txt")} }),
	replyCell("download-file:in-dropbox", []int{hlref.PrivDownloadFile}, hlref.TranDownloadFile, hlref.FRefNum, func(x *c05ctx) []hlref.Field {
		return []hlref.Field{sfld(hlref.FFileName, "secret.txt"), fld(hlref.FFilePath, p1("Drop Box"))}
	}),
	replyCell("download-file:resume", []int{hlref.PrivDownloadFile}, hlref.TranDownloadFile, hlref.FRefNum, func(x *c05ctx) []hlref.Field {
		return []hlref.Field{sfld(hlref.FFileName, "f.txt"), fld(hlref.FFileResumeData, hlref.ResumeData(3))}
	}),
	replyCell("download-file:preview", []int{hlref.PrivDownloadFile}, hlref.TranDownloadFile, hlref.FRefNum, func(x *c05ctx) []hlref.Field {
		return []hlref.Field{sfld(hlref.FFileName, "f.txt"), fld(hlref.FFileTransferOptions, hlref.BE16(2))}
	}),
	replyCell("download-folder:nested", []int{hlref.PrivDownloadFolder}, hlref.TranDownloadFldr, hlref.FRefNum, func(x *c05ctx) []hlref.Field {
		return []hlref.Field{sfld(hlref.FFileName, "deep"), fld(hlref.FFilePath, p1("dir"))}
	}),
	replyCell("download-folder", []int{hlref.PrivDownloadFolder}, hlref.TranDownloadFldr, hlref.FRefNum, func(x *c05ctx) []hlref.Field { return []hlref.Field{sfld(hlref.FFileName, "dir")} }),
	uploadCell("upload-file:into-uploads", []int{hlref.PrivUploadFile}, p1("Uploads")),
	uploadCell("upload-file:into-dropbox", []int{hlref.PrivUploadFile}, p1("Drop Box")),
	uploadCell("upload-file:into-nested-uploads", []int{hlref.PrivUploadFile}, p1("dir", "Uploads")),
	// one path item that holds separators and "..": the folder the upload goes to is "other", whatever the item starts with
	uploadCell("upload-file:item-uploads-dotdot-other", []int{hlref.PrivUploadFile, hlref.PrivUploadAnywhere}, p1("Uploads/../other")),
	uploadCell("upload-file:items-dir-uploads-dotdot", []int{hlref.PrivUploadFile, hlref.PrivUploadAnywhere}, p1("dir", "Uploads/..")),
	uploadFolderCell("upload-folder:item-uploads-dotdot-other", []int{hlref.PrivUploadFolder, hlref.PrivUploadAnywhere}, p1("Uploads/../other")),
	// a folder upload into a path that does not exist but is named like an upload folder, carried out on the transfer
	// connection when it is granted: folders appear below "other" only for somebody who may create folders and upload anywhere
	{name: "upload-folder:into-missing-path-named-uploads", effects: [][]int{{hlref.PrivUploadFolder, hlref.PrivUploadAnywhere, hlref.PrivCreateFolder}}, reveal: true, run: func(x *c05ctx) (*hlref.Tran, []bool) {
		r := x.req.Request(hlref.TranUploadFldr, sfld(hlref.FFileName, "loot"), fld(hlref.FTransferSize, hlref.BE32(100)), fld(hlref.FFolderItemCount, hlref.BE16(1)), fld(hlref.FFilePath, p1("other", "New Uploads")))
		if ref, ok := r.Get(hlref.FRefNum); okReply(r) && ok {
			_, _ = x.w.FolderUpload("10.0.0.4:9", ref, []hlsim.UploadItem{{Path: [][]byte{[]byte("a.txt")}, Data: []byte("loot")}})
		}
		return r, []bool{exists(x.w.FileRoot, "other", "New Uploads")}
	}},
	// the drop box named with a trailing "." item: it is still the drop box
	replyCell("list-files:dropbox-dot", []int{hlref.PrivViewDropBoxes}, hlref.TranGetFileNameList, hlref.FFileNameWithInfo, func(x *c05ctx) []hlref.Field { return []hlref.Field{fld(hlref.FFilePath, p1("Drop Box", "."))} }),
	replyCell("list-files:dropbox-via-dotdot", []int{hlref.PrivViewDropBoxes}, hlref.TranGetFileNameList, hlref.FFileNameWithInfo, func(x *c05ctx) []hlref.Field { return []hlref.Field{fld(hlref.FFilePath, p1("Drop Box", "x", ".."))} }),
	uploadCell("upload-file:under-uploads", []int{hlref.PrivUploadFile, hlref.PrivUploadAnywhere}, p1("Uploads", "sub")),
	uploadCell("upload-file:elsewhere", []int{hlref.PrivUploadFile, hlref.PrivUploadAnywhere}, p1("other")),
	uploadCell("upload-file:root", []int{hlref.PrivUploadFile, hlref.PrivUploadAnywhere}, nil),
	// resuming somebody's partial upload is an upload like any other
	{name: "upload-file:resume-elsewhere", effects: [][]int{{hlref.PrivUploadFile, hlref.PrivUploadAnywhere}}, run: func(x *c05ctx) (*hlref.Tran, []bool) {
		r := x.req.Request(hlref.TranUploadFile, sfld(hlref.FFileName, "left.bin"), fld(hlref.FFilePath, p1("other")), fld(hlref.FFileTransferOptions, hlref.BE16(2)))
		_, ref := r.Get(hlref.FRefNum)
		return r, []bool{okReply(r) && ref}
	}},
	{name: "upload-file:resume-in-uploads", effects: [][]int{{hlref.PrivUploadFile}}, run: func(x *c05ctx) (*hlref.Tran, []bool) {
		r := x.req.Request(hlref.TranUploadFile, sfld(hlref.FFileName, "left.bin"), fld(hlref.FFilePath, p1("Uploads")), fld(hlref.FFileTransferOptions, hlref.BE16(2)))
		_, ref := r.Get(hlref.FRefNum)
		return r, []bool{okReply(r) && ref}
	}},
	// the name field may carry anything; the upload it governs happens where the path field says (the folder the
	// upload-anywhere rule looked at), so the file must land inside that upload folder
	{name: "upload-file:into-uploads:dotdot-name", effects: [][]int{{hlref.PrivUploadFile}}, run: func(x *c05ctx) (*hlref.Tran, []bool) {
		r := x.req.Request(hlref.TranUploadFile, sfld(hlref.FFileName, "../esc.bin"), fld(hlref.FFilePath, p1("Uploads")), fld(hlref.FTransferSize, hlref.BE32(300)))
		ref, ok := r.Get(hlref.FRefNum)
		if !okReply(r) || !ok {
			return r, []bool{false}
		}
		stream := hlsim.UploadStream([]byte("esc.bin"), nil, []byte("uploaded payload"), nil, 2)
		x.w.Transfer("10.0.0.77:2", ref, len(stream), stream, -1)
		return r, []bool{fileHas(filepath.Join(x.w.FileRoot, "Uploads", "esc.bin"), "uploaded payload")}
	}},
	{name: "upload-folder:into-uploads:dotdot-name", effects: [][]int{{hlref.PrivUploadFolder}}, run: func(x *c05ctx) (*hlref.Tran, []bool) {
		r := x.req.Request(hlref.TranUploadFldr, sfld(hlref.FFileName, "../escf"), fld(hlref.FFilePath, p1("Uploads")), fld(hlref.FTransferSize, hlref.BE32(300)), fld(hlref.FFolderItemCount, hlref.BE16(1)))
		ref, ok := r.Get(hlref.FRefNum)
		if !okReply(r) || !ok {
			return r, []bool{false}
		}
		x.w.FolderUpload("10.0.0.77:3", ref, []hlsim.UploadItem{{Path: [][]byte{[]byte("item.txt")}, Data: []byte("uploaded item")}})
		return r, []bool{fileHas(filepath.Join(x.w.FileRoot, "Uploads", "escf", "item.txt"), "uploaded item")}
	}},
	// rename is not move: a new name cannot take the entry to another folder
	diskCell("rename:folder:dotdot-name", []int{hlref.PrivRenameFolder}, hlref.TranSetFileInfo,
		func(x *c05ctx) []hlref.Field {
			return []hlref.Field{sfld(hlref.FFileName, "deep"), fld(hlref.FFilePath, p1("dir")), sfld(hlref.FFileNewName, "../deep2")}
		},
		func(x *c05ctx) bool {
			return exists(x.w.FileRoot, "dir", "deep2") && !exists(x.w.FileRoot, "dir", "deep")
		}),
	diskCell("rename:file:dotdot-name", []int{hlref.PrivRenameFile}, hlref.TranSetFileInfo,
		func(x *c05ctx) []hlref.Field {
			return []hlref.Field{sfld(hlref.FFileName, "inner.txt"), fld(hlref.FFilePath, p1("dir")), sfld(hlref.FFileNewName, "../inner2.txt")}
		},
		func(x *c05ctx) bool {
			return exists(x.w.FileRoot, "dir", "inner2.txt") && !exists(x.w.FileRoot, "dir", "inner.txt")
		}),
	uploadFolderCell("upload-folder:into-uploads", []int{hlref.PrivUploadFolder}, p1("Uploads")),
	uploadFolderCell("upload-folder:into-dropbox", []int{hlref.PrivUploadFolder}, p1("Drop Box")),
	uploadFolderCell("upload-folder:elsewhere", []int{hlref.PrivUploadFolder, hlref.PrivUploadAnywhere}, p1("other")),
	uploadFolderCell("upload-folder:root", []int{hlref.PrivUploadFolder, hlref.PrivUploadAnywhere}, nil),
	replyCell("list-files:dropbox", []int{hlref.PrivViewDropBoxes}, hlref.TranGetFileNameList, hlref.FFileNameWithInfo, func(x *c05ctx) []hlref.Field { return []hlref.Field{fld(hlref.FFilePath, p1("Drop Box"))} }),
	// a list request that names the drop box in a file-name field (which the request type does not have): whichever
	// folder the server takes it to mean, the drop box's content is shown only to those who may see drop boxes
	{name: "list-files:dropbox-in-name-field", effects: [][]int{{hlref.PrivViewDropBoxes}}, reveal: true, run: func(x *c05ctx) (*hlref.Tran, []bool) {
		r := x.req.Request(hlref.TranGetFileNameList, sfld(hlref.FFileName, "Drop Box"))
		seen := false
		if r != nil {
			for _, d := range r.GetAll(hlref.FFileNameWithInfo) {
				seen = seen || bytes.Contains(d, []byte("secret.txt"))
			}
		}
		return r, []bool{seen}
	}},
	{name: "list-files:nested-dropbox-in-name-field", effects: [][]int{{hlref.PrivViewDropBoxes}}, reveal: true, run: func(x *c05ctx) (*hlref.Tran, []bool) {
		r := x.req.Request(hlref.TranGetFileNameList, fld(hlref.FFilePath, p1("dir")), sfld(hlref.FFileName, "Drop Box"))
		seen := false
		if r != nil {
			for _, d := range r.GetAll(hlref.FFileNameWithInfo) {
				seen = seen || bytes.Contains(d, []byte("hidden.txt"))
			}
		}
		return r, []bool{seen}
	}},
	replyCell("list-files:nested-dropbox", []int{hlref.PrivViewDropBoxes}, hlref.TranGetFileNameList, hlref.FFileNameWithInfo, func(x *c05ctx) []hlref.Field { return []hlref.Field{fld(hlref.FFilePath, p1("dir", "Drop Box"))} }),
	replyCell("list-files:root", nil, hlref.TranGetFileNameList, hlref.FFileNameWithInfo, nil),
	replyCell("list-files:folder", nil, hlref.TranGetFileNameList, hlref.FFileNameWithInfo, func(x *c05ctx) []hlref.Field { return []hlref.Field{fld(hlref.FFilePath, p1("dir"))} }),
	replyCell("get-user-name-list", nil, hlref.TranGetUserNameList, hlref.FUsernameWithInfo, nil),
	replyCell("get-client-info", []int{hlref.PrivGetClientInfo}, hlref.TranGetClientInfoText, hlref.FData, func(x *c05ctx) []hlref.Field { return []hlref.Field{fld(hlref.FUserID, hlref.BE16(x.adminID))} }),
	{name: "set-client-user-info:name", effects: [][]int{{hlref.PrivAnyName}}, name26: true, noReply: true, run: func(x *c05ctx) (*hlref.Tran, []bool) {
		r := x.req.Request(hlref.TranSetClientUserInfo, sfld(hlref.FUserName, "renamed"), fld(hlref.FUserIconID, hlref.BE16(5)))
		return r, []bool{x.nameOf(x.reqID) == "renamed"}
	}},
	{name: "login:name", effects: [][]int{{hlref.PrivAnyName}}, name26: true, run: func(x *c05ctx) (*hlref.Tran, []bool) {
		c := x.w.Connect("10.0.7.7:7")
		r := c.Login(hlsim.LoginOpts{Login: "req", Password: "reqpw", Name: []byte("chosen"), Icon: 1})
		us, _ := x.admin.UserList()
		got := ""
		for _, u := range us {
			if u.ID > x.reqID {
				got = string(u.Name)
			}
		}
		return r, []bool{got == "chosen"}
	}},
	{name: "login:name:account-without-name", effects: [][]int{{hlref.PrivAnyName}}, name26: true, run: func(x *c05ctx) (*hlref.Tran, []bool) {
		// the account record has no name: that is no reason to adopt the name the client asks for
		c := x.w.Connect("10.0.7.8:7")
		r := c.Login(hlsim.LoginOpts{Login: "nn", Password: "nnpw", Name: []byte("chosen"), Icon: 1})
		us, _ := x.admin.UserList()
		got := ""
		for _, u := range us {
			if u.ID > x.reqID {
				got = string(u.Name)
			}
		}
		return r, []bool{got == "chosen"}
	}},
	{name: "agreed:name", effects: [][]int{{hlref.PrivAnyName}}, name26: true, run: func(x *c05ctx) (*hlref.Tran, []bool) {
		c := x.w.Connect("10.0.7.8:7")
		if c.Login(hlsim.LoginOpts{Login: "req", Password: "reqpw", Version: hlref.BE16(190)}) == nil {
			x.rt.Fatalf("harness: 1.5 login failed")
		}
		r := c.Agreed([]byte("chosen"), 3, 0, nil)
		us, _ := x.admin.UserList()
		got := ""
		for _, u := range us {
			if u.ID > x.reqID {
				got = string(u.Name)
			}
		}
		return r, []bool{got == "chosen"}
	}},
	replyCell("list-users", []int{hlref.PrivOpenUser}, hlref.TranListUsers, hlref.FData, nil),
	replyCell("get-user", []int{hlref.PrivOpenUser}, hlref.TranGetUser, hlref.FUserAccess, func(x *c05ctx) []hlref.Field { return []hlref.Field{sfld(hlref.FUserLogin, "spare")} }),
	diskCell("new-user", []int{hlref.PrivCreateUser}, hlref.TranNewUser,
		func(x *c05ctx) []hlref.Field {
			return []hlref.Field{fld(hlref.FUserLogin, hlref.Obfuscate([]byte("nu"))), sfld(hlref.FUserName, "Nu"), fld(hlref.FUserPassword, hlref.Obfuscate([]byte("p"))), fld(hlref.FUserAccess, zeroAccess)}
		},
		func(x *c05ctx) bool { return exists(x.w.UsersDir, "nu.yaml") }),
	diskCell("delete-user", []int{hlref.PrivDeleteUser}, hlref.TranDeleteUser,
		func(x *c05ctx) []hlref.Field {
			return []hlref.Field{fld(hlref.FUserLogin, hlref.Obfuscate([]byte("spare")))}
		},
		func(x *c05ctx) bool { return !exists(x.w.UsersDir, "spare.yaml") }),
	diskCell("set-user", []int{hlref.PrivModifyUser}, hlref.TranSetUser,
		func(x *c05ctx) []hlref.Field {
			return []hlref.Field{fld(hlref.FUserLogin, hlref.Obfuscate([]byte("spare"))), sfld(hlref.FUserName, "ChangedName"), fld(hlref.FUserAccess, zeroAccess), fld(hlref.FUserPassword, []byte{0})}
		},
		func(x *c05ctx) bool { return fileHas(filepath.Join(x.w.UsersDir, "spare.yaml"), "ChangedName") }),
	diskCell("update-user:create", []int{hlref.PrivCreateUser}, hlref.TranUpdateUser,
		func(x *c05ctx) []hlref.Field {
			return []hlref.Field{fld(hlref.FData, subFields(fld(hlref.FUserLogin, hlref.Obfuscate([]byte("nu2"))), sfld(hlref.FUserName, "Nu2"), fld(hlref.FUserPassword, hlref.Obfuscate([]byte("p"))), fld(hlref.FUserAccess, zeroAccess)))}
		},
		func(x *c05ctx) bool { return exists(x.w.UsersDir, "nu2.yaml") }),
	diskCell("update-user:modify", []int{hlref.PrivModifyUser}, hlref.TranUpdateUser,
		func(x *c05ctx) []hlref.Field {
			return []hlref.Field{fld(hlref.FData, subFields(fld(hlref.FUserLogin, hlref.Obfuscate([]byte("spare"))), sfld(hlref.FUserName, "ChangedName"), fld(hlref.FUserPassword, []byte{0}), fld(hlref.FUserAccess, zeroAccess)))}
		},
		func(x *c05ctx) bool { return fileHas(filepath.Join(x.w.UsersDir, "spare.yaml"), "ChangedName") }),
	diskCell("update-user:rename", []int{hlref.PrivModifyUser}, hlref.TranUpdateUser,
		func(x *c05ctx) []hlref.Field {
			return []hlref.Field{fld(hlref.FData, subFields(fld(hlref.FData, hlref.Obfuscate([]byte("spare"))), fld(hlref.FUserLogin, hlref.Obfuscate([]byte("spare2"))), sfld(hlref.FUserName, "Spare"), fld(hlref.FUserPassword, []byte{0}), fld(hlref.FUserAccess, zeroAccess)))}
		},
		func(x *c05ctx) bool {
			return exists(x.w.UsersDir, "spare2.yaml") && !exists(x.w.UsersDir, "spare.yaml")
		}),
	diskCell("update-user:delete", []int{hlref.PrivDeleteUser}, hlref.TranUpdateUser,
		func(x *c05ctx) []hlref.Field {
			return []hlref.Field{fld(hlref.FData, subFields(fld(hlref.FData, hlref.Obfuscate([]byte("spare")))))}
		},
		func(x *c05ctx) bool { return !exists(x.w.UsersDir, "spare.yaml") }),
	// batches: every entry of a batched update-user request is governed by the privilege of its own kind
	{name: "update-user:batch-modify-then-create", effects: [][]int{{hlref.PrivModifyUser}, {hlref.PrivCreateUser}}, run: func(x *c05ctx) (*hlref.Tran, []bool) {
		r := x.req.Request(hlref.TranUpdateUser,
			fld(hlref.FData, subFields(fld(hlref.FData, hlref.Obfuscate([]byte("spare"))), fld(hlref.FUserLogin, hlref.Obfuscate([]byte("spare"))), sfld(hlref.FUserName, "ChangedName"), fld(hlref.FUserPassword, []byte{0}), fld(hlref.FUserAccess, zeroAccess))),
			fld(hlref.FData, subFields(fld(hlref.FUserLogin, hlref.Obfuscate([]byte("nu3"))), sfld(hlref.FUserName, "Nu3"), fld(hlref.FUserPassword, hlref.Obfuscate([]byte("p"))), fld(hlref.FUserAccess, zeroAccess))))
		return r, []bool{fileHas(filepath.Join(x.w.UsersDir, "spare.yaml"), "ChangedName"), exists(x.w.UsersDir, "nu3.yaml")}
	}},
	{name: "update-user:batch-rename-then-create", effects: [][]int{{hlref.PrivModifyUser}, {hlref.PrivCreateUser}}, run: func(x *c05ctx) (*hlref.Tran, []bool) {
		r := x.req.Request(hlref.TranUpdateUser,
			fld(hlref.FData, subFields(fld(hlref.FData, hlref.Obfuscate([]byte("spare"))), fld(hlref.FUserLogin, hlref.Obfuscate([]byte("spare3"))), sfld(hlref.FUserName, "Spare"), fld(hlref.FUserPassword, []byte{0}), fld(hlref.FUserAccess, zeroAccess))),
			fld(hlref.FData, subFields(fld(hlref.FUserLogin, hlref.Obfuscate([]byte("nu4"))), sfld(hlref.FUserName, "Nu4"), fld(hlref.FUserPassword, hlref.Obfuscate([]byte("p"))), fld(hlref.FUserAccess, zeroAccess))))
		return r, []bool{exists(x.w.UsersDir, "spare3.yaml"), exists(x.w.UsersDir, "nu4.yaml")}
	}},
	{name: "update-user:batch-create-then-delete", effects: [][]int{{hlref.PrivCreateUser}, {hlref.PrivDeleteUser}}, run: func(x *c05ctx) (*hlref.Tran, []bool) {
		r := x.req.Request(hlref.TranUpdateUser,
			fld(hlref.FData, subFields(fld(hlref.FUserLogin, hlref.Obfuscate([]byte("nu5"))), sfld(hlref.FUserName, "Nu5"), fld(hlref.FUserPassword, hlref.Obfuscate([]byte("p"))), fld(hlref.FUserAccess, zeroAccess))),
			fld(hlref.FData, subFields(fld(hlref.FData, hlref.Obfuscate([]byte("spare"))))))
		return r, []bool{exists(x.w.UsersDir, "nu5.yaml"), !exists(x.w.UsersDir, "spare.yaml")}
	}},
	{name: "broadcast", effects: [][]int{{hlref.PrivBroadcast}}, run: func(x *c05ctx) (*hlref.Tran, []bool) {
		r := x.req.Request(hlref.TranUserBroadcast, sfld(hlref.FData, "attention"))
		return r, []bool{hasType(x.admin.TakeInbox(), hlref.TranServerMsg)}
	}},
	{name: "disconnect-user", effects: [][]int{{hlref.PrivDisconUser}}, run: func(x *c05ctx) (*hlref.Tran, []bool) {
		r := x.req.Request(hlref.TranDisconnectUser, fld(hlref.FUserID, hlref.BE16(x.victimID)))
		settle(2 * time.Second)
		return r, []bool{x.victim.EOF()}
	}},
	{name: "disconnect-user:ban", effects: [][]int{{hlref.PrivDisconUser}}, run: func(x *c05ctx) (*hlref.Tran, []bool) {
		r := x.req.Request(hlref.TranDisconnectUser, fld(hlref.FUserID, hlref.BE16(x.victimID)), fld(hlref.FOptions, hlref.BE16(2)))
		settle(2 * time.Second)
		return r, []bool{x.victim.EOF() && fileHas(filepath.Join(x.w.Cfg, "Banlist.yaml"), "10.0.0.3")}
	}},
	replyCell("get-msgs", []int{hlref.PrivNewsReadArt}, hlref.TranGetMsgs, hlref.FData, nil),
	diskCell("post-board", []int{hlref.PrivNewsPostArt}, hlref.TranOldPostNews,
		func(x *c05ctx) []hlref.Field { return []hlref.Field{sfld(hlref.FData, "fresh-post")} },
		func(x *c05ctx) bool { return fileHas(filepath.Join(x.w.Cfg, "MessageBoard.txt"), "fresh-post") }),
	replyCell("news-categories", []int{hlref.PrivNewsReadArt}, hlref.TranGetNewsCatNameList, hlref.FNewsCatListData15, nil),
	replyCell("news-article-list", []int{hlref.PrivNewsReadArt}, hlref.TranGetNewsArtNameList, hlref.FNewsArtListData, func(x *c05ctx) []hlref.Field { return []hlref.Field{fld(hlref.FNewsPath, p1("Cat"))} }),
	replyCell("news-article-data", []int{hlref.PrivNewsReadArt}, hlref.TranGetNewsArtData, hlref.FNewsArtData, func(x *c05ctx) []hlref.Field {
		return []hlref.Field{fld(hlref.FNewsPath, p1("Cat")), fld(hlref.FNewsArtID, hlref.BE32(1)), sfld(hlref.FNewsArtDataFlav, "text/plain")}
	}),
	diskCell("news-post", []int{hlref.PrivNewsPostArt}, hlref.TranPostNewsArt,
		func(x *c05ctx) []hlref.Field {
			return []hlref.Field{fld(hlref.FNewsPath, p1("Cat")), fld(hlref.FNewsArtID, hlref.BE32(0)), sfld(hlref.FNewsArtTitle, "fresh-title"), sfld(hlref.FNewsArtDataFlav, "text/plain"), sfld(hlref.FNewsArtData, "body")}
		},
		func(x *c05ctx) bool { return newsChanged(x, "fresh-title") }),
	diskCell("news-delete-article", []int{hlref.PrivNewsDeleteArt}, hlref.TranDelNewsArt,
		func(x *c05ctx) []hlref.Field {
			return []hlref.Field{fld(hlref.FNewsPath, p1("Cat")), fld(hlref.FNewsArtID, hlref.BE32(1))}
		},
		func(x *c05ctx) bool { return !newsChanged(x, "seed-article") }),
	diskCell("news-new-category", []int{hlref.PrivNewsCreateCat}, hlref.TranNewNewsCat,
		func(x *c05ctx) []hlref.Field { return []hlref.Field{sfld(hlref.FNewsCatName, "FreshCat")} },
		func(x *c05ctx) bool { return newsChanged(x, "FreshCat") }),
	diskCell("news-new-bundle", []int{hlref.PrivNewsCreateFldr}, hlref.TranNewNewsFldr,
		func(x *c05ctx) []hlref.Field { return []hlref.Field{sfld(hlref.FFileName, "FreshBundle")} },
		func(x *c05ctx) bool { return newsChanged(x, "FreshBundle") }),
	diskCell("news-delete:category", []int{hlref.PrivNewsDeleteCat}, hlref.TranDelNewsItem,
		func(x *c05ctx) []hlref.Field { return []hlref.Field{fld(hlref.FNewsPath, p1("Cat"))} },
		func(x *c05ctx) bool { return !newsChanged(x, "seed-article") }),
	diskCell("news-delete:nested-category", []int{hlref.PrivNewsDeleteCat}, hlref.TranDelNewsItem,
		func(x *c05ctx) []hlref.Field { return []hlref.Field{fld(hlref.FNewsPath, p1("Bun", "Inner"))} },
		func(x *c05ctx) bool { return !newsChanged(x, "Inner") }),
	diskCell("news-delete:bundle", []int{hlref.PrivNewsDeleteFldr}, hlref.TranDelNewsItem,
		func(x *c05ctx) []hlref.Field { return []hlref.Field{fld(hlref.FNewsPath, p1("Bun"))} },
		func(x *c05ctx) bool { return !newsChanged(x, "Bun") }),
	diskCell("news-delete:category-depth3", []int{hlref.PrivNewsDeleteCat}, hlref.TranDelNewsItem,
		func(x *c05ctx) []hlref.Field {
			return []hlref.Field{fld(hlref.FNewsPath, p1("Bun", "Deep", "DeepCat"))}
		},
		func(x *c05ctx) bool { return !newsChanged(x, "DeepCat") }),
	diskCell("news-delete:bundle-depth3", []int{hlref.PrivNewsDeleteFldr}, hlref.TranDelNewsItem,
		func(x *c05ctx) []hlref.Field {
			return []hlref.Field{fld(hlref.FNewsPath, p1("Bun", "Deep", "DeepBun"))}
		},
		func(x *c05ctx) bool { return !newsChanged(x, "DeepBun") }),
	diskCell("news-delete:category-depth4", []int{hlref.PrivNewsDeleteCat}, hlref.TranDelNewsItem,
		func(x *c05ctx) []hlref.Field {
			return []hlref.Field{fld(hlref.FNewsPath, p1("Bun", "Deep", "DeepBun", "Cat4"))}
		},
		func(x *c05ctx) bool { return !newsChanged(x, "Cat4") }),
	diskCell("news-delete:bundle-depth2", []int{hlref.PrivNewsDeleteFldr}, hlref.TranDelNewsItem,
		func(x *c05ctx) []hlref.Field { return []hlref.Field{fld(hlref.FNewsPath, p1("Bun", "Deep"))} },
		func(x *c05ctx) bool { return !newsChanged(x, "Deep") }),
	diskCell("news-new-category:depth3", []int{hlref.PrivNewsCreateCat}, hlref.TranNewNewsCat,
		func(x *c05ctx) []hlref.Field {
			return []hlref.Field{sfld(hlref.FNewsCatName, "FreshDeepCat"), fld(hlref.FNewsPath, p1("Bun", "Deep"))}
		},
		func(x *c05ctx) bool { return newsChanged(x, "FreshDeepCat") }),
	diskCell("news-new-bundle:depth3", []int{hlref.PrivNewsCreateFldr}, hlref.TranNewNewsFldr,
		func(x *c05ctx) []hlref.Field {
			return []hlref.Field{sfld(hlref.FFileName, "FreshDeepBundle"), fld(hlref.FNewsPath, p1("Bun", "Deep"))}
		},
		func(x *c05ctx) bool { return newsChanged(x, "FreshDeepBundle") }),
	diskCell("news-post:depth3", []int{hlref.PrivNewsPostArt}, hlref.TranPostNewsArt,
		func(x *c05ctx) []hlref.Field {
			return []hlref.Field{fld(hlref.FNewsPath, p1("Bun", "Deep", "DeepCat")), fld(hlref.FNewsArtID, hlref.BE32(0)), sfld(hlref.FNewsArtTitle, "fresh-deep-title"), sfld(hlref.FNewsArtDataFlav, "text/plain"), sfld(hlref.FNewsArtData, "body")}
		},
		func(x *c05ctx) bool { return newsChanged(x, "fresh-deep-title") }),
	diskCell("news-delete-article:depth3", []int{hlref.PrivNewsDeleteArt}, hlref.TranDelNewsArt,
		func(x *c05ctx) []hlref.Field {
			return []hlref.Field{fld(hlref.FNewsPath, p1("Bun", "Deep", "DeepCat")), fld(hlref.FNewsArtID, hlref.BE32(1))}
		},
		func(x *c05ctx) bool { return !newsChanged(x, "deep-article") }),
	replyCell("news-article-data:depth3", []int{hlref.PrivNewsReadArt}, hlref.TranGetNewsArtData, hlref.FNewsArtData, func(x *c05ctx) []hlref.Field {
		return []hlref.Field{fld(hlref.FNewsPath, p1("Bun", "Deep", "DeepCat")), fld(hlref.FNewsArtID, hlref.BE32(1)), sfld(hlref.FNewsArtDataFlav, "text/plain")}
	}),
	{name: "invite-new-chat", effects: [][]int{{hlref.PrivOpenChat}}, run: func(x *c05ctx) (*hlref.Tran, []bool) {
		r := x.req.Request(hlref.TranInviteNewChat, fld(hlref.FUserID, hlref.BE16(x.adminID)))
		return r, []bool{hasType(x.admin.TakeInbox(), hlref.TranInviteToChat)}
	}},
	{name: "invite-to-chat", effects: [][]int{{hlref.PrivOpenChat}}, run: func(x *c05ctx) (*hlref.Tran, []bool) {
		r := x.req.Request(hlref.TranInviteToChat, fld(hlref.FUserID, hlref.BE16(x.adminID)), fld(hlref.FChatID, x.chatID))
		return r, []bool{hasType(x.admin.TakeInbox(), hlref.TranInviteToChat)}
	}},
	replyCell("join-chat", nil, hlref.TranJoinChat, hlref.FChatSubject, func(x *c05ctx) []hlref.Field { return []hlref.Field{fld(hlref.FChatID, x.chatID)} }),
	{name: "leave-chat", effects: [][]int{nil}, noReply: true, run: func(x *c05ctx) (*hlref.Tran, []bool) {
		r := x.req.Request(hlref.TranLeaveChat, fld(hlref.FChatID, x.chatID))
		return r, []bool{r == nil || r.Err == 0}
	}},
	{name: "set-chat-subject", effects: [][]int{nil}, noReply: true, run: func(x *c05ctx) (*hlref.Tran, []bool) {
		r := x.req.Request(hlref.TranSetChatSubject, fld(hlref.FChatID, x.chatID), sfld(hlref.FChatSubject, "subj"))
		return r, []bool{hasType(x.admin.TakeInbox(), hlref.TranNotifyChatSubject)}
	}},
	{name: "reject-chat-invite", effects: [][]int{nil}, noReply: true, run: func(x *c05ctx) (*hlref.Tran, []bool) {
		r := x.req.Request(hlref.TranRejectChatInvite, fld(hlref.FChatID, x.chatID))
		return r, []bool{hasType(x.admin.TakeInbox(), hlref.TranChatMsg)}
	}},
	replyCell("keep-alive", nil, hlref.TranKeepAlive, 0, nil),
	replyCell("download-banner", nil, hlref.TranDownloadBanner, hlref.FRefNum, nil),
}

func c05cellByName(n string) *c05cell {
	for i := range c05cells {
		if c05cells[i].name == n {
			return &c05cells[i]
		}
	}
	return nil
}

func (c *c05cell) allNeeds() []int {
	var out []int
	for _, e := range c.effects {
		out = append(out, e...)
	}
	return append(out, c.anyOf...)
}

// c05run executes one cell with one requester bitmap in a fresh world and applies the
// oracle.  It returns (allowed-by-table, label) for evidence.
// via: "" = the requester's account file holds bits at login; "setuser" = the account starts with the governing
// bits flipped, is logged in twice (the requester is the later session) and an administrator's set-user
// changes the privileges to bits while both sessions are connected.
func c05run(rt *rapid.T, cell *c05cell, bits hlref.Access, via ...string) bool {
	setuser := len(via) > 0 && via[0] == "setuser"
	bits0 := bits
	if setuser {
		for _, n := range cell.allNeeds() {
			if bits0.Has(n) {
				bits0.Clear(n)
			} else {
				bits0.Set(n)
			}
		}
	}
	holdsAll := true
	for _, n := range cell.allNeeds() {
		if !bits.Has(n) {
			holdsAll = false
		}
	}
	opt := hlsim.Options{Agreement: "agreement", Board: "old board\r", Accounts: []hlsim.AccountSpec{
		acct("admin", "Admin", "adminpw", allAccess), acct("obs", "Obs", "obspw", allAccess),
		acct("victim", "Victim", "vpw", hlref.Access{}), acct("spare", "Spare", "sparepw", hlref.Access{}),
		{Login: "req", Name: "ReqAcct", Password: "reqpw", Access: bits0},
		{Login: "nn", Name: "", Password: "nnpw", Access: bits}, // an account record without a name of its own
	}}
	inWorld(rt, opt, func(rt *rapid.T, w *hlsim.World) {
		for _, d := range []string{"dir", "Uploads", "Drop Box", "other"} {
			_ = os.MkdirAll(filepath.Join(w.FileRoot, d), 0o755)
		}
		_ = writeFile(w.FileRoot, "f.txt", []byte("file content"))
		_ = writeFile(filepath.Join(w.FileRoot, "dir"), "inner.txt", []byte("inner"))
		_ = writeFile(filepath.Join(w.FileRoot, "Drop Box"), "secret.txt", []byte("secret"))
		for _, d := range []string{"dir/Drop Box", "dir/Uploads", "dir/deep", "Uploads/sub"} {
			_ = os.MkdirAll(filepath.Join(w.FileRoot, d), 0o755)
		}
		_ = writeFile(filepath.Join(w.FileRoot, "dir", "Drop Box"), "hidden.txt", []byte("hidden"))
		_ = writeFile(filepath.Join(w.FileRoot, "dir", "deep"), "d.txt", []byte("deep"))
		// side files that disagree with the entry they belong to
		_ = writeFile(w.FileRoot, "odd.txt", []byte("a regular file"))
		_ = writeFile(w.FileRoot, ".info_odd.txt", hlref.InfoFork{Platform: [4]byte{'A', 'M', 'A', 'C'}, Type: [4]byte{'f', 'l', 'd', 'r'}, Creator: [4]byte{'n', '/', 'a', ' '}, Name: []byte("odd.txt"), Comment: []byte("was a folder's")}.Encode())
		_ = os.MkdirAll(filepath.Join(w.FileRoot, "odd dir"), 0o755)
		_ = writeFile(w.FileRoot, ".info_odd dir", hlref.InfoFork{Platform: [4]byte{'A', 'M', 'A', 'C'}, Type: [4]byte{'T', 'E', 'X', 'T'}, Creator: [4]byte{'t', 't', 'x', 't'}, Name: []byte("odd dir"), Comment: []byte("was a file's")}.Encode())
		// partial uploads somebody left behind
		_ = writeFile(filepath.Join(w.FileRoot, "other"), "left.bin.incomplete", []byte("first half"))
		_ = writeFile(filepath.Join(w.FileRoot, "Uploads"), "left.bin.incomplete", []byte("first half"))
		// aliases whose target is gone (made, then the target was deleted)
		_ = os.Symlink(filepath.Join(w.FileRoot, "gone.txt"), filepath.Join(w.FileRoot, "stale alias"))
		_ = os.Symlink(filepath.Join(w.FileRoot, "gone folder"), filepath.Join(w.FileRoot, "dir", "stale alias 2"))
		x := &c05ctx{rt: rt, w: w, bits: bits}
		x.admin = loginAs(rt, w, "10.0.0.1:1", "admin", "adminpw", "admin")
		x.obs = loginAs(rt, w, "10.0.0.2:1", "obs", "obspw", "obs")
		x.victim = loginAs(rt, w, "10.0.0.3:1", "victim", "vpw", "victim")
		x.adminID, x.victimID, x.reqID = 1, 3, 4
		if setuser {
			other := loginAs(rt, w, "10.0.0.5:1", "req", "reqpw", "req-first-session")
			defer other.TakeInbox()
			x.reqID = 5
		}
		x.req = loginAs(rt, w, "10.0.0.4:1", "req", "reqpw", "req")
		if setuser {
			if r := x.admin.Request(hlref.TranSetUser, fld(hlref.FUserLogin, hlref.Obfuscate([]byte("req"))), sfld(hlref.FUserName, "ReqAcct"), fld(hlref.FUserAccess, bits[:]), fld(hlref.FUserPassword, []byte{0})); !okReply(r) {
				rt.Fatalf("harness: admin set-user failed")
			}
			settle(0)
		}
		// news fixture and a chat, built through the protocol by the administrator
		mustOK := func(r *hlref.Tran, what string) {
			if !okReply(r) {
				rt.Fatalf("harness: admin %s failed", what)
			}
		}
		mustOK(x.admin.Request(hlref.TranNewNewsCat, sfld(hlref.FNewsCatName, "Cat")), "new category")
		mustOK(x.admin.Request(hlref.TranNewNewsFldr, sfld(hlref.FFileName, "Bun")), "new bundle")
		mustOK(x.admin.Request(hlref.TranNewNewsCat, sfld(hlref.FNewsCatName, "Inner"), fld(hlref.FNewsPath, p1("Bun"))), "nested category")
		mustOK(x.admin.Request(hlref.TranNewNewsFldr, sfld(hlref.FFileName, "Deep"), fld(hlref.FNewsPath, p1("Bun"))), "bundle at depth 2")
		mustOK(x.admin.Request(hlref.TranNewNewsCat, sfld(hlref.FNewsCatName, "DeepCat"), fld(hlref.FNewsPath, p1("Bun", "Deep"))), "category at depth 3")
		mustOK(x.admin.Request(hlref.TranNewNewsFldr, sfld(hlref.FFileName, "DeepBun"), fld(hlref.FNewsPath, p1("Bun", "Deep"))), "bundle at depth 3")
		mustOK(x.admin.Request(hlref.TranNewNewsCat, sfld(hlref.FNewsCatName, "Cat4"), fld(hlref.FNewsPath, p1("Bun", "Deep", "DeepBun"))), "category at depth 4")
		mustOK(x.admin.Request(hlref.TranPostNewsArt, fld(hlref.FNewsPath, p1("Bun", "Deep", "DeepCat")), fld(hlref.FNewsArtID, hlref.BE32(0)), sfld(hlref.FNewsArtTitle, "deep-article"), sfld(hlref.FNewsArtData, "deep body")), "post at depth 3")
		mustOK(x.admin.Request(hlref.TranPostNewsArt, fld(hlref.FNewsPath, p1("Cat")), fld(hlref.FNewsArtID, hlref.BE32(0)), sfld(hlref.FNewsArtTitle, "seed-article"), sfld(hlref.FNewsArtData, "seed body")), "post")
		r := x.admin.Request(hlref.TranInviteNewChat, fld(hlref.FUserID, hlref.BE16(x.reqID)))
		mustOK(r, "invite")
		x.chatID, _ = r.Get(hlref.FChatID)
		for _, c := range []*hlsim.Conn{x.admin, x.obs, x.victim, x.req} {
			c.TakeInbox()
		}
		info := func() string {
			r := x.admin.Request(hlref.TranGetClientInfoText, fld(hlref.FUserID, hlref.BE16(x.reqID)))
			d, _ := r.Get(hlref.FData)
			return string(d)
		}
		infoBefore := info()
		before := hlsim.Snap(w.Sandbox)

		reply, observed := cell.run(x)

		ctx := fmt.Sprintf("cell %s, requester privileges %v (needs %v)", cell.name, definedSet(bits), cell.effects)
		if cell.reveal {
			held := true
			for _, n := range cell.effects[0] {
				held = held && bits.Has(n)
			}
			if observed[0] && !held {
				rt.Fatalf("%s: the protected data was revealed without privilege %v (reply %s)", ctx, cell.effects[0], replySummary(reply))
			}
			return
		}
		if len(cell.anyOf) > 0 {
			anyHeld := false
			for _, n := range cell.anyOf {
				anyHeld = anyHeld || bits.Has(n)
			}
			if observed[0] && !anyHeld {
				rt.Fatalf("%s: the effect happened although the requester holds none of the privileges %v", ctx, cell.anyOf)
			}
			if anyHeld {
				return // which of them suffices, and whether the target can be resolved at all, is not pinned down
			}
			holdsAll = false
		}
		// (1) an effect is observed only if its privileges are held
		for i, obsd := range observed {
			held := true
			for _, n := range cell.effects[i] {
				if !bits.Has(n) {
					held = false
				}
			}
			if obsd && !held {
				rt.Fatalf("%s: effect %d happened without privilege %v", ctx, i, cell.effects[i])
			}
			if !obsd && holdsAll {
				rt.Fatalf("%s: all governing privileges held but effect %d was not observed (reply %v)", ctx, i, replySummary(reply))
			}
		}
		if holdsAll {
			if reply != nil && reply.Err != 0 {
				d, _ := reply.Get(hlref.FError)
				rt.Fatalf("%s: refused although every governing privilege is held: %q", ctx, d)
			}
			if reply == nil && !cell.noReply {
				rt.Fatalf("%s: no reply although every governing privilege is held", ctx)
			}
			return
		}
		// (2) a governing privilege is missing
		if cell.name26 {
			if reply != nil && reply.Err != 0 {
				rt.Fatalf("%s: display-name request refused with an error", ctx)
			}
			return
		}
		if reply == nil || reply.Err == 0 || reply.IsReply != 1 {
			rt.Fatalf("%s: privilege missing but no error reply (reply %v)", ctx, replySummary(reply))
		}
		if len(cell.effects) == 1 {
			if d := before.Diff(hlsim.Snap(w.Sandbox)); len(d) != 0 {
				rt.Fatalf("%s: denied request changed server state: %v", ctx, d)
			}
			settle(2 * time.Second)
			if x.victim.EOF() {
				rt.Fatalf("%s: denied request disconnected another user", ctx)
			}
			for n, c := range map[string]*hlsim.Conn{"admin": x.admin, "obs": x.obs, "victim": x.victim} {
				if in := c.TakeInbox(); len(in) != 0 {
					rt.Fatalf("%s: denied request reached user %s: %s", ctx, n, tranSummary(in))
				}
			}
			if in := x.req.TakeInbox(); len(in) != 0 {
				rt.Fatalf("%s: denied requester received more than the error reply: %s", ctx, tranSummary(in))
			}
			if after := info(); after != infoBefore {
				rt.Fatalf("%s: denied request changed the requester's transfer list:\n%s\n---\n%s", ctx, infoBefore, after)
			}
		}
	})
	return holdsAll
}

func replySummary(r *hlref.Tran) string {
	if r == nil {
		return "<none>"
	}
	return tranSummary([]hlref.Tran{*r})
}

func c05prop(ev *evid.Rec) func(rt *rapid.T) {
	return func(rt *rapid.T) {
		ci := rapid.IntRange(0, len(c05cells)-1).Draw(rt, "cell")
		cell := &c05cells[ci]
		needs := cell.allNeeds()
		mode := rapid.SampledFrom([]string{"random", "random", "all-but-governing", "only-governing", "missing-one", "background+all"}).Draw(rt, "mode")
		var bits hlref.Access
		switch mode {
		case "random":
			copy(bits[:], genBytes(rt, "bits", 8))
			for _, n := range needs {
				if rapid.Bool().Draw(rt, fmt.Sprintf("force%d", n)) {
					bits.Set(n)
				} else {
					bits.Clear(n)
				}
			}
		case "all-but-governing":
			bits = hlref.AllAccess()
			for _, n := range needs {
				bits.Clear(n)
			}
		case "only-governing":
			for _, n := range needs {
				bits.Set(n)
			}
		case "missing-one":
			copy(bits[:], genBytes(rt, "bits", 8))
			for _, n := range needs {
				bits.Set(n)
			}
			if len(needs) > 0 {
				bits.Clear(rapid.SampledFrom(needs).Draw(rt, "missing"))
			}
		default:
			copy(bits[:], genBytes(rt, "bits", 8))
			for _, n := range needs {
				bits.Set(n)
			}
		}
		via := rapid.SampledFrom([]string{"", "", "setuser"}).Draw(rt, "via")
		if via != "setuser" {
			bits = bits.Defined() // the account file stores defined privileges only
		}
		// (an administrator's set-user carries the 64 bits as sent: the 24 bits that name no privilege must grant nothing)
		allowed := c05run(rt, cell, bits, via)
		lab := "hasnt"
		if allowed {
			lab = "has"
		}
		nd := len(definedSet(bits))
		ev.Case(evid.Hash(cell.name, bits[:], via), nd != 0 && nd != 40, "cell:"+cell.name+":"+lab, "mode:"+mode, "via:"+via)
		if ev.WantSample() {
			ev.Sample(map[string]any{"cell": cell.name, "governing": cell.effects, "requester_privileges": definedSet(bits), "expected": lab, "privileges_set_by": map[string]string{"": "account file at login", "setuser": "administrator set-user while logged in twice"}[via]})
		}
	}
}

func TestC05(t *testing.T) {
	ev := evid.New("C05", "TestC05")
	defer ev.Flush()
	rapid.Check(t, c05prop(ev))
}

// c05matrix enumerates cell x single-privilege bitmaps (each of the 40 defined bits) plus
// cell x {all, none, all-but-one governing}: the request must be allowed iff the single
// bit is the (only) governing one.
func c05matrix(t *testing.T, ev *evid.Rec, undefinedToo ...bool) {
	shard, _ := strconv.Atoi(os.Getenv("VERIF_SHARD_INDEX"))
	nsh, _ := strconv.Atoi(os.Getenv("VERIF_NSHARDS"))
	if nsh < 1 {
		nsh = 1
	}
	type job struct {
		cell *c05cell
		bits hlref.Access
		kind string
		via  string
	}
	var jobs []job
	for i := range c05cells {
		c := &c05cells[i]
		for _, b := range hlref.DefinedPrivs {
			jobs = append(jobs, job{c, hlref.AccessOf(b), "single", ""})
		}
		jobs = append(jobs, job{c, hlref.AllAccess().Defined(), "all", ""}, job{c, hlref.Access{}, "none", ""})
		if len(undefinedToo) > 0 && undefinedToo[0] {
			// each of the 24 bits that name no privilege, alone, delivered by an administrator's set-user (an account
			// file cannot hold them): it governs nothing
			def := map[int]bool{}
			for _, b := range hlref.DefinedPrivs {
				def[b] = true
			}
			for b := 0; b < 64; b++ {
				if !def[b] {
					jobs = append(jobs, job{c, hlref.AccessOf(b), "single-undefined", "setuser"})
				}
			}
		}
		for _, n := range c.allNeeds() {
			a := hlref.AllAccess().Defined()
			a.Clear(n)
			jobs = append(jobs, job{c, a, "all-but-one-governing", ""})
		}
	}
	// every matrix job is one deterministic execution; it goes through rapid only for the SyncTest plumbing
	_ = flag.Set("rapid.checks", "1")
	only := os.Getenv("VERIF_C05_CELL")
	for n, j := range jobs {
		if n%nsh != shard || (only != "" && !strings.HasPrefix(j.cell.name, only)) {
			continue
		}
		j := j
		var allowed bool
		rapid.Check(t, func(rt *rapid.T) {
			allowed = c05run(rt, j.cell, j.bits, j.via)
		})
		if t.Failed() {
			t.Fatalf("VERIF-VIOLATION matrix cell %s bitmap %v", j.cell.name, definedSet(j.bits))
		}
		lab := "hasnt"
		if allowed {
			lab = "has"
		}
		nd := len(definedSet(j.bits))
		ev.Case(evid.Hash(j.cell.name, j.bits[:]), (nd != 0 && nd != 40) || j.kind == "single-undefined", "cell:"+j.cell.name+":"+lab, "matrix:"+j.kind)
		if ev.WantSample() {
			ev.Sample(map[string]any{"cell": j.cell.name, "governing": j.cell.effects, "requester_privileges": definedSet(j.bits), "expected": lab})
		}
	}
	ev.SetExtra("matrix_cells", len(c05cells))
}

func TestC05Matrix(t *testing.T) {
	ev := evid.New("C05", "TestC05Matrix")
	defer ev.Flush()
	c05matrix(t, ev)
}

// TestC16Authz: C16 (d) - authorization decisions use the same bit numbering: with a
// single-privilege account a governed request is allowed iff that privilege governs it.
func TestC16Authz(t *testing.T) {
	ev := evid.New("C16", "TestC16Authz")
	defer ev.Flush()
	c05matrix(t, ev, true)
}
