package props

// C08 — downloads deliver exactly the file's bytes.

import (
	"bytes"
	"fmt"
	"os"
	"path/filepath"
	"strings"
	"testing"

	"golang.org/x/text/encoding/charmap"
	"pgregory.net/rapid"

	"verif/harness/evid"
	"verif/harness/hlref"
	"verif/harness/hlsim"
)

// macRoman encodes a UTF-8 string for the wire (file names travel in Mac-Roman).
func macRoman(s string) []byte {
	b, err := charmap.Macintosh.NewEncoder().Bytes([]byte(s))
	if err != nil {
		panic("harness: name not representable in Mac-Roman: " + s)
	}
	return b
}

var nameRunes = []rune("abcdefghijklmnopqrstuvwxyzABCDEFGHIJKLMNOPQRSTUVWXYZ0123456789 _-+()[]&'!,;=@#$%^~" + "éüñçøåÄÖßπΩ™©•…∞")

// (the extensions of the server's type table, and the common ones a maintainer may add to it next)
var nameExts = []string{"", ".txt", ".sit", ".pdf", ".gif", ".zip", ".tgz", ".hqx", ".jpg", ".jpeg", ".img", ".sea", ".mov", ".TXT", ".tar.gz", ".unknown", ".",
	".bmp", ".BMP", ".png", ".tif", ".tiff", ".mp3", ".wav", ".aiff", ".avi", ".mpg", ".html", ".htm", ".doc", ".rtf", ".exe", ".bin", ".dmg", ".rar", ".gz", ".tar", ".psd", ".pict", ".c", ".h", ".sitx", ".cpt", ".dd", ".smi"}

// genFileName draws a visible file name representable in Mac-Roman, <= 255 UTF-8 bytes.
func genFileName(rt *rapid.T, label string) string {
	for {
		n := rapid.IntRange(1, 12).Draw(rt, label+"_len")
		if rapid.IntRange(0, 12).Draw(rt, label+"_long") == 0 {
			n = rapid.IntRange(60, 120).Draw(rt, label+"_len2")
		}
		rs := make([]rune, n)
		for i := range rs {
			rs[i] = rapid.SampledFrom(nameRunes).Draw(rt, fmt.Sprintf("%s_r%d", label, i))
		}
		s := strings.TrimSpace(string(rs)) + rapid.SampledFrom(nameExts).Draw(rt, label+"_ext")
		if s == "" || s == "." || s == ".." || strings.HasPrefix(s, ".") || strings.HasPrefix(s, "@") || len(s) > 255 || strings.Contains(s, ".incomplete") {
			continue
		}
		return s
	}
}

var fileSizeBoundaries = []int{0, 1, 2, 511, 512, 513, 4095, 4096, 4097, 32767, 32768, 32769, 65535, 65536, 65537}

func genFileSize(rt *rapid.T, label string) int {
	max := 256 << 10
	if thorough() {
		max = 8 << 20
	}
	switch rapid.IntRange(0, 5).Draw(rt, label+"_k") {
	case 0, 1:
		return rapid.SampledFrom(fileSizeBoundaries).Draw(rt, label)
	case 2, 3:
		return rapid.IntRange(0, 2000).Draw(rt, label)
	case 4:
		return rapid.IntRange(0, 70000).Draw(rt, label)
	default:
		return rapid.IntRange(0, max).Draw(rt, label)
	}
}

func genOffset(rt *rapid.T, label string, size int) int {
	switch rapid.IntRange(0, 4).Draw(rt, label+"_k") {
	case 0:
		return 0
	case 1:
		return min(1, size)
	case 2:
		return max(size-1, 0)
	case 3:
		return size
	default:
		return rapid.IntRange(0, size).Draw(rt, label)
	}
}

func c08prop(ev *evid.Rec) func(rt *rapid.T) {
	return func(rt *rapid.T) {
		name := genFileName(rt, "name")
		size := genFileSize(rt, "size")
		content := genBytes(rt, "content", size)
		storedInfo := rapid.IntRange(0, 3).Draw(rt, "info") == 0
		storedRsrc := rapid.IntRange(0, 3).Draw(rt, "rsrc") == 0
		var rsrc []byte
		if storedRsrc {
			rsrc = genBytes(rt, "rsrcdata", rapid.IntRange(0, 5000).Draw(rt, "rsrclen"))
		}
		comment := ""
		if storedInfo {
			comment = rapid.SampledFrom([]string{"", "a comment", strings.Repeat("c", 300), strings.Repeat("L", 32600), strings.Repeat("M", 32768), strings.Repeat("N", 40000), strings.Repeat("O", 65535)}).Draw(rt, "comment") // a comment may be as long as a field: the stored info fork then exceeds 32 KiB
		}
		infoPad := 0
		if storedInfo {
			infoPad = rapid.SampledFrom([]int{0, 0, 1, 3}).Draw(rt, "paddingAfterStoredComment")
		}
		mode := rapid.SampledFrom([]string{"plain", "plain", "resume", "resume", "preview", "preview-resume"}).Draw(rt, "mode")
		k := 0
		if mode == "resume" || mode == "preview-resume" {
			k = genOffset(rt, "offset", size)
		}
		// how the client lays out its resume data: the data fork entry alone, followed by a resource fork entry, or with the
		// fork type written the way some clients do (lower case, or left empty)
		resumeLayout, oddTag := "DATA", false
		resumeField := hlref.ResumeData(k)
		if mode == "resume" {
			resumeLayout = rapid.SampledFrom([]string{"DATA", "DATA", "DATA+MACR", "data", "untagged"}).Draw(rt, "resumeLayout")
			switch resumeLayout {
			case "DATA+MACR":
				resumeField = hlref.EncodeResume([]hlref.ForkOffset{{Fork: [4]byte{'D', 'A', 'T', 'A'}, Offset: uint32(k)}, {Fork: [4]byte{'M', 'A', 'C', 'R'}, Offset: 0}})
			case "data":
				resumeField, oddTag = hlref.EncodeResume([]hlref.ForkOffset{{Fork: [4]byte{'d', 'a', 't', 'a'}, Offset: uint32(k)}}), true
			case "untagged":
				resumeField, oddTag = hlref.EncodeResume([]hlref.ForkOffset{{Fork: [4]byte{}, Offset: uint32(k)}}), true
			}
		}
		inFolder := rapid.Bool().Draw(rt, "infolder")
		// now and then the file lies very deep: more folders than fit one byte of the path's 16-bit item count
		deep := 0
		if rapid.IntRange(0, 11).Draw(rt, "deepPath") == 0 {
			deep = rapid.SampledFrom([]int{254, 255, 256, 257, 300}).Draw(rt, "depth")
		}
		own := rapid.IntRange(0, 3).Draw(rt, "ownroot") == 0
		viaAlias := !storedInfo && !storedRsrc && len(name) < 200 && rapid.IntRange(0, 3).Draw(rt, "viaAlias") == 0
		// how the client's bytes on the transfer connection are cut into segments ("" = one Write per message)
		// between the grant and the transfer somebody may look at the downloader's client info, which lists the pending transfer
		peek := rapid.IntRange(0, 3).Draw(rt, "peekAtPendingTransfer") == 0
		seg := rapid.SampledFrom([]string{"", "", "random", "header", "bytes"}).Draw(rt, "segmentation")
		segSeed := rapid.Uint64().Draw(rt, "segseed")
		inWorld(rt, hlsim.Options{Agreement: "a", Accounts: []hlsim.AccountSpec{acct("admin", "Admin", "adminpw", allAccess)}}, func(rt *rapid.T, w *hlsim.World) {
			if seg != "" {
				w.NewSplit = func(kind string) hlsim.Splitter {
					if kind == "xfer" {
						return &c02split{mode: seg, seed: segSeed}
					}
					return nil
				}
			}
			base := w.FileRoot
			if own {
				// the account has a file root of its own; the server-wide root holds a different file under the same name
				base = ownRoot(rt, w, acct("admin", "Admin", "adminpw", allAccess))
			}
			dir := base
			var path []byte
			if name == "d" {
				deep = 0 // (the deep folders are all called "d")
			}
			if deep > 0 {
				items := make([]string, deep)
				for i := range items {
					items[i] = "d"
				}
				dir = filepath.Join(base, strings.Join(items, "/"))
				must(os.MkdirAll(dir, 0o755))
				path = p1(items...)
				// files of the same name nearer to the root are other files
				must(os.WriteFile(filepath.Join(base, name), append([]byte("the root's file of that name: "), content...), 0o644))
				must(os.WriteFile(filepath.Join(base, "d", name), append([]byte("another one: "), content...), 0o644))
			} else if inFolder {
				dir = filepath.Join(base, "sub folder")
				must(os.MkdirAll(dir, 0o755))
				path = p1("sub folder")
			}
			must(os.WriteFile(filepath.Join(dir, name), content, 0o644))
			if own {
				decoy := filepath.Join(w.FileRoot, strings.TrimPrefix(dir, base))
				must(os.MkdirAll(decoy, 0o755))
				must(os.WriteFile(filepath.Join(decoy, name), append([]byte("not this file: "), content...), 0o644))
			}
			wireName := macRoman(name)
			if storedInfo {
				inf := hlref.InfoFork{Platform: [4]byte{'A', 'M', 'A', 'C'}, Type: [4]byte{'A', 'B', 'C', 'D'}, Creator: [4]byte{'W', 'X', 'Y', 'Z'}, Name: wireName, Comment: []byte(comment)}
				// (the stored fork may carry padding after the comment, as the forks some clients upload do: it is no part of the comment)
				must(os.WriteFile(filepath.Join(dir, ".info_"+name), append(inf.Encode(), make([]byte, infoPad)...), 0o644))
			}
			if storedRsrc {
				must(os.WriteFile(filepath.Join(dir, ".rsrc_"+name), rsrc, 0o644))
			}
			c := loginAs(rt, w, "10.0.0.1:1", "admin", "adminpw", "admin")
			reqName := wireName
			if viaAlias {
				// the file is asked for through an alias (as made by the make-alias request): sizes and bytes are the target's
				must(os.Symlink(filepath.Join(dir, name), filepath.Join(dir, "alias of "+name)))
				reqName = append([]byte("alias of "), wireName...)
			}
			fs := []hlref.Field{fld(hlref.FFileName, reqName)}
			if path != nil {
				fs = append(fs, fld(hlref.FFilePath, path))
			}
			switch mode {
			case "resume":
				fs = append(fs, fld(hlref.FFileResumeData, resumeField))
			case "preview":
				fs = append(fs, fld(hlref.FFileTransferOptions, hlref.BE16(2)))
			case "preview-resume":
				// a preview that continues an earlier one: bare data from the offset
				fs = append(fs, fld(hlref.FFileResumeData, hlref.ResumeData(k)), fld(hlref.FFileTransferOptions, hlref.BE16(2)))
			}
			r := c.Request(hlref.TranDownloadFile, fs...)
			ctx := fmt.Sprintf("download %q size=%d mode=%s offset=%d (resume data layout %s) info=%v rsrc=%v(%d) via-alias=%v", name, size, mode, k, resumeLayout, storedInfo, storedRsrc, len(rsrc), viaAlias)
			if !okReply(r) {
				rt.Fatalf("%s: download request not granted: %s", ctx, replySummary(r))
			}
			ref, _ := r.Get(hlref.FRefNum)
			ts, ok1 := r.Get(hlref.FTransferSize)
			fsz, ok2 := r.Get(hlref.FFileSize)
			if len(ref) != 4 || !ok1 || !ok2 || len(ts) != 4 || len(fsz) != 4 {
				rt.Fatalf("%s: reply lacks reference number / sizes: %s", ctx, replySummary(r))
			}
			if oddTag && hlref.U32(fsz) == size {
				// the first fork entry is not tagged DATA: a server may take that as "no data fork offset"; what it announces and
				// what it sends must then both be the whole file
				k = 0
			}
			if hlref.U32(fsz) != size-k {
				rt.Fatalf("%s: reply announces file size %d, remaining data is %d", ctx, hlref.U32(fsz), size-k)
			}
			if peek {
				if ir := c.Request(hlref.TranGetClientInfoText, fld(hlref.FUserID, hlref.BE16(1))); !okReply(ir) {
					rt.Fatalf("%s: client info of the downloader (pending transfer) refused: %s", ctx, replySummary(ir))
				}
			}
			rx, _ := w.Transfer("10.0.0.1:2", ref, 0, nil, -1)
			emptyMACR := hlref.ForkHeader("MACR", 0)
			if mode == "preview" || mode == "preview-resume" {
				if hlref.U32(ts) != size-k {
					rt.Fatalf("%s: preview transfer size %d, the data from the offset on has %d bytes", ctx, hlref.U32(ts), size-k)
				}
				if len(rx) < size-k || !bytes.Equal(rx[:size-k], content[k:]) {
					rt.Fatalf("%s: preview stream does not start with the bare file data from offset %d on (got %d bytes, first difference at %d)", ctx, k, len(rx), firstDiff(rx[:min(len(rx), size-k)], content[k:]))
				}
				tail := rx[size-k:]
				if storedRsrc {
					if !bytes.Equal(tail, append(hlref.ForkHeader("MACR", len(rsrc)), rsrc...)) && !bytes.Equal(tail, rsrc) {
						rt.Fatalf("%s: preview tail (%d bytes) is neither nothing nor the resource fork", ctx, len(tail))
					}
				} else if len(tail) != 0 && !bytes.Equal(tail, emptyMACR) {
					rt.Fatalf("%s: preview carries %d extra bytes after the data: %s", ctx, len(tail), hexs(tail))
				}
				return
			}
			p, err := hlref.ParseFlatHeader(rx)
			if err != nil {
				rt.Fatalf("%s: transfer stream does not start with a well-formed flattened-file header: %v (%s)", ctx, err, hexs(rx))
			}
			// (the encoding of the name inside the header is not part of the statement - mobius sends the on-disk UTF-8 name
			// when no info fork is stored; only the consistency of the length fields is required, which the strict parser checked)
			if storedInfo && (!bytes.Equal(p.Info.Comment, []byte(comment)) || p.Info.Type != [4]byte{'A', 'B', 'C', 'D'}) {
				rt.Fatalf("%s: stored info fork not sent (comment %q type %q)", ctx, p.Info.Comment, p.Info.Type[:])
			}
			if !storedRsrc && hlref.U32(ts) != p.HeaderLen+size-k {
				rt.Fatalf("%s: reply announces transfer size %d, header %d + remaining data %d = %d", ctx, hlref.U32(ts), p.HeaderLen, size-k, p.HeaderLen+size-k)
			}
			body := rx[p.HeaderLen:]
			if len(body) < size-k || !bytes.Equal(body[:size-k], content[k:]) {
				rt.Fatalf("%s: data after the header is not content[%d:] (got %d bytes, want %d, first difference at %d)", ctx, k, len(body), size-k, firstDiff(body[:min(len(body), size-k)], content[k:]))
			}
			tail := body[size-k:]
			if storedRsrc {
				withHdr := append(hlref.ForkHeader("MACR", len(rsrc)), rsrc...)
				if !bytes.Equal(tail, withHdr) && !(mode == "resume" && bytes.Equal(tail, rsrc)) {
					rt.Fatalf("%s: bytes after the data fork (%d) are not the stored resource fork (%d bytes)", ctx, len(tail), len(rsrc))
				}
			} else if len(tail) != 0 && !bytes.Equal(tail, emptyMACR) {
				rt.Fatalf("%s: %d unexpected bytes after the data fork: %s", ctx, len(tail), hexs(tail))
			}
		})
		nt := size > 0 && (k > 0 || storedInfo || storedRsrc || size > 32768)
		ev.Case(evid.Hash(name, content, mode, k, storedInfo, storedRsrc, rsrc, seg, segSeed, own), nt, "mode:"+mode, "segmentation:"+seg, fmt.Sprintf("own-root:%v", own), fmt.Sprintf("via-alias:%v", viaAlias), fmt.Sprintf("info:%v", storedInfo), fmt.Sprintf("rsrc:%v", storedRsrc), sizeClass(size))
		if nt && ev.WantSample() {
			ev.Sample(map[string]any{"name": name, "size": size, "mode": mode, "resume_offset": k, "stored_info_fork": storedInfo, "stored_resource_fork": storedRsrc})
		}
	}
}

func sizeClass(n int) string {
	switch {
	case n == 0:
		return "size:0"
	case n <= 512:
		return "size:<=512"
	case n <= 32768:
		return "size:<=32K"
	case n <= 1<<20:
		return "size:<=1M"
	}
	return "size:>1M"
}

func TestC08(t *testing.T) {
	ev := evid.New("C08", "TestC08")
	defer ev.Flush()
	rapid.Check(t, c08prop(ev))
}
