package props

// C12 — chat reaches exactly its audience.

import (
	"bytes"
	"fmt"
	"sort"
	"strings"
	"testing"
	"unicode/utf8"

	"pgregory.net/rapid"

	"verif/harness/evid"
	"verif/harness/hlref"
	"verif/harness/hlsim"
)

type c12client struct {
	idx       int
	conn      *hlsim.Conn
	id        int
	name      []byte
	read      bool
	send      bool
	open      bool
	connected bool
	login     string
	refuse    bool // the user's "refuse private chat" preference (a new session starts without it)
}

type c12chat struct {
	id      string
	members map[int]bool // client idx
	invited map[int]bool
}

// pad13 re-implements the protocol's 13-column right-aligned name field: at most 13
// characters of the name (an invalid byte counts as one character), left-padded with
// spaces to 13 characters.
func pad13(name []byte) []byte {
	n, i := 0, 0
	for i < len(name) && n < 13 {
		_, w := utf8.DecodeRune(name[i:])
		i += w
		n++
	}
	out := []byte(strings.Repeat(" ", 13-n))
	return append(out, name[:i]...)
}

func chatLine(name, msg []byte, emote bool) []byte {
	var b []byte
	if emote {
		b = append([]byte("\r*** "), name...)
		b = append(append(b, ' '), msg...)
	} else {
		b = append([]byte("\r"), pad13(name)...)
		b = append(append(b, []byte(":  ")...), msg...)
	}
	if len(b) > 8192 {
		b = b[:8192]
	}
	return b
}

func chatRelevant(t hlref.Tran) bool {
	switch t.Type {
	case hlref.TranChatMsg, hlref.TranInviteToChat, hlref.TranNotifyChatChangeUser, hlref.TranNotifyChatDeleteUser, hlref.TranNotifyChatSubject:
		return t.IsReply == 0
	}
	return false
}

func chatNorm(t hlref.Tran) string {
	g := func(id int) string { d, _ := t.Get(id); return string(d) }
	switch t.Type {
	case hlref.TranChatMsg:
		return fmt.Sprintf("106 chat=%x text=%q", g(hlref.FChatID), g(hlref.FData))
	case hlref.TranInviteToChat:
		return fmt.Sprintf("113 chat=%x from=%x name=%q", g(hlref.FChatID), g(hlref.FUserID), g(hlref.FUserName))
	case hlref.TranNotifyChatChangeUser:
		return fmt.Sprintf("117 chat=%x user=%x name=%q", g(hlref.FChatID), g(hlref.FUserID), g(hlref.FUserName))
	case hlref.TranNotifyChatDeleteUser:
		return fmt.Sprintf("118 chat=%x user=%x", g(hlref.FChatID), g(hlref.FUserID))
	case hlref.TranNotifyChatSubject:
		return fmt.Sprintf("119 chat=%x subject=%q", g(hlref.FChatID), g(hlref.FChatSubject))
	}
	return fmt.Sprintf("?%d", t.Type)
}

func c12prop(ev *evid.Rec) func(rt *rapid.T) {
	return func(rt *rapid.T) {
		nacc := 6
		type spec struct {
			read, send, open bool
			name             []byte
		}
		specs := make([]spec, nacc)
		var accounts []hlsim.AccountSpec
		for i := range specs {
			specs[i] = spec{read: rapid.IntRange(0, 3).Draw(rt, fmt.Sprintf("read%d", i)) != 0, send: rapid.IntRange(0, 3).Draw(rt, fmt.Sprintf("send%d", i)) != 0, open: rapid.IntRange(0, 3).Draw(rt, fmt.Sprintf("open%d", i)) != 0}
			switch rapid.IntRange(0, 2).Draw(rt, fmt.Sprintf("namek%d", i)) {
			case 0:
				specs[i].name = []byte(rapid.SampledFrom([]string{"a", "exactly13char", "fourteen chars", "caf\xc3\xa9 latin", "\xff\xfe bad utf8 name", strings.Repeat("w", 40), "twelve chars", "100% bob", "%", "%s %d %v", "%!x(MISSING)"}).Draw(rt, fmt.Sprintf("name%d", i)))
			default:
				specs[i].name = genBytes(rt, fmt.Sprintf("name%d", i), rapid.IntRange(1, 40).Draw(rt, fmt.Sprintf("namelen%d", i)))
			}
			a := hlref.AccessOf(hlref.PrivAnyName)
			if specs[i].read {
				a.Set(hlref.PrivReadChat)
			}
			if specs[i].send {
				a.Set(hlref.PrivSendChat)
			}
			if specs[i].open {
				a.Set(hlref.PrivOpenChat)
			}
			accounts = append(accounts, hlsim.AccountSpec{Login: fmt.Sprintf("u%d", i), Name: fmt.Sprintf("U%d", i), Password: "pw", Access: a})
		}
		accounts = append(accounts, acct("editor", "Editor", "epw", hlref.AccessOf(hlref.PrivModifyUser)))
		var history []string
		strictSubset := false
		inWorld(rt, hlsim.Options{Agreement: "a", Accounts: accounts}, func(rt *rapid.T, w *hlsim.World) {
			clients := make([]*c12client, nacc)
			for i := range clients {
				// clients 2k and 2k+1 are two sessions of one account (u<2k>): an account's chat privileges cover all its sessions
				b := i - i%2
				clients[i] = &c12client{idx: i, name: specs[i].name, read: specs[b].read, send: specs[b].send, open: specs[b].open, login: fmt.Sprintf("u%d", b)}
			}
			editor := loginAs(rt, w, "10.12.9.250:1", "editor", "epw", "editor")
			chats := []*c12chat{}
			nextID := 1 // the editor holds user id 1
			connect := func(c *c12client) {
				nextID++
				c.conn = w.Connect(fmt.Sprintf("10.12.0.%d:%d", c.idx+1, 1000+nextID))
				if c.conn.Login(hlsim.LoginOpts{Login: c.login, Password: "pw", Name: c.name, Icon: c.idx}) == nil {
					rt.Fatalf("harness: login of client %d failed", c.idx)
				}
				c.id = nextID
				c.connected = true
				c.refuse = false
			}
			connect(clients[0])
			connect(clients[1])
			connected := func() []*c12client {
				var out []*c12client
				for _, c := range clients {
					if c.connected {
						out = append(out, c)
					}
				}
				return out
			}
			drain := func() {
				for _, c := range connected() {
					c.conn.TakeInbox()
				}
			}
			drain()
			fail := func(f string, a ...any) {
				rt.Fatalf(f+"\nhistory: "+strings.Join(history, " | "), a...)
			}
			// verify compares what every connected client received with the expectation
			verify := func(what string, expect map[int][]string) {
				aud := 0
				for _, c := range connected() {
					var got []string
					for _, t := range c.conn.TakeInbox() {
						if chatRelevant(t) {
							got = append(got, chatNorm(t))
						}
					}
					want := append([]string{}, expect[c.idx]...)
					sort.Strings(got)
					sort.Strings(want)
					if len(want) > 0 {
						aud++
					}
					if strings.Join(got, "\n") != strings.Join(want, "\n") {
						fail("%s: client %d (id %d, read=%v) received\n  %s\nexpected\n  %s", what, c.idx, c.id, c.read, strings.Join(got, "\n  "), strings.Join(want, "\n  "))
					}
				}
				if aud > 0 && aud < len(connected()) {
					strictSubset = true
				}
			}
			pick := func(label string, ok func(*c12client) bool) *c12client {
				var cs []*c12client
				for _, c := range clients {
					if ok(c) {
						cs = append(cs, c)
					}
				}
				if len(cs) == 0 {
					return nil
				}
				return cs[rapid.IntRange(0, len(cs)-1).Draw(rt, label)]
			}
			isConn := func(c *c12client) bool { return c.connected }
			genMsg := func(label string) []byte {
				n := rapid.SampledFrom([]int{0, 1, 20, 100, 8000, 8173, 8174, 8175, 8192, 10000}).Draw(rt, label+"_len")
				return genBytes(rt, label, n)
			}
			pickChat := func(label string, ok func(*c12chat) bool) *c12chat {
				var cs []*c12chat
				for _, ch := range chats {
					if ok(ch) {
						cs = append(cs, ch)
					}
				}
				if len(cs) == 0 {
					return nil
				}
				return cs[rapid.IntRange(0, len(cs)-1).Draw(rt, label)]
			}
			memberLines := func(ch *c12chat, line string) map[int][]string {
				exp := map[int][]string{}
				for m := range ch.members {
					if clients[m].connected {
						exp[m] = append(exp[m], line)
					}
				}
				return exp
			}
			rt.Repeat(map[string]func(*rapid.T){
				"connect": func(rt *rapid.T) {
					c := pick("who", func(c *c12client) bool { return !c.connected })
					if c == nil {
						rt.Skip()
					}
					history = append(history, fmt.Sprintf("connect %d", c.idx))
					connect(c)
					verify("connect", nil)
				},
				"disconnect": func(rt *rapid.T) {
					if len(connected()) <= 2 {
						rt.Skip()
					}
					c := pick("who", isConn)
					history = append(history, fmt.Sprintf("disconnect %d", c.idx))
					c.conn.Close()
					c.connected = false
					for _, ch := range chats { // the departed connection never comes back: a reconnect is a new user
						delete(ch.members, c.idx)
						delete(ch.invited, c.idx)
					}
					settle(0)
					verify("disconnect", nil)
				},
				"restart": func(rt *rapid.T) {
					// the server is restarted from its files: every session and chat is gone, the accounts (with the chat
					// privileges the administrator set last) are what the files say
					if rapid.IntRange(0, 3).Draw(rt, "really") != 0 {
						rt.Skip()
					}
					history = append(history, "restart")
					if err := w.Restart(); err != nil {
						fail("the server does not start from its own files: %v", err)
					}
					for _, c := range clients {
						c.connected = false
					}
					chats = chats[:0] // the new server knows none of the old chats (requests naming unknown chats are the unknownChat action)
					editor = loginAs(rt, w, "10.12.9.250:1", "editor", "epw", "editor")
					nextID = 1
					first := rapid.IntRange(0, nacc-1).Draw(rt, "first")
					connect(clients[first])
					connect(clients[(first+1+rapid.IntRange(0, nacc-2).Draw(rt, "second"))%nacc])
					drain()
					editor.TakeInbox()
				},
				"publicSend": func(rt *rapid.T) {
					c := pick("who", isConn)
					msg := genMsg("msg")
					variant := rapid.SampledFrom([]string{"plain", "plain", "emote", "opt0", "chat0"}).Draw(rt, "variant")
					fs := []hlref.Field{fld(hlref.FData, msg)}
					emote := false
					switch variant {
					case "emote":
						fs = append(fs, fld(hlref.FChatOptions, hlref.BE16(1)))
						emote = true
					case "opt0":
						fs = append(fs, fld(hlref.FChatOptions, hlref.BE16(0)))
					case "chat0":
						fs = append(fs, fld(hlref.FChatID, []byte{0, 0, 0, 0}))
					}
					history = append(history, fmt.Sprintf("public %d %s len=%d", c.idx, variant, len(msg)))
					r := c.conn.Request(hlref.TranChatSend, fs...)
					exp := map[int][]string{}
					if c.send {
						line := fmt.Sprintf("106 chat= text=%q", chatLine(c.name, msg, emote))
						for _, o := range connected() {
							if o.read {
								exp[o.idx] = append(exp[o.idx], line)
							}
						}
						if r != nil && r.Err != 0 {
							fail("public send by client %d with send-chat privilege was refused", c.idx)
						}
					} else if r == nil || r.Err == 0 {
						fail("public send by client %d without send-chat privilege was not refused", c.idx)
					}
					verify("public send", exp)
				},
				"inviteNewChat": func(rt *rapid.T) {
					c := pick("who", isConn)
					t := pick("target", func(o *c12client) bool { return o.connected && o != c })
					if t == nil {
						rt.Skip()
					}
					history = append(history, fmt.Sprintf("invite-new %d->%d", c.idx, t.idx))
					r := c.conn.Request(hlref.TranInviteNewChat, fld(hlref.FUserID, hlref.BE16(t.id)))
					exp := map[int][]string{}
					if c.open {
						if !okReply(r) {
							fail("invite-new-chat by client %d with open-chat privilege refused", c.idx)
						}
						id, _ := r.Get(hlref.FChatID)
						if len(id) != 4 {
							fail("invite-new-chat reply without chat id")
						}
						if string(id) == "\x00\x00\x00\x00" {
							fail("invite-new-chat by client %d (target refuses private chat: %v) was answered with chat id 0, which is the public chat", c.idx, t.refuse)
						}
						ch := &c12chat{id: string(id), members: map[int]bool{c.idx: true}, invited: map[int]bool{}}
						chats = append(chats, ch)
						if !t.refuse {
							// (a target that refuses private chat is not invited: the inviter sits in the new chat alone)
							ch.invited[t.idx] = true
							exp[t.idx] = append(exp[t.idx], fmt.Sprintf("113 chat=%x from=%x name=%q", ch.id, hlref.BE16(c.id), c.name))
						}
					} else if r == nil || r.Err == 0 {
						fail("invite-new-chat by client %d without open-chat privilege not refused", c.idx)
					}
					verify("invite new chat", exp)
				},
				"setRefuse": func(rt *rapid.T) {
					// the user switches the "refuse private chat" preference on or off (name and icon stay what they are)
					c := pick("who", isConn)
					c.refuse = rapid.Bool().Draw(rt, "refuse")
					history = append(history, fmt.Sprintf("set-refuse %d %v", c.idx, c.refuse))
					opts := 0
					if c.refuse {
						opts = 2
					}
					c.conn.Request(hlref.TranSetClientUserInfo, fld(hlref.FUserName, c.name), fld(hlref.FUserIconID, hlref.BE16(c.idx)), fld(hlref.FOptions, hlref.BE16(opts)))
					verify("set refuse-private-chat", nil)
				},
				"rename": func(rt *rapid.T) {
					// the user takes another name in mid-session (every account here may use any name) - with the options field the
					// 1.5 clients send, or without it as the older ones do; what it says afterwards is said under the new name
					c := pick("who", isConn)
					withOpts := rapid.Bool().Draw(rt, "withOptionsField")
					c.name = []byte(fmt.Sprintf("Nova%d-%d", c.idx, len(history)))
					history = append(history, fmt.Sprintf("rename %d to %q (options field: %v)", c.idx, c.name, withOpts))
					fs := []hlref.Field{fld(hlref.FUserName, c.name), fld(hlref.FUserIconID, hlref.BE16(c.idx))}
					if withOpts {
						opts := 0
						if c.refuse {
							opts = 2
						}
						fs = append(fs, fld(hlref.FOptions, hlref.BE16(opts)))
					}
					c.conn.Request(hlref.TranSetClientUserInfo, fs...)
					verify("rename", nil)
				},
				"inviteToChat": func(rt *rapid.T) {
					ch := pickChat("chat", func(ch *c12chat) bool { return true })
					if ch == nil {
						rt.Skip()
					}
					c := pick("who", func(o *c12client) bool { return o.connected && ch.members[o.idx] })
					t := pick("target", func(o *c12client) bool { return o.connected && !ch.members[o.idx] })
					if c == nil || t == nil {
						rt.Skip()
					}
					history = append(history, fmt.Sprintf("invite %d->%d chat%d", c.idx, t.idx, chatIndex(chats, ch)))
					r := c.conn.Request(hlref.TranInviteToChat, fld(hlref.FUserID, hlref.BE16(t.id)), fld(hlref.FChatID, []byte(ch.id)))
					exp := map[int][]string{}
					if c.open {
						if !okReply(r) {
							fail("invite-to-chat with open-chat privilege refused")
						}
						ch.invited[t.idx] = true
						exp[t.idx] = append(exp[t.idx], fmt.Sprintf("113 chat=%x from=%x name=%q", ch.id, hlref.BE16(c.id), c.name))
					} else if r == nil || r.Err == 0 {
						fail("invite-to-chat without open-chat privilege not refused")
					}
					verify("invite to chat", exp)
				},
				"inviteByNonMember": func(rt *rapid.T) {
					// somebody who is not in the chat (left it, declined, was only invited, or just knows the id) sends an
					// invitation for it.  Whether the invitation is forwarded is not what the property constrains; sending it
					// does not make the sender a member: the steps that follow verify that lines still reach exactly the members
					ch := pickChat("chat", func(ch *c12chat) bool { return true })
					if ch == nil {
						rt.Skip()
					}
					c := pick("who", func(o *c12client) bool { return o.connected && !ch.members[o.idx] })
					if c == nil {
						rt.Skip()
					}
					t := pick("target", func(o *c12client) bool { return o.connected && !ch.members[o.idx] && o != c })
					if t == nil {
						rt.Skip()
					}
					history = append(history, fmt.Sprintf("invite-by-non-member %d->%d chat%d", c.idx, t.idx, chatIndex(chats, ch)))
					c.conn.Request(hlref.TranInviteToChat, fld(hlref.FUserID, hlref.BE16(t.id)), fld(hlref.FChatID, []byte(ch.id)))
					want := fmt.Sprintf("113 chat=%x from=%x name=%q", ch.id, hlref.BE16(c.id), c.name)
					for _, tr := range t.conn.TakeInbox() {
						if !chatRelevant(tr) {
							continue
						}
						if chatNorm(tr) != want {
							fail("invite by a non-member: the target (client %d) received %s", t.idx, chatNorm(tr))
						}
						ch.invited[t.idx] = true
					}
					verify("invite by a non-member", nil)
				},
				"join": func(rt *rapid.T) {
					ch := pickChat("chat", func(ch *c12chat) bool { return true })
					if ch == nil {
						rt.Skip()
					}
					c := pick("who", func(o *c12client) bool { return o.connected && ch.invited[o.idx] && !ch.members[o.idx] })
					if c == nil {
						rt.Skip()
					}
					history = append(history, fmt.Sprintf("join %d chat%d", c.idx, chatIndex(chats, ch)))
					exp := memberLines(ch, fmt.Sprintf("117 chat=%x user=%x name=%q", ch.id, hlref.BE16(c.id), c.name))
					r := c.conn.Request(hlref.TranJoinChat, fld(hlref.FChatID, []byte(ch.id)))
					if !okReply(r) {
						fail("join refused")
					}
					ch.members[c.idx] = true
					delete(ch.invited, c.idx)
					verify("join", exp)
				},
				"leave": func(rt *rapid.T) {
					ch := pickChat("chat", func(ch *c12chat) bool { return len(ch.members) > 0 })
					if ch == nil {
						rt.Skip()
					}
					c := pick("who", func(o *c12client) bool { return o.connected && ch.members[o.idx] })
					if c == nil {
						rt.Skip()
					}
					history = append(history, fmt.Sprintf("leave %d chat%d", c.idx, chatIndex(chats, ch)))
					c.conn.Request(hlref.TranLeaveChat, fld(hlref.FChatID, []byte(ch.id)))
					delete(ch.members, c.idx)
					verify("leave", memberLines(ch, fmt.Sprintf("118 chat=%x user=%x", ch.id, hlref.BE16(c.id))))
				},
				"setAccess": func(rt *rapid.T) {
					// an administrator edits an account's chat privileges while its sessions are connected
					b := 2 * rapid.IntRange(0, (nacc-1)/2).Draw(rt, "account")
					read, send, open := rapid.Bool().Draw(rt, "read"), rapid.Bool().Draw(rt, "send"), rapid.Bool().Draw(rt, "open")
					a := hlref.AccessOf(hlref.PrivAnyName)
					if read {
						a.Set(hlref.PrivReadChat)
					}
					if send {
						a.Set(hlref.PrivSendChat)
					}
					if open {
						a.Set(hlref.PrivOpenChat)
					}
					history = append(history, fmt.Sprintf("set-access u%d read=%v send=%v open=%v", b, read, send, open))
					if r := editor.Request(hlref.TranSetUser, fld(hlref.FUserLogin, hlref.Obfuscate([]byte(fmt.Sprintf("u%d", b)))), sfld(hlref.FUserName, fmt.Sprintf("U%d", b)), fld(hlref.FUserAccess, a[:]), fld(hlref.FUserPassword, []byte{0})); !okReply(r) {
						fail("harness: set-user refused")
					}
					editor.TakeInbox()
					for _, c := range clients {
						if c.login == fmt.Sprintf("u%d", b) {
							c.read, c.send, c.open = read, send, open
						}
					}
					verify("set-access", nil)
				},
				"leaveNotAMember": func(rt *rapid.T) {
					// a leave request from someone who is not in the chat (never was, only invited, or left already):
					// whatever the server tells the members about it, the membership must not change - the steps that
					// follow verify that every line still reaches exactly the members
					ch := pickChat("chat", func(ch *c12chat) bool { return len(ch.members) > 0 })
					if ch == nil {
						rt.Skip()
					}
					c := pick("who", func(o *c12client) bool { return o.connected && !ch.members[o.idx] })
					if c == nil {
						rt.Skip()
					}
					history = append(history, fmt.Sprintf("leave-not-a-member %d chat%d (%d members)", c.idx, chatIndex(chats, ch), len(ch.members)))
					c.conn.Request(hlref.TranLeaveChat, fld(hlref.FChatID, []byte(ch.id)))
					for _, o := range connected() {
						n := 0
						for _, t := range o.conn.TakeInbox() {
							if chatRelevant(t) {
								id, _ := t.Get(hlref.FChatID)
								if !ch.members[o.idx] || t.Type != hlref.TranNotifyChatDeleteUser || string(id) != ch.id {
									fail("leave by non-member %d of chat%d: client %d (member: %v) received %s", c.idx, chatIndex(chats, ch), o.idx, ch.members[o.idx], chatNorm(t))
								}
								n++
							}
						}
						if n > 1 {
							fail("leave by non-member %d of chat%d: client %d received %d notices", c.idx, chatIndex(chats, ch), o.idx, n)
						}
					}
					// the very next thing: a line by a member must reach all members
					var sender *c12client
					for _, o := range connected() {
						if ch.members[o.idx] && o.send {
							sender = o
							break
						}
					}
					if sender != nil {
						msg := []byte(fmt.Sprintf("after-foreign-leave-%d", len(history)))
						sender.conn.Request(hlref.TranChatSend, fld(hlref.FData, msg), fld(hlref.FChatID, []byte(ch.id)))
						verify("line after a leave by a non-member", memberLines(ch, fmt.Sprintf("106 chat=%x text=%q", ch.id, chatLine(sender.name, msg, false))))
					}
				},
				"decline": func(rt *rapid.T) {
					ch := pickChat("chat", func(ch *c12chat) bool { return true })
					if ch == nil {
						rt.Skip()
					}
					c := pick("who", func(o *c12client) bool { return o.connected && ch.invited[o.idx] && !ch.members[o.idx] })
					if c == nil {
						rt.Skip()
					}
					history = append(history, fmt.Sprintf("decline %d chat%d", c.idx, chatIndex(chats, ch)))
					c.conn.Request(hlref.TranRejectChatInvite, fld(hlref.FChatID, []byte(ch.id)))
					delete(ch.invited, c.idx)
					// only the audience is asserted for a decline (members, once each), not the wording
					aud := map[int]int{}
					for m := range ch.members {
						if clients[m].connected {
							aud[m] = 1
						}
					}
					for _, o := range connected() {
						n := 0
						for _, t := range o.conn.TakeInbox() {
							if chatRelevant(t) {
								id, _ := t.Get(hlref.FChatID)
								if t.Type != hlref.TranChatMsg || string(id) != ch.id {
									fail("decline: client %d received an unrelated %s", o.idx, chatNorm(t))
								}
								// (the wording is the server's; it names the user who declined, byte for byte)
								if d, _ := t.Get(hlref.FData); !bytes.Contains(d, c.name) {
									fail("decline of chat%d by client %d (name %q): the notice to client %d does not carry that name: %q", chatIndex(chats, ch), c.idx, c.name, o.idx, d)
								}
								n++
							}
						}
						if n != aud[o.idx] {
							fail("decline of chat%d by client %d: client %d received %d notices, expected %d", chatIndex(chats, ch), c.idx, o.idx, n, aud[o.idx])
						}
					}
					if len(aud) > 0 && len(aud) < len(connected()) {
						strictSubset = true
					}
				},
				"subject": func(rt *rapid.T) {
					ch := pickChat("chat", func(ch *c12chat) bool { return len(ch.members) > 0 })
					if ch == nil {
						rt.Skip()
					}
					c := pick("who", func(o *c12client) bool { return o.connected && ch.members[o.idx] })
					if c == nil {
						rt.Skip()
					}
					subj := genBytes(rt, "subject", rapid.IntRange(0, 60).Draw(rt, "subjlen"))
					history = append(history, fmt.Sprintf("subject %d chat%d", c.idx, chatIndex(chats, ch)))
					c.conn.Request(hlref.TranSetChatSubject, fld(hlref.FChatID, []byte(ch.id)), fld(hlref.FChatSubject, subj))
					verify("set subject", memberLines(ch, fmt.Sprintf("119 chat=%x subject=%q", ch.id, subj)))
				},
				"unknownChat": func(rt *rapid.T) {
					// a chat request naming a chat the server does not know (stale or invented id): refused one way or another
					// - the requester may even be dropped - but nobody else is affected, now or later
					if len(connected()) <= 2 {
						rt.Skip()
					}
					c := pick("who", isConn)
					id := genBytes(rt, "chatid", 4)
					if bytes.Equal(id, []byte{0, 0, 0, 0}) {
						rt.Skip() // chat id 0 is the public chat, not an unknown one
					}
					for _, ch := range chats {
						if ch.id == string(id) {
							rt.Skip()
						}
					}
					kind := rapid.SampledFrom([]string{"subject", "subject", "send", "join", "leave", "decline"}).Draw(rt, "kind") // (an invitation is not among the deliveries the property constrains)
					history = append(history, fmt.Sprintf("unknown-chat %s by %d", kind, c.idx))
					cid := fld(hlref.FChatID, id)
					switch kind {
					case "subject":
						c.conn.Request(hlref.TranSetChatSubject, cid, sfld(hlref.FChatSubject, "s"))
					case "send":
						c.conn.Request(hlref.TranChatSend, cid, sfld(hlref.FData, "into the void"))
					case "join":
						c.conn.Request(hlref.TranJoinChat, cid)
					case "leave":
						c.conn.Request(hlref.TranLeaveChat, cid)
					case "decline":
						c.conn.Request(hlref.TranRejectChatInvite, cid)
					}
					settle(0)
					if c.conn.EOF() {
						c.connected = false
						for _, ch := range chats {
							delete(ch.members, c.idx)
							delete(ch.invited, c.idx)
						}
					}
					verify("request naming an unknown chat", nil)
				},
				"burst": func(rt *rapid.T) {
					// several members of one private chat act at the same instant (their handlers run concurrently):
					// lines sent by 2+ members, optionally while another member leaves / an invited user joins
					ch := pickChat("chat", func(ch *c12chat) bool {
						n := 0
						for m := range ch.members {
							if clients[m].connected {
								n++
							}
						}
						return n >= 3
					})
					if ch == nil {
						rt.Skip()
					}
					var mem []*c12client
					for _, c := range clients {
						if c.connected && ch.members[c.idx] {
							mem = append(mem, c)
						}
					}
					var leaver, joiner *c12client
					if rapid.Bool().Draw(rt, "withLeave") {
						leaver = mem[rapid.IntRange(0, len(mem)-1).Draw(rt, "leaver")]
					}
					if rapid.Bool().Draw(rt, "withJoin") {
						joiner = pick("joiner", func(o *c12client) bool { return o.connected && ch.invited[o.idx] && !ch.members[o.idx] })
					}
					type line struct {
						from *c12client
						text string
					}
					var lines []line
					for _, c := range mem {
						if c == leaver || !c.send {
							continue
						}
						k := rapid.IntRange(0, 2).Draw(rt, fmt.Sprintf("nlines%d", c.idx))
						for i := 0; i < k; i++ {
							msg := []byte(fmt.Sprintf("burst %d-%d-%d", len(history), c.idx, i))
							lines = append(lines, line{c, fmt.Sprintf("106 chat=%x text=%q", ch.id, chatLine(c.name, msg, false))})
							c.conn.SendAsync(hlref.Tran{Type: hlref.TranChatSend, ID: c.conn.NewID(), Fields: []hlref.Field{fld(hlref.FData, msg), fld(hlref.FChatID, []byte(ch.id))}}.Encode())
						}
					}
					if len(lines) < 2 && leaver == nil && joiner == nil {
						settle(0)
						drain()
						rt.Skip()
					}
					if leaver != nil {
						leaver.conn.SendAsync(hlref.Tran{Type: hlref.TranLeaveChat, ID: leaver.conn.NewID(), Fields: []hlref.Field{fld(hlref.FChatID, []byte(ch.id))}}.Encode())
					}
					if joiner != nil {
						joiner.conn.SendAsync(hlref.Tran{Type: hlref.TranJoinChat, ID: joiner.conn.NewID(), Fields: []hlref.Field{fld(hlref.FChatID, []byte(ch.id))}}.Encode())
					}
					history = append(history, fmt.Sprintf("burst chat%d: %d lines at once, leaver=%v joiner=%v", chatIndex(chats, ch), len(lines), leaver != nil, joiner != nil))
					settle(0)
					for _, o := range connected() {
						got := map[string]int{}
						for _, t := range o.conn.TakeInbox() {
							if chatRelevant(t) {
								got[chatNorm(t)]++
							}
						}
						stable := ch.members[o.idx] && o != leaver
						for _, l := range lines {
							n := got[l.text]
							delete(got, l.text)
							switch {
							case stable && n != 1:
								fail("burst: member %d of chat%d received the line %q %d times (several members sent at once, leaver=%v joiner=%v)", o.idx, chatIndex(chats, ch), l.text, n, leaver != nil, joiner != nil)
							case !stable && o != leaver && o != joiner && n != 0:
								fail("burst: client %d is not a member of chat%d but received %q", o.idx, chatIndex(chats, ch), l.text)
							case n > 1:
								fail("burst: client %d received the line %q %d times", o.idx, l.text, n)
							}
						}
						for k, n := range got {
							// join / leave notices: at most once each, and only to members (or the joining / leaving user racing with them)
							if n > 1 || (!ch.members[o.idx] && o != joiner) {
								fail("burst: client %d received %q %d times", o.idx, k, n)
							}
						}
					}
					if leaver != nil {
						delete(ch.members, leaver.idx)
					}
					if joiner != nil {
						ch.members[joiner.idx] = true
						delete(ch.invited, joiner.idx)
					}
					strictSubset = true
				},
				"privateSend": func(rt *rapid.T) {
					ch := pickChat("chat", func(ch *c12chat) bool { return len(ch.members) > 0 })
					if ch == nil {
						rt.Skip()
					}
					c := pick("who", func(o *c12client) bool { return o.connected && ch.members[o.idx] })
					if c == nil {
						rt.Skip()
					}
					msg := genMsg("msg")
					emote := rapid.IntRange(0, 3).Draw(rt, "emote") == 0
					fs := []hlref.Field{fld(hlref.FData, msg), fld(hlref.FChatID, []byte(ch.id))}
					if emote {
						fs = append(fs, fld(hlref.FChatOptions, hlref.BE16(1)))
					}
					history = append(history, fmt.Sprintf("private %d chat%d len=%d emote=%v", c.idx, chatIndex(chats, ch), len(msg), emote))
					r := c.conn.Request(hlref.TranChatSend, fs...)
					exp := map[int][]string{}
					if c.send {
						exp = memberLines(ch, fmt.Sprintf("106 chat=%x text=%q", ch.id, chatLine(c.name, msg, emote)))
					} else if r == nil || r.Err == 0 {
						fail("private send without send-chat privilege not refused")
					}
					verify("private send", exp)
				},
			})
		})
		ev.Case(evid.Hash(strings.Join(history, "|"), fmt.Sprint(specs)), strictSubset, fmt.Sprintf("steps:%d", min(len(history)/5*5, 40)))
		if strictSubset && ev.WantSample() {
			ev.Sample(map[string]any{"history": history})
		}
	}
}

func chatIndex(chats []*c12chat, ch *c12chat) int {
	for i, c := range chats {
		if c == ch {
			return i
		}
	}
	return -1
}

func TestC12(t *testing.T) {
	ev := evid.New("C12", "TestC12")
	defer ev.Flush()
	rapid.Check(t, c12prop(ev))
}

// TestC12Burst: one private chat with 6 members; in every round all members but one send
// lines at the same instant while the remaining one leaves the chat (and is re-invited and
// rejoins before the next round).  Every member that stays must receive every line exactly
// once.  This is the concurrent slice of C12's quantifier ("all interleavings ... by any
// number of clients"): the handlers of different connections run at the same time.
func TestC12Burst(t *testing.T) {
	ev := evid.New("C12", "TestC12Burst")
	defer ev.Flush()
	rapid.Check(t, func(rt *rapid.T) {
		const n = 6
		rounds := rapid.IntRange(20, 40).Draw(rt, "rounds")
		sizes := rapid.SliceOfN(rapid.SampledFrom([]int{10, 500, 4000, 8100}), rounds, rounds).Draw(rt, "sizes")
		leavers := rapid.SliceOfN(rapid.IntRange(1, n-1), rounds, rounds).Draw(rt, "leavers")
		var accounts []hlsim.AccountSpec
		for i := 0; i < n; i++ {
			accounts = append(accounts, acct(fmt.Sprintf("u%d", i), "U", "pw", hlref.AccessOf(hlref.PrivAnyName, hlref.PrivReadChat, hlref.PrivSendChat, hlref.PrivOpenChat)))
		}
		inWorld(rt, hlsim.Options{Agreement: "a", Accounts: accounts}, func(rt *rapid.T, w *hlsim.World) {
			var cs []*hlsim.Conn
			for i := 0; i < n; i++ {
				cs = append(cs, loginAs(rt, w, fmt.Sprintf("10.12.9.%d:1", i+1), fmt.Sprintf("u%d", i), "pw", fmt.Sprintf("member%d", i)))
			}
			r := cs[0].Request(hlref.TranInviteNewChat, fld(hlref.FUserID, hlref.BE16(2)))
			if !okReply(r) {
				rt.Fatalf("harness: invite")
			}
			chat, _ := r.Get(hlref.FChatID)
			for i := 1; i < n; i++ {
				if i > 1 && !okReply(cs[0].Request(hlref.TranInviteToChat, fld(hlref.FUserID, hlref.BE16(i+1)), fld(hlref.FChatID, chat))) {
					rt.Fatalf("harness: invite %d", i)
				}
				if !okReply(cs[i].Request(hlref.TranJoinChat, fld(hlref.FChatID, chat))) {
					rt.Fatalf("harness: join %d", i)
				}
			}
			for _, c := range cs {
				c.TakeInbox()
			}
			for round := 0; round < rounds; round++ {
				L := leavers[round]
				var texts []string
				for i := 0; i < n; i++ {
					if i == L {
						continue
					}
					for k := 0; k < 2; k++ {
						msg := append([]byte(fmt.Sprintf("r%d m%d l%d ", round, i, k)), bytes.Repeat([]byte{'x'}, sizes[round])...)
						texts = append(texts, string(chatLine([]byte(fmt.Sprintf("member%d", i)), msg, false)))
						cs[i].SendAsync(hlref.Tran{Type: hlref.TranChatSend, ID: cs[i].NewID(), Fields: []hlref.Field{fld(hlref.FData, msg), fld(hlref.FChatID, chat)}}.Encode())
					}
				}
				cs[L].SendAsync(hlref.Tran{Type: hlref.TranLeaveChat, ID: cs[L].NewID(), Fields: []hlref.Field{fld(hlref.FChatID, chat)}}.Encode())
				settle(0)
				for i, c := range cs {
					got := map[string]int{}
					for _, tr := range c.TakeInbox() {
						if tr.Type == hlref.TranChatMsg {
							d, _ := tr.Get(hlref.FData)
							got[string(d)]++
						}
					}
					for _, tx := range texts {
						if i != L && got[tx] != 1 {
							rt.Fatalf("round %d: %d members sent at the same instant while member %d left: member %d received the line %q... %d times", round, n-1, L, i, tx[:40], got[tx])
						}
						if i == L && got[tx] > 1 {
							rt.Fatalf("round %d: the leaving member received a line %d times", round, got[tx])
						}
					}
				}
				// the member that left comes back
				if !okReply(cs[0].Request(hlref.TranInviteToChat, fld(hlref.FUserID, hlref.BE16(L+1)), fld(hlref.FChatID, chat))) || !okReply(cs[L].Request(hlref.TranJoinChat, fld(hlref.FChatID, chat))) {
					rt.Fatalf("harness: rejoin")
				}
				for _, c := range cs {
					c.TakeInbox()
				}
			}
		})
		ev.Case(evid.Hash("burst", fmt.Sprint(sizes), fmt.Sprint(leavers)), true, "burst-rounds")
		ev.Label("burst_rounds", rounds)
		if ev.WantSample() {
			ev.Sample(map[string]any{"engine": "bubble, concurrent handlers", "members": n, "rounds": rounds, "line_sizes": sizes[:min(len(sizes), 8)], "leaving_member_per_round": leavers[:min(len(leavers), 8)]})
		}
	})
}
