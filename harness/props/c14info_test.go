package props

// C14, two features of two users at the same time: one user's transfer table changes (downloads are
// granted) while another user asks for that user's client info, which lists those transfers.  Every
// request of both is answered exactly once, in whole transactions.

import (
	"fmt"
	"os"
	"path/filepath"
	"testing"
	"time"

	"pgregory.net/rapid"

	"verif/harness/evid"
	"verif/harness/hlref"
	"verif/harness/hlsim"
)

func TestC14InfoTransfers(t *testing.T) {
	ev := evid.New("C14", "TestC14InfoTransfers")
	defer ev.Flush()
	rapid.Check(t, func(rt *rapid.T) {
		rounds := rapid.IntRange(2, 3).Draw(rt, "rounds")
		n := rapid.SampledFrom([]int{40, 120}).Draw(rt, "requestsPerRound")
		askers := rapid.IntRange(1, 3).Draw(rt, "askers")
		inWorld(rt, hlsim.Options{Agreement: "a", Accounts: []hlsim.AccountSpec{acct("admin", "Admin", "adminpw", allAccess)}}, func(rt *rapid.T, w *hlsim.World) {
			must(os.WriteFile(filepath.Join(w.FileRoot, "f.txt"), []byte("file"), 0o644))
			a := loginAs(rt, w, "10.14.3.1:1", "admin", "adminpw", "downloader")
			var bs []*hlsim.Conn
			for i := 0; i < askers; i++ {
				bs = append(bs, loginAs(rt, w, fmt.Sprintf("10.14.3.%d:1", i+2), "admin", "adminpw", fmt.Sprintf("asker%d", i)))
			}
			id := uint32(100)
			for r := 0; r < rounds; r++ {
				var da []byte
				db := make([][]byte, askers)
				sentA, sentB := map[uint32]bool{}, make([]map[uint32]bool, askers)
				for k := 0; k < n; k++ {
					id++
					sentA[id] = true
					da = append(da, hlref.Tran{Type: hlref.TranDownloadFile, ID: id, Fields: []hlref.Field{sfld(hlref.FFileName, "f.txt")}}.Encode()...)
					for i := range bs {
						if sentB[i] == nil {
							sentB[i] = map[uint32]bool{}
						}
						id++
						sentB[i][id] = true
						db[i] = append(db[i], hlref.Tran{Type: hlref.TranGetClientInfoText, ID: id, Fields: []hlref.Field{fld(hlref.FUserID, hlref.BE16(1))}}.Encode()...)
					}
				}
				a.SendAsync(da)
				for i, b := range bs {
					b.SendAsync(db[i])
				}
				settle(10 * time.Second)
				check := func(who string, c *hlsim.Conn, sent map[uint32]bool) {
					ans, e := c14check(0, c.Rest(), sent)
					if e != "" {
						rt.Fatalf("round %d, %s: %s", r, who, e)
					}
					for rid := range sent {
						if ans[rid] != 1 {
							rt.Fatalf("round %d: request %d of the %s got %d replies while %d download requests of one user and %d client-info requests about that user by each of %d others were in flight", r, rid, who, ans[rid], n, n, askers)
						}
					}
				}
				check("downloader", a, sentA)
				for i, b := range bs {
					check(fmt.Sprintf("asker %d", i), b, sentB[i])
				}
			}
		})
		ev.Case(evid.Hash("infoxfer", rounds, n, askers), true, "info-vs-transfers")
	})
}
