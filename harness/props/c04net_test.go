package props

// C04 through the production listeners (engine E4): what a peer whose login is refused is sent
// before the close - and that the close comes.  The bubble engine hands connections to the
// handler directly; what the accept loop does with a connection whose handler returns is only
// visible here.  Refusals: wrong password, unknown login, login from an address that is banned.

import (
	"fmt"
	"net"
	"os"
	"testing"
	"time"

	"verif/harness/evid"
	"verif/harness/hlref"
	"verif/harness/hlsim"
)

func TestC04Net(t *testing.T) {
	ev := evid.New("C04", "TestC04Net")
	defer ev.Flush()
	seed := uint64(1)
	fmt.Sscan(os.Getenv("VERIF_SEED"), &seed)
	plain := hlsim.AccountYAML(hlsim.AccountSpec{Login: "plain", Name: "Plain", Password: "ppw", Access: hlref.AccessOf(hlref.PrivReadChat)})
	port, _, childLog, stop := startChildServer(t, 24, map[string][]byte{"Users/plain.yaml": plain})
	defer stop()
	src := 10 + int(seed%50)
	next := func() string { src++; return fmt.Sprintf("127.0.4.%d", src) }
	// a banned address: the administrator kicks a user with a permanent ban
	admin, err := tcpLogin(next(), port, "good", "gpw", "admin")
	if err != nil {
		t.Fatalf("VERIF-INCONCLUSIVE administrator cannot log in: %v\n%s", err, childLog())
	}
	defer admin.c.Close()
	bannedAddr := next()
	victim, err := tcpLogin(bannedAddr, port, "plain", "ppw", "victim")
	if err != nil {
		t.Fatalf("VERIF-INCONCLUSIVE second user cannot log in: %v\n%s", err, childLog())
	}
	admin.startReader()
	if r, err := admin.request(hlref.TranDisconnectUser, 60*time.Second, hlref.F(hlref.FUserID, hlref.BE16(2)), hlref.F(hlref.FOptions, hlref.BE16(2))); err != nil || r.Err != 0 {
		t.Fatalf("VERIF-INCONCLUSIVE disconnect request not acknowledged: %v", err)
	}
	victim.c.Close()
	time.Sleep(2100 * time.Millisecond)
	type attempt struct{ what, from, login, pw string }
	for i, a := range []attempt{
		{"a wrong password", next(), "plain", "not the password"},
		{"an unknown login", next(), "nobody", "x"},
		{"a correct login from a banned address", bannedAddr, "plain", "ppw"},
		{"a wrong password (again, another address)", next(), "good", ""},
	} {
		c, err := dialFrom(a.from, port, 10*time.Second)
		if err != nil {
			t.Fatalf("VERIF-INCONCLUSIVE cannot connect from %s: %v", a.from, err)
		}
		tc := &tcpClient{c: c}
		c.Write(hlref.Handshake(1, 2))
		c.Write(hlref.Tran{Type: hlref.TranLogin, ID: 7, Fields: hlsim.LoginOpts{Login: a.login, Password: a.pw, Name: []byte("x"), Icon: 1}.Fields()}.Encode())
		// everything the server sends until it closes the connection; the close must come
		c.SetReadDeadline(time.Now().Add(30 * time.Second))
		var rx []byte
		buf := make([]byte, 4096)
		closed := false
		for {
			n, err := c.Read(buf)
			rx = append(rx, buf[:n]...)
			if err != nil {
				if ne, ok := err.(net.Error); !ok || !ne.Timeout() {
					closed = true
				}
				break
			}
		}
		c.Close()
		_ = tc
		if !closed {
			t.Fatalf("VERIF-VIOLATION C04 a peer at %s sent %s: 30 s later the server has not closed the connection (it sent %d bytes)", a.from, a.what, len(rx))
		}
		// before the close: the handshake reply and exactly one transaction (the error reply or the ban notice), nothing else
		if len(rx) < 8 {
			t.Fatalf("VERIF-VIOLATION C04 a peer at %s sent %s and received %d bytes before the close", a.from, a.what, len(rx))
		}
		rest := rx[8:]
		n := 0
		for len(rest) > 0 {
			tr, used, err := hlref.DecodeTran(rest)
			if err != nil {
				t.Fatalf("VERIF-VIOLATION C04 a peer at %s sent %s: the bytes before the close are not whole transactions (%v)", a.from, a.what, err)
			}
			rest = rest[used:]
			n++
			if !(tr.IsReply == 1 && tr.Err != 0) && tr.Type != hlref.TranServerMsg {
				t.Fatalf("VERIF-VIOLATION C04 a peer at %s sent %s and was sent a transaction of type %d (reply=%d, error=%d) before the close", a.from, a.what, tr.Type, tr.IsReply, tr.Err)
			}
		}
		if n != 1 {
			t.Fatalf("VERIF-VIOLATION C04 a peer at %s sent %s and was sent %d transactions before the close (one error reply or ban notice is all it may see)", a.from, a.what, n)
		}
		ev.Case(evid.Hash("c04net", i, seed), true, "refusal:"+a.what)
	}
	ev.Sample(map[string]any{"engine": "child process over loopback", "refusals": 4})
}
