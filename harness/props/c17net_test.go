package props

// C17 through the production listeners (engine E4): the address a ban is recorded under and the address the door
// checks both come from the accepted socket.  A user from 127.0.0.3 is kicked with a ban by an administrator from
// 127.0.0.2: afterwards 127.0.0.3 is refused, 127.0.0.4 is admitted, and the ban file names 127.0.0.3.

import (
	"fmt"
	"os"
	"path/filepath"
	"strings"
	"testing"
	"time"

	"verif/harness/evid"
	"verif/harness/hlref"
	"verif/harness/hlsim"
)

func TestC17Net(t *testing.T) {
	ev := evid.New("C17", "TestC17Net")
	defer ev.Flush()
	seed := uint64(1)
	fmt.Sscan(os.Getenv("VERIF_SEED"), &seed)
	option := 1 + int(seed%2)
	plain := hlsim.AccountYAML(hlsim.AccountSpec{Login: "plain", Name: "Plain", Password: "ppw", Access: hlref.AccessOf(hlref.PrivReadChat, hlref.PrivDownloadFile)})
	port, cfg, childLog, stop := startChildServer(t, 12, map[string][]byte{"Users/plain.yaml": plain})
	defer stop()
	admin, err := tcpLogin("127.0.0.2", port, "good", "gpw", "admin")
	if err != nil {
		t.Fatalf("VERIF-INCONCLUSIVE administrator cannot log in: %v\n%s", err, childLog())
	}
	defer admin.c.Close()
	victim, err := tcpLogin("127.0.0.3", port, "plain", "ppw", "victim")
	if err != nil {
		t.Fatalf("VERIF-INCONCLUSIVE second user cannot log in: %v\n%s", err, childLog())
	}
	defer victim.c.Close()
	admin.startReader()
	r, err := admin.request(hlref.TranDisconnectUser, 60*time.Second, hlref.F(hlref.FUserID, hlref.BE16(2)), hlref.F(hlref.FOptions, hlref.BE16(option)))
	if err != nil || r.Err != 0 {
		t.Fatalf("VERIF-INCONCLUSIVE disconnect request not acknowledged: %v", err)
	}
	// the kicked user's connection is closed by the server
	victim.c.SetReadDeadline(time.Now().Add(60 * time.Second))
	buf := make([]byte, 4096)
	for {
		if _, err := victim.c.Read(buf); err != nil {
			if ne, ok := err.(interface{ Timeout() bool }); ok && ne.Timeout() {
				t.Fatalf("VERIF-VIOLATION C17 the kicked user (127.0.0.3) is still connected 60 s after the acknowledged disconnect request")
			}
			break
		}
	}
	time.Sleep(2100 * time.Millisecond) // the per-address connection rate limit
	b, _ := os.ReadFile(filepath.Join(cfg, "Banlist.yaml"))
	if !strings.Contains(string(b), "127.0.0.3") {
		t.Fatalf("VERIF-VIOLATION C17 a user from 127.0.0.3 was kicked with ban option %d by an administrator from 127.0.0.2 (server at 127.0.0.1): the ban file does not name 127.0.0.3:\n%s", option, b)
	}
	if again, err := tcpLogin("127.0.0.3", port, "plain", "ppw", "victim again"); err == nil {
		again.c.Close()
		t.Fatalf("VERIF-VIOLATION C17 the banned address 127.0.0.3 (option %d) logged in again through the real listener", option)
	}
	by, err := tcpLogin("127.0.0.4", port, "plain", "ppw", "bystander")
	if err != nil {
		t.Fatalf("VERIF-VIOLATION C17 after 127.0.0.3 was banned, a user from 127.0.0.4 cannot log in: %v\nban file:\n%s", err, b)
	}
	by.c.Close()
	ev.Case(evid.Hash("c17net", option), true, "real-listener")
	ev.Sample(map[string]any{"engine": "child process over loopback", "ban_option": option, "administrator": "127.0.0.2", "kicked": "127.0.0.3", "bystander": "127.0.0.4"})
}
