package props

// C05, effects reached through a request that is governed by another privilege: a news post whose
// path names something that does not exist.  Whatever the server answers (the unchanged server
// hangs up on the requester), a requester that may post but may create neither categories nor
// bundles must not have brought a news grouping into existence - in memory or in the news file.

import (
	"fmt"
	"os"
	"path/filepath"
	"strings"
	"testing"

	"pgregory.net/rapid"

	"verif/harness/evid"
	"verif/harness/hlref"
	"verif/harness/hlsim"
)

func TestC05GhostCategory(t *testing.T) {
	ev := evid.New("C05", "TestC05GhostCategory")
	defer ev.Flush()
	rapid.Check(t, func(rt *rapid.T) {
		bits := genAccess(rt, "bits").Defined()
		bits.Set(hlref.PrivNewsPostArt)
		mayCreate := rapid.IntRange(0, 3).Draw(rt, "mayCreate") == 0
		if !mayCreate {
			bits.Clear(hlref.PrivNewsCreateCat)
			bits.Clear(hlref.PrivNewsCreateFldr)
		}
		where := rapid.SampledFrom([]string{"top", "in-bundle", "in-category", "deep"}).Draw(rt, "where")
		parent := rapid.SampledFrom([]int{0, 0, 1, 7}).Draw(rt, "parentArticle")
		news := "Categories:\n    Cat:\n        Type: [0, 3]\n        Name: Cat\n        Articles: {}\n        SubCats: {}\n    Bun:\n        Type: [0, 2]\n        Name: Bun\n        Articles: {}\n        SubCats:\n            Inner:\n                Type: [0, 3]\n                Name: Inner\n                Articles: {}\n                SubCats: {}\n"
		opt := hlsim.Options{Agreement: "a", NewsYAML: news, Accounts: []hlsim.AccountSpec{acct("admin", "Admin", "adminpw", allAccess), {Login: "req", Name: "Req", Password: "reqpw", Access: bits}}}
		inWorld(rt, opt, func(rt *rapid.T, w *hlsim.World) {
			admin := loginAs(rt, w, "10.5.9.1:1", "admin", "adminpw", "admin")
			req := loginAs(rt, w, "10.5.9.2:1", "req", "reqpw", "req")
			path := map[string][]string{"top": {"Ghost"}, "in-bundle": {"Bun", "Ghost"}, "in-category": {"Cat", "Ghost"}, "deep": {"Bun", "Inner", "Ghost"}}[where]
			req.Request(hlref.TranPostNewsArt, fld(hlref.FNewsPath, hlref.EncodeNewsPath(path)), fld(hlref.FNewsArtID, hlref.BE32(parent)),
				sfld(hlref.FNewsArtTitle, "posted into nothing"), sfld(hlref.FNewsArtDataFlav, "text/plain"), sfld(hlref.FNewsArtData, "body"))
			settle(0)
			if mayCreate {
				return // a requester that may create groupings: nothing is claimed about what the odd request does
			}
			ctx := fmt.Sprintf("requester with post-article but neither create-category nor create-bundle posted to the missing news path %v (parent article %d)", path, parent)
			b, _ := os.ReadFile(filepath.Join(w.Cfg, "ThreadedNews.yaml"))
			if strings.Contains(string(b), "Ghost") || strings.Contains(string(b), "posted into nothing") {
				rt.Fatalf("%s: the news file now holds it:\n%s", ctx, b)
			}
			// the listing of the parent, as an administrator sees it
			fs := []hlref.Field{}
			if len(path) > 1 {
				fs = append(fs, fld(hlref.FNewsPath, hlref.EncodeNewsPath(path[:len(path)-1])))
			}
			r := admin.Request(hlref.TranGetNewsCatNameList, fs...)
			if r == nil {
				rt.Fatalf("%s: an administrator's category listing is no longer answered", ctx)
			}
			for _, d := range r.GetAll(hlref.FNewsCatListData15) {
				if strings.Contains(string(d), "Ghost") {
					rt.Fatalf("%s: the category listing of %v now shows a grouping of that name", ctx, path[:len(path)-1])
				}
			}
		})
		ev.Case(evid.Hash("ghost", bits[:], where, parent), !mayCreate, "ghost:"+where)
	})
}
