package props

// C20 through the production main program (cmd/mobius-hotline-server), started the way its
// README starts it: the configuration directory is populated by -init on the first start, the
// administrator makes changes over the protocol, the process is killed (SIGKILL) at the instant
// the last acknowledgement is held, and the server is started again - with the same command
// line (-init on every start, as the Docker command line in the README has it) or without
// -init.  Whatever the start-up path does, every store must load and every acknowledged change
// must still be there; the restarted server is asked through its front door as well.

import (
	"fmt"
	"os"
	"path/filepath"
	"sort"
	"strings"
	"testing"
	"time"

	"github.com/jhalter/mobius/verifhooks"
	"pgregory.net/rapid"

	"verif/harness/evid"
	"verif/harness/hlref"
)

func TestC20Main(t *testing.T) {
	ev := evid.New("C20", "TestC20Main")
	defer ev.Flush()
	bin := filepath.Join(os.Getenv("VERIF_BIN"), "mobius-main")
	if _, err := os.Stat(bin); err != nil {
		t.Fatalf("VERIF-INCONCLUSIVE %s not built", bin)
	}
	caseNo := 0
	rapid.Check(t, func(rt *rapid.T) {
		caseNo++
		initEvery := rapid.Bool().Draw(rt, "initOnEveryStart")
		ops := rapid.SliceOfN(rapid.SampledFrom([]string{"delete-guest", "rename-guest", "edit-guest", "create", "post", "news-cat", "delete-created"}), 1, 4).Draw(rt, "ops")
		m := newMainSrv(rt, t, 12, caseNo)
		defer m.cleanup()
		cfg := m.cfg
		nextSrc := m.nextSrc
		childLog := m.log
		start := m.start
		kill := m.kill
		start(true)
		admin, err := tcpLogin(nextSrc(), m.port, "admin", "admin", "adm")
		if err != nil {
			rt.Fatalf("VERIF-INCONCLUSIVE the administrator of the default configuration cannot log in: %v\n%s", err, childLog())
		}
		admin.startReader()
		// model: accounts (login -> name), board posts, news categories
		accounts := map[string]string{"admin": "admin", "guest": "guest"}
		pw := map[string]string{"admin": "admin", "guest": ""}
		gone := map[string]bool{}
		var posts, cats, done []string
		guest := "guest" // the login the default guest account has now ("" = deleted)
		created := 0
		guestAccess := hlref.AccessOf(hlref.PrivDownloadFile, hlref.PrivReadChat, hlref.PrivSendChat, hlref.PrivNewsReadArt)
		req := func(what string, typ int, fs ...hlref.Field) {
			r, err := admin.request(typ, 20*time.Second, fs...)
			if err != nil || r.Err != 0 {
				rt.Fatalf("VERIF-INCONCLUSIVE %s was not acknowledged: %v %s\n%s", what, err, replySummary(r), childLog())
			}
			done = append(done, what)
		}
		for i, op := range ops {
			switch op {
			case "delete-guest":
				if guest == "" {
					continue
				}
				req("delete account "+guest, hlref.TranDeleteUser, fld(hlref.FUserLogin, hlref.Obfuscate([]byte(guest))))
				delete(accounts, guest)
				gone[guest] = true
				guest = ""
			case "rename-guest":
				if guest == "" {
					continue
				}
				nl := fmt.Sprintf("visitor%d", i)
				req("rename account "+guest+" to "+nl, hlref.TranUpdateUser, fld(hlref.FData, subFields(fld(hlref.FData, hlref.Obfuscate([]byte(guest))), fld(hlref.FUserLogin, hlref.Obfuscate([]byte(nl))),
					sfld(hlref.FUserName, accounts[guest]), fld(hlref.FUserAccess, guestAccess[:]), fld(hlref.FUserPassword, []byte{0}))))
				accounts[nl], pw[nl] = accounts[guest], pw[guest]
				delete(accounts, guest)
				gone[guest] = true
				guest = nl
			case "edit-guest":
				if guest == "" {
					continue
				}
				name := fmt.Sprintf("Guest %d", i)
				req("edit account "+guest, hlref.TranSetUser, fld(hlref.FUserLogin, hlref.Obfuscate([]byte(guest))), sfld(hlref.FUserName, name), fld(hlref.FUserAccess, guestAccess[:]), fld(hlref.FUserPassword, []byte{0}))
				accounts[guest] = name
			case "create":
				created++
				l := fmt.Sprintf("newbie%d", created)
				req("create account "+l, hlref.TranNewUser, fld(hlref.FUserLogin, hlref.Obfuscate([]byte(l))), sfld(hlref.FUserName, "New "+l), fld(hlref.FUserPassword, hlref.Obfuscate([]byte("npw"))), fld(hlref.FUserAccess, guestAccess[:]))
				accounts[l], pw[l] = "New "+l, "npw"
				delete(gone, l)
			case "delete-created":
				l := fmt.Sprintf("newbie%d", created)
				if _, ok := accounts[l]; !ok {
					continue
				}
				req("delete account "+l, hlref.TranDeleteUser, fld(hlref.FUserLogin, hlref.Obfuscate([]byte(l))))
				delete(accounts, l)
				gone[l] = true
			case "post":
				p := fmt.Sprintf("post-%d made before the kill", i)
				req("board post", hlref.TranOldPostNews, sfld(hlref.FData, p))
				posts = append(posts, p)
			case "news-cat":
				c := fmt.Sprintf("Category %d", i)
				req("create news category "+c, hlref.TranNewNewsCat, sfld(hlref.FNewsCatName, c))
				cats = append(cats, c)
			}
		}
		// the process dies at the instant the last acknowledgement is held ...
		kill()
		admin.c.Close()
		// ... and is started again
		start(initEvery)
		ctx := fmt.Sprintf("after [%s], a kill and a restart (with -init: %v)", strings.Join(done, "; "), initEvery)
		am, err := verifhooks.NewYAMLAccountManager(filepath.Join(cfg, "Users"))
		if err != nil {
			rt.Fatalf("%s the account directory does not load: %v", ctx, err)
		}
		var have, want []string
		for _, a := range am.List() {
			have = append(have, a.Login+"="+a.Name)
		}
		for l, n := range accounts {
			want = append(want, l+"="+n)
		}
		sort.Strings(have)
		sort.Strings(want)
		if strings.Join(have, ",") != strings.Join(want, ",") {
			rt.Fatalf("%s the account directory holds %v; the acknowledged changes leave %v", ctx, have, want)
		}
		board, _ := os.ReadFile(filepath.Join(cfg, "MessageBoard.txt"))
		for _, p := range posts {
			if !strings.Contains(string(board), p) {
				rt.Fatalf("%s the message board file lacks the acknowledged post %q", ctx, p)
			}
		}
		news, _ := os.ReadFile(filepath.Join(cfg, "ThreadedNews.yaml"))
		if _, err := verifhooks.NewThreadedNewsYAML(filepath.Join(cfg, "ThreadedNews.yaml")); err != nil {
			rt.Fatalf("%s the news file does not load: %v", ctx, err)
		}
		for _, c := range cats {
			if !strings.Contains(string(news), c) {
				rt.Fatalf("%s the news file lacks the acknowledged category %q", ctx, c)
			}
		}
		// through the front door of the restarted server
		var logins []string
		for l := range accounts {
			logins = append(logins, l)
		}
		for l := range gone {
			logins = append(logins, l)
		}
		sort.Strings(logins)
		for _, l := range logins {
			_, isThere := accounts[l]
			c, err := tcpLogin(nextSrc(), m.port, l, pw[l], "back")
			if c != nil {
				c.c.Close()
			}
			if isThere && err != nil {
				rt.Fatalf("%s the account %q cannot log in at the restarted server: %v", ctx, l, err)
			}
			if !isThere && err == nil {
				rt.Fatalf("%s the login %q, deleted or renamed away before the kill, is accepted by the restarted server", ctx, l)
			}
		}
		ev.Case(evid.Hash("main", initEvery, strings.Join(done, "|")), len(done) > 0, fmt.Sprintf("init-on-restart:%v", initEvery), fmt.Sprintf("changes:%d", len(done)))
		if ev.WantSample() {
			ev.Sample(map[string]any{"engine": "production main program as a child process", "acknowledged_changes": done, "restart_with_init": initEvery})
		}
	})
}
