package props

// C14 — each client receives whole, well-formed, correlated transactions.

import (
	"bytes"
	"fmt"
	"io"
	"os"
	"path/filepath"
	"runtime"
	"sort"
	"strings"
	"sync"
	"testing"
	"testing/synctest"
	"time"

	"pgregory.net/rapid"

	"verif/harness/evid"
	"verif/harness/hlref"
	"verif/harness/hlsim"
)

type c14req struct {
	Client int
	Kind   string
	Tran   hlref.Tran
}

type c14plan struct {
	NClients  int
	Reqs      []c14req // in issue order
	Board     int
	Banner    string // "banner.jpg" or "-": both runs of a plan are configured alike
	Agreement int    // size of the agreement shown to the latecomers
	LateAt    []int  // latecomers: a new connection logs in (and is shown the agreement) right before request LateAt[i] is issued
}

func c14genPlan(rt *rapid.T) c14plan {
	p := c14plan{NClients: rapid.IntRange(3, 8).Draw(rt, "nclients"), Board: rapid.SampledFrom([]int{100, 33000, 60000}).Draw(rt, "board")}
	n := rapid.IntRange(2, 14).Draw(rt, "nreqs")
	p.Agreement = rapid.SampledFrom([]int{1, 1, 33000, 60000}).Draw(rt, "agreement")
	p.Banner = rapid.SampledFrom([]string{"-", "banner.jpg"}).Draw(rt, "banner")
	for i, late := 0, rapid.IntRange(0, 2).Draw(rt, "latecomers"); i < late; i++ {
		p.LateAt = append(p.LateAt, rapid.IntRange(0, n-1).Draw(rt, fmt.Sprintf("lateAt%d", i)))
	}
	id := uint32(1000)
	usedOdd := map[[2]uint32]bool{}
	for i := 0; i < n; i++ {
		id++
		c := rapid.IntRange(0, p.NClients-1).Draw(rt, fmt.Sprintf("c%d", i))
		k := rapid.SampledFrom([]string{"getmsgs", "getmsgs", "biglist", "pm-victim", "pm-victim", "broadcast", "newsget", "newslist", "userlist", "keepalive", "chat", "postboard", "clientinfo", "clientinfo", "invite", "fileinfo", "acct-stale-rename", "acct-create", "acct-create", "acct-delete", "invite-to-chat", "invite-to-chat", "chat-subject", "unknown-chat", "unknown-chat", "kick-unknown"}).Draw(rt, fmt.Sprintf("k%d", i))
		t := hlref.Tran{ID: id}
		// a client may number its requests as it likes: now and then one carries 0, the largest id or one with the top bit
		// set (each at most once per client, so that replies stay attributable)
		if rapid.IntRange(0, 7).Draw(rt, fmt.Sprintf("oddid%d", i)) == 0 {
			odd := rapid.SampledFrom([]uint32{0, 0, 0xFFFFFFFF, 0x80000000}).Draw(rt, fmt.Sprintf("oddidv%d", i))
			if key := [2]uint32{uint32(c), odd}; !usedOdd[key] {
				usedOdd[key] = true
				t.ID = odd
			}
		}
		big := func(label string) []byte {
			return bytes.Repeat([]byte{byte('A' + i%26)}, rapid.SampledFrom([]int{100, 33000, 40000, 60000}).Draw(rt, label))
		}
		switch k {
		case "getmsgs":
			t.Type = hlref.TranGetMsgs
		case "biglist":
			t.Type, t.Fields = hlref.TranGetFileNameList, []hlref.Field{fld(hlref.FFilePath, p1("many"))}
		case "pm-victim":
			t.Type, t.Fields = hlref.TranSendInstantMsg, []hlref.Field{fld(hlref.FUserID, hlref.BE16(1)), fld(hlref.FData, big(fmt.Sprintf("sz%d", i))), fld(hlref.FOptions, hlref.BE16(1))}
		case "broadcast":
			t.Type, t.Fields = hlref.TranUserBroadcast, []hlref.Field{fld(hlref.FData, big(fmt.Sprintf("sz%d", i)))}
		case "newsget":
			t.Type, t.Fields = hlref.TranGetNewsArtData, []hlref.Field{fld(hlref.FNewsPath, p1("Seed")), fld(hlref.FNewsArtID, hlref.BE32(1)), sfld(hlref.FNewsArtDataFlav, "text/plain")}
		case "newslist": // the article list of a category with 300 articles: one field that has grown past 64 KiB
			t.Type, t.Fields = hlref.TranGetNewsArtNameList, []hlref.Field{fld(hlref.FNewsPath, p1("Many"))}
		case "userlist":
			t.Type = hlref.TranGetUserNameList
		case "clientinfo": // a request about another connected user: the answer belongs to the requester
			t.Type, t.Fields = hlref.TranGetClientInfoText, []hlref.Field{fld(hlref.FUserID, hlref.BE16((c+1)%p.NClients+1))}
		case "invite": // answered to the requester, announced to the other user
			t.Type, t.Fields = hlref.TranInviteNewChat, []hlref.Field{fld(hlref.FUserID, hlref.BE16((c+1)%p.NClients+1))}
		case "fileinfo":
			t.Type, t.Fields = hlref.TranGetFileInfo, []hlref.Field{sfld(hlref.FFileName, "many")}
		case "acct-stale-rename": // the batch editor renaming an account that does not exist (any more) to a login that is taken
			t.Type, t.Fields = hlref.TranUpdateUser, []hlref.Field{fld(hlref.FData, hlref.EncodeFields([]hlref.Field{fld(hlref.FData, hlref.Obfuscate([]byte("ghost"))),
				fld(hlref.FUserLogin, hlref.Obfuscate([]byte("admin"))), sfld(hlref.FUserName, "n"), fld(hlref.FUserAccess, make([]byte, 8)), fld(hlref.FUserPassword, []byte{0})}))}
		case "acct-create": // several administrators creating the same login: one wins, each is answered once
			t.Type, t.Fields = hlref.TranUpdateUser, []hlref.Field{fld(hlref.FData, hlref.EncodeFields([]hlref.Field{
				fld(hlref.FUserLogin, hlref.Obfuscate([]byte("dup"))), sfld(hlref.FUserName, "n"), fld(hlref.FUserAccess, make([]byte, 8)), fld(hlref.FUserPassword, hlref.Obfuscate([]byte("p")))}))}
		case "acct-delete":
			t.Type, t.Fields = hlref.TranDeleteUser, []hlref.Field{fld(hlref.FUserLogin, hlref.Obfuscate([]byte("dup")))}
		case "invite-to-chat": // answered to the requester, announced to a third user (the chat id is filled in when the plan runs)
			t.Type, t.Fields = hlref.TranInviteToChat, []hlref.Field{fld(hlref.FUserID, hlref.BE16((c+2)%p.NClients+1)), fld(hlref.FChatID, []byte{0, 0, 0, 0})}
		case "chat-subject":
			t.Type, t.Fields = hlref.TranSetChatSubject, []hlref.Field{fld(hlref.FChatID, []byte{0, 0, 0, 0}), sfld(hlref.FChatSubject, "subject")}
		case "kick-unknown": // a disconnect request naming a user id nobody has (the user just left): sent by the stranger like the unknown-chat kinds
			fs := []hlref.Field{fld(hlref.FUserID, hlref.BE16(rapid.SampledFrom([]int{0, 200, 999, 65535}).Draw(rt, fmt.Sprintf("kid%d", i))))}
			if rapid.Bool().Draw(rt, fmt.Sprintf("kopt%d", i)) {
				fs = append(fs, fld(hlref.FOptions, hlref.BE16(rapid.IntRange(1, 2).Draw(rt, fmt.Sprintf("kban%d", i)))))
			}
			t.Type, t.Fields = hlref.TranDisconnectUser, fs
		case "unknown-chat": // a request naming a chat the server does not know: the sender may be dropped, everybody else is still answered
			switch rapid.SampledFrom([]string{"send", "subject", "leave", "join"}).Draw(rt, fmt.Sprintf("u%d", i)) {
			case "send":
				t.Type, t.Fields = hlref.TranChatSend, []hlref.Field{fld(hlref.FChatID, []byte{0xde, 0xad, 0xbe, 0xef}), sfld(hlref.FData, "anybody?")}
			case "subject":
				t.Type, t.Fields = hlref.TranSetChatSubject, []hlref.Field{fld(hlref.FChatID, []byte{0xde, 0xad, 0xbe, 0xef}), sfld(hlref.FChatSubject, "nobody home")}
			case "leave":
				t.Type, t.Fields = hlref.TranLeaveChat, []hlref.Field{fld(hlref.FChatID, []byte{0xde, 0xad, 0xbe, 0xef})}
			default:
				t.Type, t.Fields = hlref.TranJoinChat, []hlref.Field{fld(hlref.FChatID, []byte{0xde, 0xad, 0xbe, 0xef})}
			}
		case "keepalive":
			t.Type = hlref.TranKeepAlive
		case "chat":
			t.Type, t.Fields = hlref.TranChatSend, []hlref.Field{fld(hlref.FData, bytes.Repeat([]byte("c"), 8000))}
		case "postboard":
			t.Type, t.Fields = hlref.TranOldPostNews, []hlref.Field{fld(hlref.FData, bytes.Repeat([]byte("p"), 1500))}
		}
		p.Reqs = append(p.Reqs, c14req{Client: c, Kind: k, Tran: t})
	}
	return p
}

func c14options(p c14plan) hlsim.Options {
	body := strings.Repeat("n", 60000)
	news := fmt.Sprintf("Categories:\n    Seed:\n        Type: [0, 3]\n        Name: Seed\n        Articles:\n            1:\n                Title: big\n                Poster: p\n                Date: [7, 208, 0, 0, 0, 0, 0, 0]\n                PrevArt: [0, 0, 0, 0]\n                NextArt: [0, 0, 0, 0]\n                ParentArt: [0, 0, 0, 0]\n                FirstChildArtArt: [0, 0, 0, 0]\n                Data: %s\n        SubCats: {}\n", body)
	// a category whose article list outgrew one field: 300 articles with 200-byte titles
	var many strings.Builder
	many.WriteString("    Many:\n        Type: [0, 3]\n        Name: Many\n        SubCats: {}\n        Articles:\n")
	for i := 1; i <= 300; i++ {
		fmt.Fprintf(&many, "            %d:\n                Title: %s\n                Poster: p\n                Date: [7, 208, 0, 0, 0, 0, 0, 0]\n                PrevArt: [0, 0, 0, %d]\n                NextArt: [0, 0, 0, 0]\n                ParentArt: [0, 0, 0, 0]\n                FirstChildArtArt: [0, 0, 0, 0]\n                Data: b\n", i, strings.Repeat("t", 200), (i-1)%256)
	}
	news += many.String()
	seesAgreement := allAccess
	seesAgreement.Clear(hlref.PrivNoAgreement)
	return hlsim.Options{Agreement: strings.Repeat("a", max(p.Agreement, 1)), Board: strings.Repeat("b", p.Board), NewsYAML: news, BannerFile: p.Banner, Accounts: []hlsim.AccountSpec{acct("admin", "Admin", "adminpw", allAccess), acct("late", "Late", "latepw", seesAgreement)}}
}

func c14fixture(w *hlsim.World) {
	d := filepath.Join(w.FileRoot, "many")
	must(os.MkdirAll(d, 0o755))
	for i := 0; i < 300; i++ {
		must(os.WriteFile(filepath.Join(d, fmt.Sprintf("%03d-%s.txt", i, strings.Repeat("x", 100))), []byte("x"), 0o644))
	}
}

type c14result struct {
	streams  [][]byte
	answered []map[uint32]int // per client: reply count per request id
	waited   int
	maxWrite int
	err      string
}

// c14check applies the framing / correlation oracle to the byte stream one client received.
func c14check(client int, stream []byte, sent map[uint32]bool) (map[uint32]int, string) {
	ts, rest, err := hlref.DecodeStream(stream)
	if err != nil {
		return nil, fmt.Sprintf("client %d: the byte stream is not a concatenation of well-formed transactions: %v (after %d whole transactions, at offset %d of %d)", client, err, len(ts), len(stream)-len(rest), len(stream))
	}
	if len(rest) != 0 {
		return nil, fmt.Sprintf("client %d: stream ends inside a transaction (%d trailing bytes after %d whole transactions)", client, len(rest), len(ts))
	}
	ans := map[uint32]int{}
	for _, t := range ts {
		if t.IsReply == 1 {
			if !sent[t.ID] {
				return nil, fmt.Sprintf("client %d: received a reply with id %d which it never used in a request (misdirected reply)", client, t.ID)
			}
			ans[t.ID]++
			if ans[t.ID] > 1 {
				return nil, fmt.Sprintf("client %d: request %d was answered %d times", client, t.ID, ans[t.ID])
			}
		} else if t.Type == 0 {
			return nil, fmt.Sprintf("client %d: transaction of type 0 without the reply flag", client)
		}
		// uniform payloads (private messages / broadcasts are one repeated byte): a field whose bytes come from two messages
		if t.Type == hlref.TranServerMsg {
			if d, ok := t.Get(hlref.FData); ok && len(d) > 0 && len(bytes.Trim(d, string(d[:1]))) != 0 {
				return nil, fmt.Sprintf("client %d: a server message carries bytes of two different messages", client)
			}
		}
	}
	return ans, ""
}

// c14run plays the plan.  sequential = baseline (one request at a time, each settled).
func c14run(rt *rapid.T, p c14plan, sequential bool) (res c14result) {
	inWorld(rt, c14options(p), func(rt *rapid.T, w *hlsim.World) {
		c14fixture(w)
		var fw []*hlsim.FairWriter
		var cs []*hlsim.Conn
		for i := 0; i < p.NClients; i++ {
			c := w.Connect(fmt.Sprintf("10.14.0.%d:1", i+1), func(c *hlsim.Conn) {
				c.Wrap = func(inner io.ReadWriteCloser) io.ReadWriteCloser {
					f := hlsim.NewFairWriter(inner)
					fw = append(fw, f)
					return f
				}
			})
			if c.Login(hlsim.LoginOpts{Login: "admin", Password: "adminpw", Name: []byte(fmt.Sprintf("c%d", i)), Icon: 1}) == nil {
				rt.Fatalf("harness: login failed")
			}
			cs = append(cs, c)
		}
		// one more user, whom no request of the plan addresses: it sends the requests that name an unknown chat (the server
		// hangs up on the sender of such a request; everybody else must still be answered)
		stranger := w.Connect("10.14.2.1:1")
		if stranger.Login(hlsim.LoginOpts{Login: "admin", Password: "adminpw", Name: []byte("stranger"), Icon: 1}) == nil {
			rt.Fatalf("harness: login failed")
		}
		settle(5 * time.Second)
		stranger.Rest()
		for _, c := range cs {
			c.Rest()
			if !sequential {
				c.SetSlow(4096, time.Millisecond) // slow consumers: a large write stays in progress while others queue up
			}
		}
		sent := make([]map[uint32]bool, p.NClients)
		for i := range sent {
			sent[i] = map[uint32]bool{}
		}
		// a private chat of clients 0 and 1 for the requests that name a chat
		var chatID []byte
		if cr := cs[0].Request(hlref.TranInviteNewChat, fld(hlref.FUserID, hlref.BE16(2))); okReply(cr) {
			chatID, _ = cr.Get(hlref.FChatID)
			cs[1].Request(hlref.TranJoinChat, fld(hlref.FChatID, chatID))
		} else {
			rt.Fatalf("harness: chat fixture")
		}
		settle(time.Second)
		for _, c := range cs {
			c.Rest()
		}
		var late []*hlsim.Conn
		for ri, r := range p.Reqs {
			for li, at := range p.LateAt {
				if at == ri {
					// a new connection logs in while the others' requests and broadcasts are in flight: login reply, access notice
					// and the agreement share its byte stream with whatever is broadcast from the moment it is registered
					lc := w.Connect(fmt.Sprintf("10.14.1.%d:1", li+1), func(c *hlsim.Conn) {
						c.Wrap = func(inner io.ReadWriteCloser) io.ReadWriteCloser {
							f := hlsim.NewFairWriter(inner)
							fw = append(fw, f)
							return f
						}
					})
					if !sequential {
						lc.SetSlow(4096, time.Millisecond)
					}
					lo := hlsim.LoginOpts{Login: "late", Password: "latepw", Name: []byte(fmt.Sprintf("late%d", li)), Icon: 1}
					if li%2 == 1 {
						lo = hlsim.LoginOpts{Login: "late", Password: "latepw", Version: hlref.BE16(190)}
					}
					lc.SendAsync(append(hlref.Handshake(1, 2), hlref.Tran{Type: hlref.TranLogin, ID: 77, Fields: lo.Fields()}.Encode()...))
					late = append(late, lc)
					if sequential {
						settle(5 * time.Second)
					}
				}
			}
			sent[r.Client][r.Tran.ID] = true
			for i, f := range r.Tran.Fields {
				if f.ID == hlref.FChatID && r.Kind != "unknown-chat" {
					r.Tran.Fields = append([]hlref.Field{}, r.Tran.Fields...)
					r.Tran.Fields[i] = fld(hlref.FChatID, chatID)
				}
			}
			if r.Kind == "unknown-chat" || r.Kind == "kick-unknown" {
				delete(sent[r.Client], r.Tran.ID)
				stranger.SendAsync(r.Tran.Encode())
			} else {
				cs[r.Client].SendAsync(r.Tran.Encode())
			}
			if sequential {
				settle(5 * time.Second)
			}
		}
		settle(30 * time.Second)
		for i, c := range cs {
			c.SetSlow(0, 0)
			s := c.Rest()
			res.streams = append(res.streams, s)
			ans, e := c14check(i, s, sent[i])
			if e != "" && res.err == "" {
				res.err = e
			}
			res.answered = append(res.answered, ans)
		}
		for li, lc := range late {
			lc.SetSlow(0, 0)
			s := lc.Rest()
			if len(s) < 8 || string(s[:8]) != "TRTP\x00\x00\x00\x00" {
				if res.err == "" {
					res.err = fmt.Sprintf("latecomer %d: no handshake reply at the start of its stream (%d bytes)", li, len(s))
				}
				continue
			}
			ans, e := c14check(100+li, s[8:], map[uint32]bool{77: true})
			if e != "" && res.err == "" {
				res.err = e + " (client 100+i is the i-th connection that logged in under load)"
			}
			if e == "" && ans[77] != 1 && res.err == "" {
				res.err = fmt.Sprintf("latecomer %d: its login was answered %d times", li, ans[77])
			}
		}
		for _, f := range fw {
			_, wt, mx := f.Stats()
			res.waited += wt
			if mx > res.maxWrite {
				res.maxWrite = mx
			}
		}
	})
	return res
}

func c14prop(ev *evid.Rec) func(rt *rapid.T) {
	return func(rt *rapid.T) {
		p := c14genPlan(rt)
		base := c14run(rt, p, true)
		if base.err != "" {
			rt.Fatalf("even one request at a time: %s\nplan: %s", base.err, c14desc(p))
		}
		load := c14run(rt, p, false)
		if load.err != "" {
			rt.Fatalf("under load (%d writes had to wait for another transaction's write): %s\nplan: %s", load.waited, load.err, c14desc(p))
		}
		for i := range base.answered {
			for id, n := range base.answered[i] {
				if n == 1 && load.answered[i][id] != 1 {
					rt.Fatalf("request %d of client %d is answered when issued alone but got %d replies under load\nplan: %s", id, i, load.answered[i][id], c14desc(p))
				}
			}
		}
		biggest := 0
		for _, s := range load.streams {
			ts, _, _ := hlref.DecodeStream(s)
			for _, t := range ts {
				if n := len(t.Encode()); n > biggest {
					biggest = n
				}
			}
		}
		nt := load.waited > 0 && biggest > 32768
		ev.Case(evid.Hash(c14desc(p)), nt, fmt.Sprintf("clients:%d", p.NClients), fmt.Sprintf("contended:%v", load.waited > 0))
		if nt && ev.WantSample() {
			ev.Sample(map[string]any{"engine": "bubble, FIFO-fair writer, slow readers", "plan": c14desc(p), "writes_that_waited": load.waited, "largest_transaction": biggest})
		}
	}
}

func c14desc(p c14plan) string {
	var s []string
	for _, r := range p.Reqs {
		sz := 0
		for _, f := range r.Tran.Fields {
			sz += len(f.Data)
		}
		s = append(s, fmt.Sprintf("c%d:%s(%d)", r.Client, r.Kind, sz))
	}
	return fmt.Sprintf("%d clients, board %d, agreement %d, logins under load before requests %v: %s", p.NClients, p.Board, p.Agreement, p.LateAt, strings.Join(s, " "))
}

func TestC14(t *testing.T) {
	ev := evid.New("C14", "TestC14")
	defer ev.Flush()
	rapid.Check(t, c14prop(ev))
}

// TestC14Live repeats the mix against one long-lived server that uses the production
// outbox pump, in real time, with real goroutines writing concurrently (the Go scheduler
// picks the interleavings).  Quiescence is decided structurally from goroutine dumps.
func TestC14Live(t *testing.T) {
	ev := evid.New("C14", "TestC14Live")
	defer ev.Flush()
	budget := 15 * time.Second
	if thorough() {
		budget = 4 * time.Minute
	}
	if b := os.Getenv("VERIF_LIVE_BUDGET"); b != "" {
		var secs int
		fmt.Sscan(b, &secs)
		budget = time.Duration(secs) * time.Second
	}
	prev := hlsim.Quiesce
	hlsim.Quiesce = hlsim.LiveQuiesce
	defer func() { hlsim.Quiesce = prev }()
	seed := uint64(1)
	fmt.Sscan(os.Getenv("VERIF_SEED"), &seed)
	sh, _ := shardInfo()
	rng := seed*7919 + uint64(sh)*104729
	next := func(n int) int {
		rng += 0x9e3779b97f4a7c15
		z := rng
		z = (z ^ (z >> 30)) * 0xbf58476d1ce4e5b9
		z = (z ^ (z >> 27)) * 0x94d049bb133111eb
		return int((z ^ (z >> 31)) % uint64(n))
	}
	p := c14plan{NClients: 6, Board: 60000}
	opt := c14options(p)
	opt.ProductionPump = true
	w, err := hlsim.New(worldBase(), opt)
	if err != nil {
		t.Fatalf("harness: %v", err)
	}
	defer w.Remove()
	c14fixture(w)
	w.Start()
	var cs []*hlsim.Conn
	for i := 0; i < p.NClients; i++ {
		c := w.Connect(fmt.Sprintf("10.14.1.%d:1", i+1))
		if c.Login(hlsim.LoginOpts{Login: "admin", Password: "adminpw", Name: []byte(fmt.Sprintf("c%d", i)), Icon: 1}) == nil {
			t.Fatalf("harness: live login failed (%s)", hlsim.LiveStuck)
		}
		cs = append(cs, c)
	}
	hlsim.Quiesce()
	for _, c := range cs {
		c.Rest()
	}
	deadline := time.Now().Add(budget)
	id := uint32(5000)
	rounds := 0
	for time.Now().Before(deadline) {
		rounds++
		runtime.GOMAXPROCS([]int{4, 8, 16}[next(3)])
		sent := make([]map[uint32]bool, len(cs))
		wantReply := map[uint32]bool{}
		var desc []string
		var wg sync.WaitGroup
		for i, c := range cs {
			sent[i] = map[uint32]bool{}
			var batch [][]byte
			n := 1 + next(4)
			for k := 0; k < n; k++ {
				id++
				tr := hlref.Tran{ID: id}
				kind := []string{"getmsgs", "biglist", "pm", "broadcast", "newsget", "userlist", "chat", "clientinfo", "clientinfo", "download-req"}[next(10)]
				switch kind {
				case "clientinfo": // the text lists the transfers of the user it is about
					tr.Type, tr.Fields = hlref.TranGetClientInfoText, []hlref.Field{fld(hlref.FUserID, hlref.BE16(1+next(len(cs))))}
				case "download-req": // granted and never collected: the user's transfer table changes while others read it
					tr.Type, tr.Fields = hlref.TranDownloadFile, []hlref.Field{sfld(hlref.FFileName, "000-"+strings.Repeat("x", 100)+".txt"), fld(hlref.FFilePath, p1("many"))}
				case "getmsgs":
					tr.Type = hlref.TranGetMsgs
				case "biglist":
					tr.Type, tr.Fields = hlref.TranGetFileNameList, []hlref.Field{fld(hlref.FFilePath, p1("many"))}
				case "pm":
					tr.Type, tr.Fields = hlref.TranSendInstantMsg, []hlref.Field{fld(hlref.FUserID, hlref.BE16(1+next(len(cs)))), fld(hlref.FData, bytes.Repeat([]byte{byte('A' + int(id)%26)}, []int{100, 33000, 60000}[next(3)])), fld(hlref.FOptions, hlref.BE16(1))}
				case "broadcast":
					tr.Type, tr.Fields = hlref.TranUserBroadcast, []hlref.Field{fld(hlref.FData, bytes.Repeat([]byte{byte('a' + int(id)%26)}, []int{100, 40000}[next(2)]))}
				case "newsget":
					tr.Type, tr.Fields = hlref.TranGetNewsArtData, []hlref.Field{fld(hlref.FNewsPath, p1("Seed")), fld(hlref.FNewsArtID, hlref.BE32(1)), sfld(hlref.FNewsArtDataFlav, "text/plain")}
				case "userlist":
					tr.Type = hlref.TranGetUserNameList
				case "chat":
					tr.Type, tr.Fields = hlref.TranChatSend, []hlref.Field{fld(hlref.FData, bytes.Repeat([]byte("c"), 8000))}
				}
				sent[i][id] = true
				if kind != "chat" {
					wantReply[id] = true // every kind in this mix except chat is answered when issued alone
				}
				batch = append(batch, tr.Encode())
				desc = append(desc, fmt.Sprintf("c%d:%s", i, kind))
			}
			wg.Add(1)
			go func(c *hlsim.Conn, batch [][]byte) {
				defer wg.Done()
				for _, b := range batch {
					c.SendAsync(b)
				}
			}(c, batch)
		}
		wg.Wait()
		hlsim.Quiesce()
		if hlsim.LiveStuck != "" {
			t.Fatalf("VERIF-INCONCLUSIVE live world did not become quiescent within %s (a goroutine stayed %q)", hlsim.LiveTimeout, hlsim.LiveStuck)
		}
		big := 0
		for i, c := range cs {
			s := c.Rest()
			if len(s) > big {
				big = len(s)
			}
			ans, e := c14check(i, s, sent[i])
			if e != "" {
				t.Fatalf("VERIF-VIOLATION live round %d (GOMAXPROCS %d, requests %s): %s", rounds, runtime.GOMAXPROCS(0), strings.Join(desc, " "), e)
			}
			for rid := range sent[i] {
				if wantReply[rid] && ans[rid] != 1 {
					t.Fatalf("VERIF-VIOLATION live round %d (requests %s): request %d of client %d got %d replies under load", rounds, strings.Join(desc, " "), rid, i, ans[rid])
				}
			}
		}
		sort.Strings(desc)
		ev.Case(evid.Hash(strings.Join(desc, " "), rounds), big > 65536, "live")
		if ev.WantSample() {
			ev.Sample(map[string]any{"engine": "live, production pump, real scheduler", "round_requests": desc, "largest_stream_bytes": big})
		}
	}
	runtime.GOMAXPROCS(runtime.NumCPU())
	ev.SetExtra("live_rounds", rounds)
	w.Stop()
}

// TestC14Sizes: one server-originated transaction of every total wire length in a
// contiguous range (an instant message whose text grows one byte at a time), each written
// to the receiver in one piece: its announced sizes, its parameter count and its bytes must
// be whole, and nothing may be left over in the stream.  Exhaustive over the range; the
// shards take the residue classes.
func TestC14Sizes(t *testing.T) {
	ev := evid.New("C14", "TestC14Sizes")
	defer ev.Flush()
	shard, nsh := shardInfo()
	maxLen := 9000
	if thorough() {
		maxLen = 65000
	}
	minWire, maxWire := 1<<30, 0
	synctest.Test(t, func(t *testing.T) {
		w, err := hlsim.New(worldBase(), hlsim.Options{Agreement: "a", Accounts: []hlsim.AccountSpec{acct("admin", "Admin", "adminpw", allAccess)}})
		if err != nil {
			t.Fatalf("harness: %v", err)
		}
		w.Start()
		defer func() {
			w.Stop()
			w.Remove()
		}()
		login := func(remote, name string) *hlsim.Conn {
			c := w.Connect(remote)
			if c.Login(hlsim.LoginOpts{Login: "admin", Password: "adminpw", Name: []byte(name), Icon: 1}) == nil {
				t.Fatalf("harness: login failed")
			}
			return c
		}
		sender, receiver := login("10.14.9.1:1", "sender"), login("10.14.9.2:1", "receiver")
		sender.TakeInbox()
		receiver.TakeInbox()
		for L := shard; L <= maxLen; L += nsh {
			msg := make([]byte, L)
			for i := range msg {
				msg[i] = byte('a' + (i+L)%23)
			}
			r := sender.Request(hlref.TranSendInstantMsg, fld(hlref.FUserID, hlref.BE16(2)), fld(hlref.FData, msg), fld(hlref.FOptions, hlref.BE16(1)))
			if !okReply(r) {
				t.Fatalf("harness: instant message of %d bytes refused: %s", L, replySummary(r))
			}
			in := receiver.TakeInbox()
			wire := 0
			if len(in) == 1 {
				wire = len(in[0].Encode())
			}
			if receiver.Bad != nil || receiver.Partial() != 0 {
				t.Fatalf("VERIF-VIOLATION C14 a server message carrying %d bytes of text left the receiver's stream unparseable or with %d bytes that do not form a whole transaction (%v)", L, receiver.Partial(), receiver.Bad)
			}
			if len(in) != 1 || in[0].Type != hlref.TranServerMsg {
				t.Fatalf("VERIF-VIOLATION C14 a server message carrying %d bytes of text arrived as %s", L, tranSummary(in))
			}
			if d, _ := in[0].Get(hlref.FData); !bytes.Equal(d, msg) {
				t.Fatalf("VERIF-VIOLATION C14 a server message carrying %d bytes of text arrived with %d bytes of text", L, len(d))
			}
			if s := sender.TakeInbox(); len(s) != 0 || sender.Partial() != 0 {
				t.Fatalf("VERIF-VIOLATION C14 the sender received more than the reply: %s", tranSummary(s))
			}
			minWire, maxWire = min(minWire, wire), max(maxWire, wire)
			ev.Case(evid.Hash("size", wire), wire > 512, "wire-length-swept")
		}
	})
	ev.SetExtra("exhaustive", true)
	ev.SetExtra("exhaustive_subspaces", fmt.Sprintf("every total wire length of a server-originated transaction from %d to %d bytes in steps of %d (this shard; all shards together: every length)", minWire, maxWire, nsh))
}

// TestC14Stalled: some clients stop reading altogether while several transactions are queued
// for each of them (broadcasts); every other client's requests must still be answered, exactly
// once, while the stalled ones stay stalled.
func TestC14Stalled(t *testing.T) {
	ev := evid.New("C14", "TestC14Stalled")
	defer ev.Flush()
	rapid.Check(t, func(rt *rapid.T) {
		n := rapid.IntRange(3, 7).Draw(rt, "clients")
		nStalled := rapid.IntRange(1, n-2).Draw(rt, "stalled")
		nBroadcasts := rapid.IntRange(2, 6).Draw(rt, "queuedPerStalledClient")
		big := rapid.SampledFrom([]int{10, 5000, 40000}).Draw(rt, "broadcastSize")
		kinds := rapid.SliceOfN(rapid.SampledFrom([]int{hlref.TranKeepAlive, hlref.TranGetUserNameList, hlref.TranGetMsgs, hlref.TranGetFileNameList}), 4, 12).Draw(rt, "requests")
		// now and then an active client talks a lot while the others do not read: thousands of chat lines pile up for each
		// of the stalled ones
		flood := rapid.SampledFrom([]int{0, 0, 4200, 0, 6000, 0}).Draw(rt, "chatLinesWhileStalled")
		inWorld(rt, hlsim.Options{Agreement: "a", Board: strings.Repeat("b", 3000), Accounts: []hlsim.AccountSpec{acct("admin", "Admin", "adminpw", allAccess)}}, func(rt *rapid.T, w *hlsim.World) {
			var cs []*hlsim.Conn
			for i := 0; i < n; i++ {
				cs = append(cs, loginAs(rt, w, fmt.Sprintf("10.14.7.%d:1", i+1), "admin", "adminpw", fmt.Sprintf("c%d", i)))
			}
			settle(time.Second)
			for _, c := range cs {
				c.TakeInbox()
			}
			for i := 0; i < nStalled; i++ {
				cs[i].SetSlow(1, 1000*time.Hour) // reads one byte, then nothing for the rest of the case
			}
			active := cs[nStalled:]
			for b := 0; b < nBroadcasts; b++ {
				if r := active[0].Request(hlref.TranUserBroadcast, fld(hlref.FData, bytes.Repeat([]byte{byte('A' + b)}, big))); !okReply(r) {
					rt.Fatalf("with %d of %d clients not reading and %d broadcasts queued for them: the broadcast request of an active client got no reply", nStalled, n, b)
				}
			}
			for i := 0; i < flood; i++ {
				active[0].SendAsync(hlref.Tran{Type: hlref.TranChatSend, ID: active[0].NewID(), Fields: []hlref.Field{sfld(hlref.FData, fmt.Sprintf("line %d", i))}}.Encode())
			}
			if flood > 0 {
				settle(time.Second)
			}
			for k, typ := range kinds {
				c := active[k%len(active)]
				r := c.Request(typ)
				if r == nil || r.IsReply != 1 {
					rt.Fatalf("with %d of %d clients not reading (%d transactions of %d bytes and %d chat lines queued for each): request %d (type %d) of an active client got no reply", nStalled, n, nBroadcasts, big, flood, k, typ)
				}
			}
			for i, c := range active {
				got := 0
				for _, tr := range c.TakeInbox() {
					if tr.Type == hlref.TranServerMsg {
						got++
					}
				}
				if c.Bad != nil || c.Partial() != 0 {
					rt.Fatalf("active client %d: stream not parseable / ends inside a transaction (%v, %d bytes)", i, c.Bad, c.Partial())
				}
				if got != nBroadcasts {
					rt.Fatalf("active client %d received %d of %d broadcasts while %d clients were not reading", i, got, nBroadcasts, nStalled)
				}
			}
			// the clients that were not reading come back after a while: what was queued for them arrives as whole transactions
			pause := rapid.SampledFrom([]time.Duration{time.Second, 14 * time.Second, 16 * time.Second, 31 * time.Second, 10 * time.Minute}).Draw(rt, "pauseOfTheStalledClients")
			settle(pause)
			for i := 0; i < nStalled; i++ {
				cs[i].SetSlow(0, 0)
			}
			settle(1001 * time.Hour) // (the reference client's reader sleeps through its old delay once more before the new setting applies)
			for i := 0; i < nStalled; i++ {
				c := cs[i]
				got := 0
				for _, tr := range c.TakeInbox() {
					if tr.Type == hlref.TranServerMsg {
						if d, _ := tr.Get(hlref.FData); len(d) != big || len(bytes.Trim(d, string(d[:1]))) != 0 {
							rt.Fatalf("client %d, which read nothing for %s and then everything: a broadcast of %d bytes arrived with %d bytes / bytes of another message", i, pause, big, len(d))
						}
						got++
					}
				}
				if c.Bad != nil || c.Partial() != 0 {
					rt.Fatalf("client %d, which read nothing for %s and then everything: its stream is not a sequence of whole transactions (%v, %d bytes left over)", i, pause, c.Bad, c.Partial())
				}
				if got != nBroadcasts {
					rt.Fatalf("client %d, which read nothing for %s and then everything, received %d of the %d broadcasts queued for it", i, pause, got, nBroadcasts)
				}
			}
		})
		ev.Case(evid.Hash("stalled", n, nStalled, nBroadcasts, big, fmt.Sprint(kinds)), true, "stalled-clients", fmt.Sprintf("stalled:%d", nStalled))
	})
}
