package props

// C18 — threaded news keeps every article and threads new ones correctly.

import (
	"bytes"
	"fmt"
	"os"
	"path/filepath"
	"sort"
	"strings"
	"testing"

	"github.com/jhalter/mobius/hotline"
	"github.com/jhalter/mobius/verifhooks"
	"gopkg.in/yaml.v3"
	"pgregory.net/rapid"

	"verif/harness/evid"
	"verif/harness/hlref"
	"verif/harness/hlsim"
)

type nart struct {
	title, poster, body string
	parent, prev, next  uint32
	date                string
}

type nnode struct {
	kind int // 2 bundle, 3 category
	kids map[string]*nnode
	arts map[uint32]*nart
}

type c18state struct {
	rt         *rapid.T
	w          *hlsim.World
	c          *hlsim.Conn
	root       *nnode
	history    []string
	posts      int
	deletes    int
	stale      int
	reconnects int
	nt         bool
	names      int
	poster     string
	ev         *evid.Rec
}

func (s *c18state) h() string { return "\nhistory: " + strings.Join(s.history, " | ") }

func (s *c18state) fail(f string, a ...any) { s.rt.Fatalf(f+s.h(), a...) }

var c18NamePool = []string{"General", "News", "a b", "caf\xe9", "über", "x", "Q&A", "n:1", "[br]", "{y}", "#tag", "- dash", "quo'te", `dq"`, "tab\tname", "nl\nname", "trailing ", strings.Repeat("N", 255), "0", "true", "null", "~"}

func c18Text(rt *rapid.T, label string, max int) string {
	var s string
	switch rapid.IntRange(0, 5).Draw(rt, label+"_k") {
	case 0:
		s = rapid.SampledFrom([]string{"", "t", "Hello world", "multi\nline", "caf\xe9 \xff", "x: y", "- item", "> quote", "| pipe", "#", "trailing space ", "'q'", strings.Repeat("T", 255), strings.Repeat("long ", 51), "\ttab",
			"\nleading line break", "\ttab then\nline break", " blank then\nline break", "\u2028sep\nx", "\r\ncr first", "\n", "\n\n", "\t\n"}).Draw(rt, label)
	case 1:
		n := rapid.SampledFrom([]int{0, 1, 127, 128, 200, 254, 255}).Draw(rt, label+"_n")
		s = string(genBytes(rt, label, n))
	default:
		s = string(genBytes(rt, label, rapid.IntRange(0, 40).Draw(rt, label+"_n")))
	}
	if len(s) > max {
		s = s[:max]
	}
	return s
}

// paths enumerates model paths of a given kind (0 = any container incl. root for listing).
func (s *c18state) paths(kind int) [][]string {
	var out [][]string
	var walk func(p []string, n *nnode)
	walk = func(p []string, n *nnode) {
		ks := make([]string, 0, len(n.kids))
		for k := range n.kids {
			ks = append(ks, k)
		}
		sort.Strings(ks)
		for _, k := range ks {
			q := append(append([]string{}, p...), k)
			if kind == 0 || n.kids[k].kind == kind {
				out = append(out, q)
			}
			walk(q, n.kids[k])
		}
	}
	walk(nil, s.root)
	return out
}

func (s *c18state) node(p []string) *nnode {
	n := s.root
	for _, x := range p {
		n = n.kids[x]
		if n == nil {
			return nil
		}
	}
	return n
}

func newsPath(p []string) hlref.Field { return fld(hlref.FNewsPath, hlref.EncodeNewsPath(p)) }

func (s *c18state) drawPath(label string, kind int) ([]string, bool) {
	ps := s.paths(kind)
	if len(ps) == 0 {
		return nil, false
	}
	return ps[rapid.IntRange(0, len(ps)-1).Draw(s.rt, label)], true
}

func (s *c18state) getArticle(p []string, id uint32) (*nart, bool) {
	r := s.c.Request(hlref.TranGetNewsArtData, newsPath(p), fld(hlref.FNewsArtID, hlref.BE32(int(id))), sfld(hlref.FNewsArtDataFlav, "text/plain"))
	if !okReply(r) {
		s.fail("get-article %v #%d refused/no reply: %s", p, id, replySummary(r))
	}
	t, ok := r.Get(hlref.FNewsArtTitle)
	if !ok {
		return nil, false
	}
	po, _ := r.Get(hlref.FNewsArtPoster)
	d, _ := r.Get(hlref.FNewsArtDate)
	pv, _ := r.Get(hlref.FNewsArtPrevArt)
	nx, _ := r.Get(hlref.FNewsArtNextArt)
	pa, _ := r.Get(hlref.FNewsArtParentArt)
	b, _ := r.Get(hlref.FNewsArtData)
	fl, _ := r.Get(hlref.FNewsArtDataFlav)
	if string(fl) != "text/plain" || len(pv) != 4 || len(nx) != 4 || len(pa) != 4 || len(d) != 8 {
		s.fail("get-article %v #%d: malformed reply %s", p, id, replySummary(r))
	}
	return &nart{title: string(t), poster: string(po), body: string(b), prev: uint32(hlref.U32(pv)), next: uint32(hlref.U32(nx)), parent: uint32(hlref.U32(pa)), date: string(d)}, true
}

func (s *c18state) checkCategory(p []string, ctx string) {
	n := s.node(p)
	ids := make([]uint32, 0, len(n.arts))
	for id := range n.arts {
		ids = append(ids, id)
	}
	sort.Slice(ids, func(i, j int) bool { return ids[i] < ids[j] })
	r := s.c.Request(hlref.TranGetNewsArtNameList, newsPath(p))
	if !okReply(r) {
		s.fail("%s: article list of %v refused/no reply", ctx, p)
	}
	d, _ := r.Get(hlref.FNewsArtListData)
	_, _, _, es, err := hlref.DecodeNewsArtList(d)
	if err != nil {
		s.fail("%s: article list of %v is not parseable: %v (%d bytes)", ctx, p, err, len(d))
	}
	if len(es) != len(ids) {
		s.fail("%s: article list of %v has %d entries, model %d", ctx, p, len(es), len(ids))
	}
	for i, e := range es {
		a := n.arts[ids[i]]
		if e.ID != ids[i] || string(e.Title) != a.title || string(e.Poster) != a.poster || e.Parent != a.parent || e.BodySize != len(a.body) || string(e.Flavor) != "text/plain" {
			s.fail("%s: article list of %v entry %d: id=%d parent=%d title=%q poster=%q size=%d; model id=%d parent=%d title=%q poster=%q size=%d", ctx, p, i, e.ID, e.Parent, e.Title, e.Poster, e.BodySize, ids[i], a.parent, a.title, a.poster, len(a.body))
		}
	}
	for _, id := range ids {
		g, ok := s.getArticle(p, id)
		a := n.arts[id]
		if !ok {
			s.fail("%s: article #%d of %v is not retrievable", ctx, id, p)
		}
		if g.title != a.title || g.poster != a.poster || g.body != a.body || g.date != a.date || g.parent != a.parent {
			s.fail("%s: article #%d of %v changed: title=%q poster=%q body=%d bytes date=%x parent=%d; model title=%q poster=%q body=%d bytes date=%x parent=%d", ctx, id, p, g.title, g.poster, len(g.body), g.date, g.parent, a.title, a.poster, len(a.body), a.date, a.parent)
		}
	}
}

func (s *c18state) checkListing(p []string, ctx string) {
	n := s.node(p)
	r := s.c.Request(hlref.TranGetNewsCatNameList, newsPath(p))
	if !okReply(r) {
		s.fail("%s: category listing of %v refused/no reply", ctx, p)
	}
	got := map[string]string{}
	for _, d := range r.GetAll(hlref.FNewsCatListData15) {
		c, err := hlref.DecodeNewsCat(d)
		if err != nil {
			s.fail("%s: category listing of %v: record unparseable: %v (%x)", ctx, p, err, d)
		}
		if _, dup := got[string(c.Name)]; dup {
			s.fail("%s: category listing of %v shows %q twice", ctx, p, c.Name)
		}
		got[string(c.Name)] = fmt.Sprintf("kind=%d count=%d", c.Kind, c.Count)
	}
	want := map[string]string{}
	for k, v := range n.kids {
		want[k] = fmt.Sprintf("kind=%d count=%d", v.kind, len(v.kids)+len(v.arts))
	}
	if fmt.Sprint(got) != fmt.Sprint(want) {
		s.fail("%s: category listing of %v shows %v, model %v", ctx, p, got, want)
	}
}

func (s *c18state) checkAll(ctx string) {
	s.checkListing(nil, ctx)
	for _, p := range s.paths(0) {
		if s.node(p).kind == 3 {
			s.checkCategory(p, ctx)
		} else {
			s.checkListing(p, ctx)
		}
	}
}

func c18prop(ev *evid.Rec) func(rt *rapid.T) {
	return func(rt *rapid.T) {
		inWorld(rt, hlsim.Options{Agreement: "a", Accounts: []hlsim.AccountSpec{acct("admin", "Admin", "adminpw", allAccess)}}, func(rt *rapid.T, w *hlsim.World) {
			s := &c18state{rt: rt, w: w, root: &nnode{kind: 2, kids: map[string]*nnode{}}, ev: ev, poster: "admin"}
			s.c = loginAs(rt, w, "10.0.0.1:1", "admin", "adminpw", "admin")
			rec := func(f string, a ...any) { s.history = append(s.history, fmt.Sprintf(f, a...)) }
			fresh := func(parent *nnode, label string) (string, bool) {
				var c []string
				for _, n := range c18NamePool {
					if _, ok := parent.kids[n]; !ok {
						c = append(c, n)
					}
				}
				if len(c) == 0 {
					return "", false
				}
				return rapid.SampledFrom(c).Draw(rt, label), true
			}
			container := func(label string) ([]string, *nnode) {
				ps := append([][]string{nil}, s.paths(2)...)
				// (a client other than the stock one may also create below a category: the path names an item, that is all)
				if cs := s.paths(3); len(cs) > 0 && rapid.IntRange(0, 5).Draw(s.rt, label+"_belowCategory") == 0 {
					ps = cs
				}
				p := ps[rapid.IntRange(0, len(ps)-1).Draw(s.rt, label)]
				if len(p) >= 3 {
					p = nil
				}
				return p, s.node(p)
			}
			rt.Repeat(map[string]func(*rapid.T){
				"newBundle": func(rt *rapid.T) {
					s.rt = rt
					p, n := container("where")
					name, ok := fresh(n, "name")
					if !ok {
						ev.Exclude("create over an existing name")
						rt.Skip()
					}
					rec("new-bundle %v/%q", p, name)
					if r := s.c.Request(hlref.TranNewNewsFldr, sfld(hlref.FFileName, name), newsPath(p)); !okReply(r) {
						s.fail("new bundle refused")
					}
					n.kids[name] = &nnode{kind: 2, kids: map[string]*nnode{}}
				},
				"newCategory": func(rt *rapid.T) {
					s.rt = rt
					p, n := container("where")
					name, ok := fresh(n, "name")
					if !ok {
						ev.Exclude("create over an existing name")
						rt.Skip()
					}
					rec("new-category %v/%q", p, name)
					if r := s.c.Request(hlref.TranNewNewsCat, sfld(hlref.FNewsCatName, name), newsPath(p)); !okReply(r) {
						s.fail("new category refused")
					}
					n.kids[name] = &nnode{kind: 3, kids: map[string]*nnode{}, arts: map[uint32]*nart{}}
				},
				"setPoster": func(rt *rapid.T) {
					s.rt = rt
					name := c18Text(rt, "poster", 255)
					s.c.Request(hlref.TranSetClientUserInfo, sfld(hlref.FUserName, name), fld(hlref.FUserIconID, hlref.BE16(1)))
					s.poster = name
					rec("poster=%q", name)
				},
				"post": func(rt *rapid.T) {
					s.rt = rt
					p, ok := s.drawPath("cat", 3)
					if bs := s.paths(2); len(bs) > 0 && rapid.IntRange(0, 7).Draw(rt, "postToBundle") == 0 {
						// (... or post to a path that names a bundle: it holds the article like a category would)
						p, ok = bs[rapid.IntRange(0, len(bs)-1).Draw(rt, "bundle")], true
					}
					if !ok {
						rt.Skip()
					}
					n := s.node(p)
					if n.arts == nil {
						n.arts = map[uint32]*nart{}
					}
					title := c18Text(rt, "title", 255)
					bodyLen := rapid.SampledFrom([]int{0, 1, 50, 500, 5000, 60000}).Draw(rt, "bodylen")
					body := string(genBytes(rt, "body", bodyLen))
					parent := uint32(0)
					var ids []uint32
					for id := range n.arts {
						ids = append(ids, id)
					}
					sort.Slice(ids, func(i, j int) bool { return ids[i] < ids[j] })
					if len(ids) > 0 && rapid.Bool().Draw(rt, "reply") {
						parent = rapid.SampledFrom(ids).Draw(rt, "parent")
					}
					rec("post %v parent=%d title=%q body=%d poster=%q", p, parent, title, len(body), s.poster)
					r := s.c.Request(hlref.TranPostNewsArt, newsPath(p), fld(hlref.FNewsArtID, hlref.BE32(int(parent))), sfld(hlref.FNewsArtTitle, title), sfld(hlref.FNewsArtDataFlav, "text/plain"), sfld(hlref.FNewsArtData, body))
					if !okReply(r) {
						s.fail("post refused: %s", replySummary(r))
					}
					// find the new article: exactly one id not present before
					lr := s.c.Request(hlref.TranGetNewsArtNameList, newsPath(p))
					d, _ := lr.Get(hlref.FNewsArtListData)
					_, _, _, es, err := hlref.DecodeNewsArtList(d)
					if err != nil {
						s.fail("article list after post unparseable: %v", err)
					}
					var newIDs []uint32
					for _, e := range es {
						if _, had := n.arts[e.ID]; !had {
							newIDs = append(newIDs, e.ID)
						}
					}
					if len(newIDs) != 1 || len(es) != len(ids)+1 {
						s.fail("after posting, the category lists %d articles (%d new ids %v), before %d: a post must add exactly one article under an id not in use", len(es), len(newIDs), newIDs, len(ids))
					}
					nid := newIDs[0]
					g, ok := s.getArticle(p, nid)
					if !ok {
						s.fail("new article #%d not retrievable", nid)
					}
					if g.title != title || g.poster != s.poster || g.body != body || g.parent != parent {
						s.fail("new article #%d: title=%q poster=%q body=%d parent=%d; posted title=%q poster=%q body=%d parent=%d", nid, g.title, g.poster, len(g.body), g.parent, title, s.poster, len(body), parent)
					}
					prevNewest := uint32(0)
					if len(ids) > 0 {
						prevNewest = ids[len(ids)-1]
					}
					if g.prev != prevNewest {
						s.fail("new article #%d has prev=%d, the previously newest article is #%d", nid, g.prev, prevNewest)
					}
					if prevNewest != 0 {
						pg, _ := s.getArticle(p, prevNewest)
						if pg == nil || pg.next != nid {
							s.fail("previously newest article #%d is not linked to the new article #%d", prevNewest, nid)
						}
					}
					n.arts[nid] = &nart{title: title, poster: s.poster, body: body, parent: parent, date: g.date}
					s.posts++
				},
				"deleteArticle": func(rt *rapid.T) {
					s.rt = rt
					p, ok := s.drawPath("cat", 3)
					if !ok || len(s.node(p).arts) == 0 {
						rt.Skip()
					}
					n := s.node(p)
					var ids []uint32
					for id := range n.arts {
						ids = append(ids, id)
					}
					sort.Slice(ids, func(i, j int) bool { return ids[i] < ids[j] })
					id := rapid.SampledFrom(ids).Draw(rt, "id")
					// the optional "delete the replies too" flag: the statement promises that exactly the named article goes
					fs := []hlref.Field{newsPath(p), fld(hlref.FNewsArtID, hlref.BE32(int(id)))}
					flag := rapid.SampledFrom([]int{-1, -1, 0, 1}).Draw(rt, "recursiveFlag")
					if flag >= 0 {
						fs = append(fs, fld(hlref.FNewsArtRecurseDel, hlref.BE16(flag)))
					}
					rec("delete-article %v #%d flag=%d", p, id, flag)
					if r := s.c.Request(hlref.TranDelNewsArt, fs...); !okReply(r) {
						s.fail("delete article refused")
					}
					delete(n.arts, id)
					s.deletes++
				},
				"deleteItem": func(rt *rapid.T) {
					s.rt = rt
					p, ok := s.drawPath("item", 0)
					if !ok {
						rt.Skip()
					}
					rec("delete-item %v", p)
					// what lived below the item (its paths were listed a moment ago by the invariant) is gone with it
					var below [][]string
					for _, q := range s.paths(0) {
						if len(q) >= len(p) && strings.Join(q[:len(p)], "\x00") == strings.Join(p, "\x00") {
							below = append(below, q)
						}
					}
					if r := s.c.Request(hlref.TranDelNewsItem, newsPath(p)); !okReply(r) {
						s.fail("delete item refused")
					}
					delete(s.node(p[:len(p)-1]).kids, p[len(p)-1])
					s.deletes++
					for _, q := range below {
						if r := s.c.Request(hlref.TranGetNewsArtNameList, newsPath(q)); okReply(r) {
							d, _ := r.Get(hlref.FNewsArtListData)
							if _, _, _, es, err := hlref.DecodeNewsArtList(d); err == nil && len(es) != 0 {
								s.fail("after delete-item %v the article list of %v still shows %d articles", p, q, len(es))
							}
						}
						if s.c.EOF() {
							// (a request naming something that is gone may cost the requester its connection; the user comes back)
							s.reconnects++
							s.c = loginAs(rt, w, fmt.Sprintf("10.0.0.1:%d", 100+s.reconnects), "admin", "adminpw", "admin")
							if s.poster != "admin" {
								s.c.Request(hlref.TranSetClientUserInfo, sfld(hlref.FUserName, s.poster), fld(hlref.FUserIconID, hlref.BE16(1)))
							}
						}
					}
				},
				"stalePath": func(rt *rapid.T) {
					// a request whose path has a component that does not exist (a stale path through something another
					// client just deleted): it must not show, change or remove anything that lives elsewhere
					s.rt = rt
					ps := s.paths(0)
					if len(ps) == 0 {
						rt.Skip()
					}
					real := ps[rapid.IntRange(0, len(ps)-1).Draw(rt, "real")]
					cut := rapid.IntRange(0, len(real)-1).Draw(rt, "insertAt")
					stale := append(append(append([]string{}, real[:cut]...), "No Such Place"), real[cut:]...)
					switch rapid.IntRange(0, 2).Draw(rt, "staleKind") {
					case 1:
						stale = append(append([]string{}, real[:cut]...), "No Such Place", real[len(real)-1])
					case 2:
						// only the last component is gone (the category somebody just deleted), its parent exists
						stale = append(append([]string{}, real[:len(real)-1]...), "No Such Place")
					}
					op := rapid.SampledFrom([]string{"list-categories", "list-articles", "get-article", "post", "delete-article", "delete-item", "new-category", "new-bundle"}).Draw(rt, "op")
					// ... or the path field is missing, empty, has no items or ends inside an item: a request that needs a target
					// and names none changes nothing either
					newsPath := newsPath
					if form := rapid.SampledFrom([]string{"stale", "stale", "stale", "absent", "empty", "zero-count", "truncated"}).Draw(rt, "pathForm"); form != "stale" && (op == "post" || op == "delete-article" || op == "delete-item" || op == "get-article") {
						enc := hlref.EncodeNewsPath(real)
						raw := map[string][]byte{"absent": nil, "empty": {}, "zero-count": {0, 0}, "truncated": enc[:len(enc)-1]}[form]
						newsPath = func([]string) hlref.Field {
							if form == "absent" {
								return fld(hlref.FNewsArtDataFlav, []byte("text/plain")) // (some other, harmless field in its place)
							}
							return fld(hlref.FNewsPath, raw)
						}
						stale = []string{"<" + form + " path field>"}
					}
					rec("stale-path %s %v", op, stale)
					switch op {
					case "list-categories":
						if r := s.c.Request(hlref.TranGetNewsCatNameList, newsPath(stale)); okReply(r) && len(r.GetAll(hlref.FNewsCatListData15)) != 0 {
							s.fail("category listing of the non-existent path %v shows %d entries", stale, len(r.GetAll(hlref.FNewsCatListData15)))
						}
					case "list-articles":
						if r := s.c.Request(hlref.TranGetNewsArtNameList, newsPath(stale)); okReply(r) {
							d, _ := r.Get(hlref.FNewsArtListData)
							if _, _, _, es, err := hlref.DecodeNewsArtList(d); err == nil && len(es) != 0 {
								s.fail("article list of the non-existent path %v shows %d articles", stale, len(es))
							}
						}
					case "get-article":
						if r := s.c.Request(hlref.TranGetNewsArtData, newsPath(stale), fld(hlref.FNewsArtID, hlref.BE32(1)), sfld(hlref.FNewsArtDataFlav, "text/plain")); okReply(r) {
							if t, ok := r.Get(hlref.FNewsArtTitle); ok && len(t) > 0 {
								s.fail("get-article on the non-existent path %v returned the article %q", stale, t)
							}
						}
					case "post":
						s.c.Request(hlref.TranPostNewsArt, newsPath(stale), fld(hlref.FNewsArtID, hlref.BE32(0)), sfld(hlref.FNewsArtTitle, "stale post"), sfld(hlref.FNewsArtDataFlav, "text/plain"), sfld(hlref.FNewsArtData, "x"))
					case "delete-article":
						s.c.Request(hlref.TranDelNewsArt, newsPath(stale), fld(hlref.FNewsArtID, hlref.BE32(1)))
					case "delete-item":
						s.c.Request(hlref.TranDelNewsItem, newsPath(stale))
					case "new-category":
						s.c.Request(hlref.TranNewNewsCat, sfld(hlref.FNewsCatName, "stale cat"), newsPath(stale))
					case "new-bundle":
						s.c.Request(hlref.TranNewNewsFldr, sfld(hlref.FFileName, "stale bundle"), newsPath(stale))
					}
					settle(0)
					s.c.TakeInbox()
					s.stale++
					if s.c.EOF() {
						// the server may drop the connection that sent the request (C03 allows "answered or closed"); the user comes back
						s.reconnects++
						s.c = loginAs(rt, w, fmt.Sprintf("10.0.0.1:%d", 100+s.reconnects), "admin", "adminpw", "admin")
						if s.poster != "admin" {
							s.c.Request(hlref.TranSetClientUserInfo, sfld(hlref.FUserName, s.poster), fld(hlref.FUserIconID, hlref.BE16(1)))
						}
					}
					// the invariant that follows compares the whole tree with the model, which did not change
				},
				"operatorEdit": func(rt *rapid.T) {
					// the operator edits the news file by hand (removes one top-level item) and has the server reload it:
					// afterwards the server holds what the file holds, nothing of what it held before
					s.rt = rt
					var tops []string
					for k := range s.root.kids {
						tops = append(tops, k)
					}
					sort.Strings(tops)
					if len(tops) == 0 {
						rt.Skip()
					}
					victim := rapid.SampledFrom(tops).Draw(rt, "remove")
					rec("operator removes %q from the file and reloads", victim)
					path := filepath.Join(w.Cfg, "ThreadedNews.yaml")
					b, err := os.ReadFile(path)
					if err != nil {
						s.fail("harness: %v", err)
					}
					var doc hotline.ThreadedNews // (the file's own schema: an editor's tool, not an oracle)
					if err := yaml.Unmarshal(b, &doc); err != nil {
						s.fail("harness: news file does not parse: %v", err)
					}
					if _, ok := doc.Categories[victim]; !ok {
						s.fail("harness: top-level item %q is not in the news file (%d items)", victim, len(doc.Categories))
					}
					delete(doc.Categories, victim)
					out, err := yaml.Marshal(&doc)
					if err != nil {
						s.fail("harness: %v", err)
					}
					must(os.WriteFile(path, out, 0o644))
					if err := w.News.Load(); err != nil {
						s.fail("reload of the edited news file failed: %v", err)
					}
					delete(s.root.kids, victim)
					s.deletes++
				},
				"operatorAddsClientRemoves": func(rt *rapid.T) {
					// the operator adds a category to the news file by hand and reloads; a client then deletes it again through the
					// protocol.  The tree is back to what the server itself saved last - and the file must say so too.
					s.rt = rt
					name := "Added by the operator"
					if _, taken := s.root.kids[name]; taken {
						rt.Skip()
					}
					rec("operator adds %q to the file and reloads, a client deletes it", name)
					path := filepath.Join(w.Cfg, "ThreadedNews.yaml")
					b, err := os.ReadFile(path)
					if err != nil {
						s.fail("harness: %v", err)
					}
					var doc hotline.ThreadedNews
					if err := yaml.Unmarshal(b, &doc); err != nil {
						s.fail("harness: news file does not parse: %v", err)
					}
					if doc.Categories == nil {
						doc.Categories = map[string]hotline.NewsCategoryListData15{}
					}
					doc.Categories[name] = hotline.NewsCategoryListData15{Type: [2]byte{0, 3}, Name: name, Articles: map[uint32]*hotline.NewsArtData{}, SubCats: map[string]hotline.NewsCategoryListData15{}}
					out, err := yaml.Marshal(&doc)
					if err != nil {
						s.fail("harness: %v", err)
					}
					must(os.WriteFile(path, out, 0o644))
					if err := w.News.Load(); err != nil {
						s.fail("reload of the edited news file failed: %v", err)
					}
					if r := s.c.Request(hlref.TranDelNewsItem, newsPath([]string{name})); !okReply(r) {
						s.fail("deleting the category the operator added: %s", replySummary(r))
					}
					fresh, err := verifhooks.NewThreadedNewsYAML(path)
					if err != nil {
						s.fail("a fresh store cannot load the news file: %v", err)
					}
					for _, c := range fresh.GetCategories(nil) {
						if c.Name == name {
							s.fail("the deletion of %q was acknowledged, but the news file still holds it (a restart brings it back)", name)
						}
					}
					s.deletes++
				},
				"reload": func(rt *rapid.T) {
					s.rt = rt
					rec("reload")
					if err := w.News.Load(); err != nil {
						s.fail("reload of the news file failed: %v", err)
					}
					if _, err := verifhooks.NewThreadedNewsYAML(filepath.Join(w.Cfg, "ThreadedNews.yaml")); err != nil {
						s.fail("a fresh store cannot load the news file: %v", err)
					}
					if s.deletes >= 1 && s.posts >= 2 {
						s.nt = true
					}
				},
				"": func(rt *rapid.T) {
					s.rt = rt
					s.checkAll("invariant")
				},
			})
			if s.deletes >= 1 && s.posts >= 2 {
				s.nt = true // the invariant lists every category after every step
			}
			ev.Case(evid.Hash(strings.Join(s.history, "|")), s.nt, fmt.Sprintf("posts:%d", min(s.posts, 10)))
			if s.nt && ev.WantSample() {
				ev.Sample(map[string]any{"history": s.history})
			}
		})
	}
}

func TestC18(t *testing.T) {
	ev := evid.New("C18", "TestC18")
	defer ev.Flush()
	rapid.Check(t, c18prop(ev))
}

// TestC18LeadingNewline: an article whose title starts with a line break, a tab or a
// line separator and has a second line must survive a reload (the classes yaml.v3's block
// scalars do not round-trip; repaired in jhalter/mobius for article and account texts).
func TestC18LeadingNewline(t *testing.T) {
	ev := evid.New("C18", "TestC18LeadingNewline")
	defer ev.Flush()
	rapid.Check(t, func(rt *rapid.T) {
		title := rapid.SampledFrom([]string{"\n", "\t\n", "\u2028\n", "\t", " \n", "\r\n"}).Draw(rt, "lead") + strings.ReplaceAll(string(genBytes(rt, "rest", rapid.IntRange(0, 12).Draw(rt, "len"))), "\x00", "0")
		inWorld(rt, hlsim.Options{Agreement: "a", Accounts: []hlsim.AccountSpec{acct("admin", "Admin", "adminpw", allAccess)}}, func(rt *rapid.T, w *hlsim.World) {
			c := loginAs(rt, w, "10.0.0.1:1", "admin", "adminpw", "admin")
			if !okReply(c.Request(hlref.TranNewNewsCat, sfld(hlref.FNewsCatName, "C"))) {
				rt.Fatalf("harness: new category")
			}
			if !okReply(c.Request(hlref.TranPostNewsArt, newsPath([]string{"C"}), fld(hlref.FNewsArtID, hlref.BE32(0)), sfld(hlref.FNewsArtTitle, title), sfld(hlref.FNewsArtData, "b"))) {
				rt.Fatalf("harness: post")
			}
			if err := w.News.Load(); err != nil {
				rt.Fatalf("reload: %v", err)
			}
			r := c.Request(hlref.TranGetNewsArtData, newsPath([]string{"C"}), fld(hlref.FNewsArtID, hlref.BE32(1)))
			got, _ := r.Get(hlref.FNewsArtTitle)
			if string(got) != title {
				rt.Fatalf("article title %q is %q after reloading the news file", title, got)
			}
		})
		ev.Case(evid.Hash(title), true, "leading-newline-title")
	})
}

// TestC18Burst: several users post to the same category at the same instant (while an
// older article is deleted): every accepted post is kept under an id of its own, every
// other article stays retrievable unchanged, and the file reproduces the same category.
func TestC18Burst(t *testing.T) {
	ev := evid.New("C18", "TestC18Burst")
	defer ev.Flush()
	rapid.Check(t, func(rt *rapid.T) {
		n := rapid.IntRange(2, 8).Draw(rt, "posters")
		rounds := rapid.IntRange(3, 10).Draw(rt, "rounds")
		sizes := rapid.SliceOfN(rapid.SampledFrom([]int{0, 20, 700, 6000}), rounds, rounds).Draw(rt, "sizes")
		withDelete := rapid.SliceOfN(rapid.Bool(), rounds, rounds).Draw(rt, "deletes")
		replyTo := rapid.SliceOfN(rapid.Bool(), rounds, rounds).Draw(rt, "replies")
		accounts := []hlsim.AccountSpec{acct("admin", "Admin", "adminpw", allAccess)}
		for i := 0; i < n; i++ {
			accounts = append(accounts, acct(fmt.Sprintf("p%d", i), "P", "pw", hlref.AccessOf(hlref.PrivAnyName, hlref.PrivNewsReadArt, hlref.PrivNewsPostArt)))
		}
		inWorld(rt, hlsim.Options{Agreement: "a", Accounts: accounts}, func(rt *rapid.T, w *hlsim.World) {
			admin := loginAs(rt, w, "10.18.9.1:1", "admin", "adminpw", "admin")
			var cs []*hlsim.Conn
			for i := 0; i < n; i++ {
				cs = append(cs, loginAs(rt, w, fmt.Sprintf("10.18.9.%d:1", i+10), fmt.Sprintf("p%d", i), "pw", fmt.Sprintf("poster%d", i)))
			}
			cat := []string{"Cat"}
			if !okReply(admin.Request(hlref.TranNewNewsCat, sfld(hlref.FNewsCatName, "Cat"))) {
				rt.Fatalf("harness: new category")
			}
			type art struct {
				title, poster, body string
				parent              uint32
			}
			model := map[uint32]art{}
			list := func(ctx string) map[uint32]art {
				r := admin.Request(hlref.TranGetNewsArtNameList, newsPath(cat))
				if !okReply(r) {
					rt.Fatalf("%s: article list refused", ctx)
				}
				d, _ := r.Get(hlref.FNewsArtListData)
				_, _, _, es, err := hlref.DecodeNewsArtList(d)
				if err != nil {
					rt.Fatalf("%s: article list not parseable: %v", ctx, err)
				}
				out := map[uint32]art{}
				last := uint32(0)
				for _, e := range es {
					if _, dup := out[e.ID]; dup || e.ID <= last {
						rt.Fatalf("%s: article list is not in strictly increasing id order at id %d", ctx, e.ID)
					}
					last = e.ID
					r := admin.Request(hlref.TranGetNewsArtData, newsPath(cat), fld(hlref.FNewsArtID, hlref.BE32(int(e.ID))), sfld(hlref.FNewsArtDataFlav, "text/plain"))
					if !okReply(r) {
						rt.Fatalf("%s: listed article #%d is not retrievable", ctx, e.ID)
					}
					ti, _ := r.Get(hlref.FNewsArtTitle)
					po, _ := r.Get(hlref.FNewsArtPoster)
					bo, _ := r.Get(hlref.FNewsArtData)
					pa, _ := r.Get(hlref.FNewsArtParentArt)
					if string(ti) != string(e.Title) || len(bo) != e.BodySize {
						rt.Fatalf("%s: article #%d: list says title %q / %d bytes, get-article says %q / %d bytes", ctx, e.ID, e.Title, e.BodySize, ti, len(bo))
					}
					out[e.ID] = art{string(ti), string(po), string(bo), uint32(hlref.U32(pa))}
				}
				return out
			}
			// match compares the category with the model plus the round's posts (whose ids the server chose)
			match := func(ctx string, got map[uint32]art, posted []art) {
				rest := map[uint32]art{}
				for id, a := range got {
					rest[id] = a
				}
				for id, a := range model {
					if g, ok := rest[id]; !ok || g != a {
						rt.Fatalf("%s: article #%d (%q by %s) is %v now (present=%v)", ctx, id, a.title, a.poster, g.title, ok)
					}
					delete(rest, id)
				}
				for _, p := range posted {
					found := false
					for id, g := range rest {
						if g == p {
							delete(rest, id)
							found = true
							break
						}
					}
					if !found {
						rt.Fatalf("%s: the accepted post %q by %s (%d bytes, parent %d) is not in the category; %d of %d posts of the round are present, category has %d articles", ctx, p.title, p.poster, len(p.body), p.parent, len(got)-len(model)-len(rest), len(posted), len(got))
					}
				}
				if len(rest) != 0 {
					rt.Fatalf("%s: the category holds %d articles nobody posted", ctx, len(rest))
				}
			}
			for round := 0; round < rounds; round++ {
				var ids []uint32
				for id := range model {
					ids = append(ids, id)
				}
				sort.Slice(ids, func(i, j int) bool { return ids[i] < ids[j] })
				parent := uint32(0)
				if replyTo[round] && len(ids) > 0 {
					parent = ids[len(ids)/2]
				}
				var victim uint32
				if withDelete[round] && len(ids) > 1 {
					victim = ids[0]
					if victim == parent {
						victim = ids[1]
					}
				}
				var posted []art
				var reqIDs []uint32
				for i, c := range cs {
					a := art{fmt.Sprintf("r%d-p%d", round, i), fmt.Sprintf("poster%d", i), string(bytes.Repeat([]byte{byte('a' + i)}, sizes[round])), parent}
					posted = append(posted, a)
					id := c.NewID()
					reqIDs = append(reqIDs, id)
					c.SendAsync(hlref.Tran{Type: hlref.TranPostNewsArt, ID: id, Fields: []hlref.Field{newsPath(cat), fld(hlref.FNewsArtID, hlref.BE32(int(parent))), sfld(hlref.FNewsArtTitle, a.title), sfld(hlref.FNewsArtDataFlav, "text/plain"), sfld(hlref.FNewsArtData, a.body)}}.Encode())
				}
				if victim != 0 {
					admin.SendAsync(hlref.Tran{Type: hlref.TranDelNewsArt, ID: admin.NewID(), Fields: []hlref.Field{newsPath(cat), fld(hlref.FNewsArtID, hlref.BE32(int(victim)))}}.Encode())
				}
				settle(0)
				for i, c := range cs {
					ok := false
					for _, tr := range c.TakeInbox() {
						if tr.IsReply == 1 && tr.ID == reqIDs[i] && tr.Err == 0 {
							ok = true
						}
					}
					if !ok {
						rt.Fatalf("round %d: poster %d got no positive reply to its post", round, i)
					}
				}
				admin.TakeInbox()
				if victim != 0 {
					delete(model, victim)
				}
				ctx := fmt.Sprintf("round %d (%d users posted %d-byte articles at the same instant, parent %d, concurrent delete of #%d)", round, n, sizes[round], parent, victim)
				got := list(ctx)
				match(ctx, got, posted)
				model = got
			}
			if err := w.News.Load(); err != nil {
				rt.Fatalf("reload of the news file: %v", err)
			}
			match("after reloading the news file", list("after reloading the news file"), nil)
		})
		ev.Case(evid.Hash("c18burst", n, fmt.Sprint(sizes), fmt.Sprint(withDelete), fmt.Sprint(replyTo)), true, "burst", fmt.Sprintf("posters:%d", n))
		ev.Label("burst_rounds", rounds)
		if ev.WantSample() {
			ev.Sample(map[string]any{"engine": "bubble, concurrent handlers", "posters": n, "rounds": rounds, "body_sizes": sizes, "concurrent_delete": withDelete})
		}
	})
}

// TestC18KeyBlockScalar decides the class of category / bundle names that the state machine's
// name pool does not contain: names that hold a line break and start with a line break, a tab
// or a line separator.  They are the keys of the YAML mappings, which mobius hands to yaml.v3
// unprotected (known finding yaml-key-block-scalar).
func TestC18KeyBlockScalar(t *testing.T) {
	ev := evid.New("C18", "TestC18KeyBlockScalar")
	defer ev.Flush()
	rapid.Check(t, func(rt *rapid.T) {
		name := rapid.SampledFrom([]string{"\n", "\t\n", " \n", "\tx\n", "\nx"}).Draw(rt, "lead") + strings.ReplaceAll(strings.ToValidUTF8(string(genBytes(rt, "rest", rapid.IntRange(0, 8).Draw(rt, "len"))), "?"), "\x00", "0")
		bundle := rapid.Bool().Draw(rt, "bundle")
		inWorld(rt, hlsim.Options{Agreement: "a", Accounts: []hlsim.AccountSpec{acct("admin", "Admin", "adminpw", allAccess)}}, func(rt *rapid.T, w *hlsim.World) {
			c := loginAs(rt, w, "10.0.0.1:1", "admin", "adminpw", "admin")
			var r *hlref.Tran
			if bundle {
				r = c.Request(hlref.TranNewNewsFldr, sfld(hlref.FFileName, name))
			} else {
				r = c.Request(hlref.TranNewNewsCat, sfld(hlref.FNewsCatName, name))
			}
			if !okReply(r) {
				rt.Fatalf("harness: creating %q refused", name)
			}
			listed := func() []string {
				var out []string
				for _, d := range c.Request(hlref.TranGetNewsCatNameList).GetAll(hlref.FNewsCatListData15) {
					cat, err := hlref.DecodeNewsCat(d)
					if err != nil {
						rt.Fatalf("category listing unparseable: %v", err)
					}
					out = append(out, string(cat.Name))
				}
				return out
			}
			if got := listed(); len(got) != 1 || got[0] != name {
				rt.Fatalf("after creating %q the root lists %q", name, got)
			}
			err := w.News.Load()
			if err == nil {
				if got := listed(); len(got) == 1 && got[0] == name {
					return
				}
			}
			if ev.IsKnown("yaml-key-block-scalar") {
				return
			}
			rt.Fatalf("after creating the category/bundle %q the news file does not reproduce it on reload (load error: %v, listed: %q)", name, err, listed())
		})
		ev.Case(evid.Hash("key", name, bundle), true, "block-scalar-key")
	})
}
