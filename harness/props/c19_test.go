package props

// C19 — message board and agreement are served whole and lose no post.

import (
	"bytes"
	"fmt"
	"os"
	"path/filepath"
	"regexp"
	"runtime"
	"sort"
	"strings"
	"sync"
	"testing"
	"time"

	"pgregory.net/rapid"

	"verif/harness/evid"
	"verif/harness/hlref"
	"verif/harness/hlsim"
)

const boardRule = "__________________________________________________________"

// c19format: how a post looks on the board.  The default is the protocol's format; the server's configuration can
// replace the date layout and the whole template (a format string with poster, date and text).
type c19format struct {
	head *regexp.Regexp // matches the start of a post up to the text, capturing the poster's name
	tail string         // what follows the text
}

var c19default = c19format{head: regexp.MustCompile(`^From ([^\r]*) \(([A-Z][a-z]{2}\d\d \d\d:\d\d)\):\r\r`), tail: "\r\r" + boardRule + "\r"}

// the configured variants used by TestC19: a custom date layout, a custom template, both
const (
	c19customDate     = "2006-01-02 15:04"
	c19customTemplate = "** %s wrote on %s **\r%s\r==end of post=="
)

var c19formats = map[string]c19format{
	"default":   c19default,
	"date":      {head: regexp.MustCompile(`^From ([^\r]*) \((\d{4}-\d\d-\d\d \d\d:\d\d)\):\r\r`), tail: "\r\r" + boardRule + "\r"},
	"template":  {head: regexp.MustCompile(`^\*\* ([^\r]*) wrote on ([A-Z][a-z]{2}\d\d \d\d:\d\d) \*\*\r`), tail: "\r==end of post==\r"},
	"date+tmpl": {head: regexp.MustCompile(`^\*\* ([^\r]*) wrote on (\d{4}-\d\d-\d\d \d\d:\d\d) \*\*\r`), tail: "\r==end of post==\r"},
}

// c19cur is the format of the case being run (cases run one after another)
var c19cur = c19default

// c19when: the instants at which posts of the running case were sent (empty: stamps are not compared); c19layout: the
// date layout in force
var (
	c19when   []time.Time
	c19layout = "Jan02 15:04"
	c19maybe  []c19post // posts of the running case that were sent while the board file could not be written, and not acknowledged
)

// expectedPost renders a post the way the protocol's board format prescribes, with the
// date left as a pattern.
func postMatches(block []byte, name string, text []byte) bool {
	m := c19cur.head.FindSubmatch(block)
	if m == nil || string(m[1]) != name {
		return false
	}
	// the date stamp is the time of the post in the configured layout (24-hour clock in the default one)
	if len(c19when) > 0 {
		ok := false
		for _, w := range c19when {
			if string(m[2]) == w.Format(c19layout) || string(m[2]) == w.Add(time.Minute).Format(c19layout) {
				ok = true
			}
		}
		if !ok {
			return false
		}
	}
	want := append(bytes.ReplaceAll(text, []byte("\n"), []byte("\r")), []byte(c19cur.tail)...)
	return bytes.Equal(block[len(m[0]):], want)
}

// splitBoard cuts the board into leading post blocks and the remaining (initial) text.
func splitBoard(b []byte) (posts [][]byte, rest []byte) {
	sep := []byte(c19cur.tail)
	for {
		if !c19cur.head.Match(b) {
			return posts, b
		}
		i := bytes.Index(b, sep)
		if i < 0 {
			return posts, b
		}
		posts = append(posts, b[:i+len(sep)])
		b = b[i+len(sep):]
	}
}

type c19post struct {
	id   int
	name string
	text []byte
}

// c19verifyBoard checks that the board is: every acknowledged post exactly once (newest
// first, any interleaving among concurrent ones) followed by the initial text.
func c19verifyBoard(board []byte, initial []byte, posts []c19post) string {
	blocks, rest := splitBoard(board)
	if !bytes.Equal(rest, initial) {
		return fmt.Sprintf("after %d post blocks the board continues with %d bytes that are not the initial text (%d bytes); first difference at %d", len(blocks), len(rest), len(initial), firstDiff(rest, initial))
	}
	if len(blocks) < len(posts) || len(blocks) > len(posts)+len(c19maybe) {
		return fmt.Sprintf("board holds %d posts, %d were acknowledged (and %d more were sent but not acknowledged)", len(blocks), len(posts), len(c19maybe))
	}
	used := make([]bool, len(posts))
	usedMaybe := make([]bool, len(c19maybe))
	for bi, b := range blocks {
		found := false
		for i, p := range posts {
			if !used[i] && postMatches(b, p.name, p.text) {
				used[i], found = true, true
				break
			}
		}
		for i, p := range c19maybe {
			// a post that was sent but never acknowledged (its write failed) may be on the board or not
			if !found && !usedMaybe[i] && postMatches(b, p.name, p.text) {
				usedMaybe[i], found = true, true
			}
		}
		if !found {
			return fmt.Sprintf("post block %d of the board (%d bytes: %q...) is not one of the acknowledged posts in the protocol's format", bi, len(b), b[:min(len(b), 60)])
		}
	}
	for i, p := range posts {
		if !used[i] {
			return fmt.Sprintf("acknowledged post %d by %s is not on the board", p.id, p.name)
		}
	}
	return ""
}

// isVersion reports whether reply is a version of the board: a suffix of final that
// starts at a post boundary and contains at least the last minPosts posts.
func isVersion(reply, final []byte, nFinalPosts, minPosts int) bool {
	blocks, _ := splitBoard(final)
	off := 0
	for i := 0; i <= len(blocks); i++ {
		if nFinalPosts-i >= minPosts && bytes.Equal(reply, final[off:]) {
			return true
		}
		if i < len(blocks) {
			off += len(blocks[i])
		}
	}
	return false
}

func c19genText(rt *rapid.T, label string, id int) []byte {
	n := rapid.SampledFrom([]int{1, 10, 200, 700, 2000}).Draw(rt, label+"_len")
	b := []byte(fmt.Sprintf("post-%d ", id))
	for len(b) < n {
		switch rapid.IntRange(0, 5).Draw(rt, fmt.Sprintf("%s_%d", label, len(b))) {
		case 0:
			b = append(b, '\n')
		case 1:
			// text as period clients send it: Mac Roman letters, which are not valid UTF-8
			b = append(b, 'Z', 'o', 0x91, ' ', 0x8e, 0xff, ' ')
		default:
			b = append(b, []byte("lorem ")...)
		}
	}
	return b
}

func c19prop(ev *evid.Rec) func(rt *rapid.T) {
	return func(rt *rapid.T) {
		boardSize := rapid.SampledFrom([]int{0, 100, 513, 5000, 33000, 60000}).Draw(rt, "board")
		agreeSize := rapid.SampledFrom([]int{0, 100, 513, 5000, 33000, 60000}).Draw(rt, "agreement")
		initial := bytes.Repeat([]byte("old board l\x8ene\r"), boardSize/15+1)[:boardSize] // (0x8e: Mac Roman e-acute)
		agreement := bytes.Repeat([]byte("agreement t\x8ext.\r"), agreeSize/16+1)[:agreeSize]
		nclients := rapid.IntRange(2, 7).Draw(rt, "nclients")
		nrounds := rapid.IntRange(1, 4).Draw(rt, "rounds")
		type round struct{ readers, posters []int }
		var rounds []round
		var texts [][]byte
		pid := 0
		for r := 0; r < nrounds; r++ {
			var rd round
			nr := rapid.IntRange(1, 6).Draw(rt, fmt.Sprintf("r%d_readers", r))
			np := rapid.IntRange(0, 4).Draw(rt, fmt.Sprintf("r%d_posters", r))
			for i := 0; i < nr; i++ {
				rd.readers = append(rd.readers, rapid.IntRange(0, nclients-1).Draw(rt, fmt.Sprintf("r%d_reader%d", r, i)))
			}
			for i := 0; i < np; i++ {
				rd.posters = append(rd.posters, rapid.IntRange(0, nclients-1).Draw(rt, fmt.Sprintf("r%d_poster%d", r, i)))
				pid++
				texts = append(texts, c19genText(rt, fmt.Sprintf("r%d_text%d", r, i), pid))
			}
			rounds = append(rounds, rd)
		}
		// the board must stay within the 64 KiB field the property quantifies over: shorten post texts if needed
		room := 64000 - boardSize
		for i := range texts {
			if len(texts[i])+130 > room/max(len(texts)-i, 1) {
				texts[i] = texts[i][:max(min(len(texts[i]), room/max(len(texts)-i, 1)-130), 8)]
			}
			room -= len(texts[i]) + 130
		}
		nlogin := rapid.IntRange(2, 8).Draw(rt, "nlogins")
		staleTmp := rapid.IntRange(0, 3).Draw(rt, "staleTmp") == 0
		editAgreement := rapid.IntRange(0, 2).Draw(rt, "editAgreement") == 0
		failedReload := rapid.IntRange(0, 2).Draw(rt, "failedReload") == 0
		overlap := false
		// the operator's configuration of the post format: default, custom date layout, custom template, both
		variant := rapid.SampledFrom([]string{"default", "default", "date", "template", "date+tmpl"}).Draw(rt, "postFormat")
		c19cur = c19formats[variant]
		c19when, c19layout = nil, "Jan02 15:04"
		if strings.Contains(variant, "date") {
			c19layout = c19customDate
		}
		c19maybe = nil
		defer func() { c19cur, c19when, c19layout, c19maybe = c19default, nil, "Jan02 15:04", nil }()
		failedPost := rapid.IntRange(0, 3).Draw(rt, "failedPost") == 0
		// the operator's reload request (SIGHUP) may arrive at any moment, also while posts are being made
		reloadsDuringRounds := rapid.IntRange(0, 2).Draw(rt, "reloadsDuringRounds") == 0
		// ... and the operator may replace the board file by a much shorter one and reload while clients are reading
		trimDuringReads := rapid.IntRange(0, 3).Draw(rt, "trimDuringReads") == 0
		// the time of day at which the case plays (the bubble's clock starts at midnight)
		startAfter := time.Duration(rapid.IntRange(0, 24*60-1).Draw(rt, "startMinuteOfDay")) * time.Minute
		opt := hlsim.Options{Agreement: string(agreement), Board: string(initial), Accounts: []hlsim.AccountSpec{acct("admin", "Admin", "adminpw", func() hlref.Access { a := hlref.AllAccess().Defined(); a.Clear(hlref.PrivNoAgreement); return a }())}}
		if strings.Contains(variant, "date") {
			opt.NewsDateFormat = c19customDate
		}
		if strings.Contains(variant, "tmpl") || variant == "template" {
			opt.NewsDelimiter = c19customTemplate
		}
		inWorld(rt, opt, func(rt *rapid.T, w *hlsim.World) {
			if staleTmp {
				// what a server that died between writing and renaming leaves behind: it must not leak into later posts
				must(os.WriteFile(filepath.Join(w.Cfg, "MessageBoard.txt.tmp"), bytes.Repeat([]byte("LEFTOVER OF A CRASHED UPDATE\r"), 400), 0o644))
			}
			var cs []*hlsim.Conn
			for i := 0; i < nclients; i++ {
				cs = append(cs, loginAs(rt, w, fmt.Sprintf("10.19.0.%d:1", i+1), "admin", "adminpw", fmt.Sprintf("c%d", i)))
			}
			for _, c := range cs {
				c.TakeInbox()
			}
			// one more client does nothing but react: whenever it is told about a new post it asks for the board at once.  The
			// board it is served holds that post.  (Not while the operator swaps boards or reloads: then posts may go.)
			type c19fired struct {
				id  uint32
				tok string
			}
			var reactive *hlsim.Conn
			var firedMu sync.Mutex
			var fired []c19fired
			if !trimDuringReads && !reloadsDuringRounds && !failedReload && !failedPost && rapid.Bool().Draw(rt, "reactiveReader") {
				reactive = loginAs(rt, w, "10.19.0.99:1", "admin", "adminpw", "reactive")
				reactive.TakeInbox()
				rc := reactive
				rid := uint32(500000)
				rc.ReadHook = func(n int) {
					b := rc.Tail(n)
					if len(b) < 22 || b[1] != 0 || b[2] != 0 || b[3] != byte(hlref.TranNewMsg) {
						return
					}
					i := bytes.Index(b, []byte("post-"))
					if i < 0 {
						return
					}
					j := i + 5
					for j < len(b) && b[j] >= '0' && b[j] <= '9' {
						j++
					}
					firedMu.Lock()
					rid++
					fired = append(fired, c19fired{rid, string(b[i:j]) + " "})
					my := rid
					firedMu.Unlock()
					rc.SendAsync(hlref.Tran{Type: hlref.TranGetMsgs, ID: my}.Encode())
				}
			}
			var acked []c19post
			ti := 0
			id := uint32(100)
			time.Sleep(startAfter)
			for ri, rd := range rounds {
				c19when = append(c19when, time.Now())
				if trimDuringReads && ri == len(rounds)/2 && ri > 0 {
					// every client asks for the board three times while the operator swaps in a short board and reloads.  What
					// those readers get is not judged (the edit is the operator's, not a post); the board is the short text
					// from then on, and everything that follows is served as usual
					for _, c := range cs {
						for k := 0; k < 3; k++ {
							id++
							c.SendAsync(hlref.Tran{Type: hlref.TranGetMsgs, ID: id}.Encode())
						}
					}
					initial = []byte("the operator cleared the board\r")
					var tg sync.WaitGroup
					tg.Add(1)
					go func() {
						defer tg.Done()
						must(os.WriteFile(filepath.Join(w.Cfg, "MessageBoard.txt"), initial, 0o644))
						_ = w.Board.Reload()
					}()
					tg.Wait()
					settle(0)
					for _, c := range cs {
						c.TakeInbox()
					}
					acked, c19maybe = nil, nil
				}
				if failedPost && ri == (len(rounds)+1)/2 {
					// a post arrives while the board file cannot be rewritten (something sits where the temporary file goes).
					// Whether that post makes it is the server's business - it is not acknowledged, so nothing is claimed about
					// it; but the fault is over afterwards and everything that follows is served as usual
					tmp := filepath.Join(w.Cfg, "MessageBoard.txt.tmp")
					os.RemoveAll(tmp)
					must(os.MkdirAll(filepath.Join(tmp, "in the way"), 0o755))
					id++
					lost := c19post{id: 9000 + ri, name: "c0", text: []byte(fmt.Sprintf("post-%d sent while the board could not be saved", 9000+ri))}
					r := cs[0].Request(hlref.TranOldPostNews, fld(hlref.FData, lost.text))
					must(os.RemoveAll(tmp))
					if okReply(r) {
						acked = append(acked, lost) // acknowledged: then it is a post like any other (on disk, kept)
					} else {
						c19maybe = append(c19maybe, lost)
					}
					// whoever is told about a post finds it on the board
					told := false
					for _, c := range cs {
						for _, tr := range c.TakeInbox() {
							if d, _ := tr.Get(hlref.FData); tr.Type == hlref.TranNewMsg && bytes.Contains(d, lost.text) {
								told = true
							}
						}
					}
					if told {
						br := cs[len(cs)-1].Request(hlref.TranGetMsgs)
						if bd, _ := br.Get(hlref.FData); !okReply(br) || !bytes.Contains(bd, lost.text) {
							rt.Fatalf("round %d: a post made while the board file could not be written (acknowledged: %v) was announced to the connected users, but the board they are served does not hold it", ri, okReply(r))
						}
					}
					// the next post that is acknowledged brings the file up to date with what the server holds
					id++
					sync := c19post{id: 9500 + ri, name: "c0", text: []byte(fmt.Sprintf("post-%d after the fault", 9500+ri))}
					if r := cs[0].Request(hlref.TranOldPostNews, fld(hlref.FData, sync.text)); !okReply(r) {
						rt.Fatalf("round %d: after a post that failed because the board file could not be written, the next post is not acknowledged: %s", ri, replySummary(r))
					}
					acked = append(acked, sync)
					for _, c := range cs {
						c.TakeInbox()
					}
					c19when = append(c19when, time.Now())
				}
				if failedReload && ri == len(rounds)/2 {
					// a reload is requested while the board file cannot be read (moved aside by the operator's editor): the
					// reload fails, and the board the server holds - every post so far - stays what it was
					fp := filepath.Join(w.Cfg, "MessageBoard.txt")
					must(os.Rename(fp, fp+".aside"))
					_ = w.Board.Reload()
					must(os.Rename(fp+".aside", fp))
				}
				type pending struct {
					client int
					id     uint32
					post   *c19post
				}
				var pend []pending
				for _, c := range rd.readers {
					id++
					pend = append(pend, pending{client: c, id: id})
					cs[c].SendAsync(hlref.Tran{Type: hlref.TranGetMsgs, ID: id}.Encode())
				}
				for _, c := range rd.posters {
					id++
					p := &c19post{id: ti + 1, name: fmt.Sprintf("c%d", c), text: texts[ti]}
					ti++
					pend = append(pend, pending{client: c, id: id, post: p})
					cs[c].SendAsync(hlref.Tran{Type: hlref.TranOldPostNews, ID: id, Fields: []hlref.Field{fld(hlref.FData, p.text)}}.Encode())
				}
				if len(rd.readers) >= 2 && boardSize > 512 || (len(rd.readers) >= 1 && len(rd.posters) >= 1) {
					overlap = true
				}
				if reloadsDuringRounds {
					var rg sync.WaitGroup
					for g := 0; g < 4; g++ {
						rg.Add(1)
						go func() {
							defer rg.Done()
							for k := 0; k < 6; k++ {
								_ = w.Board.Reload()
							}
						}()
					}
					rg.Wait()
				}
				settle(0)
				if reactive != nil {
					got := map[uint32][]byte{}
					for _, tr := range reactive.TakeInbox() {
						if tr.IsReply == 1 {
							d, _ := tr.Get(hlref.FData)
							got[tr.ID] = d
						}
					}
					firedMu.Lock()
					fl := fired
					fired = nil
					firedMu.Unlock()
					for _, f := range fl {
						if d, ok := got[f.id]; !ok || !bytes.Contains(d, []byte(f.tok)) {
							rt.Fatalf("round %d: a client that was told about the new post %q asked for the board at once and was served a board without it (answered: %v, %d bytes)", ri, strings.TrimSpace(f.tok), ok, len(d))
						}
					}
				}
				before := len(acked)
				inbox := make([][]hlref.Tran, nclients)
				for i, c := range cs {
					inbox[i] = c.TakeInbox()
				}
				find := func(client int, rid uint32) *hlref.Tran {
					for i := range inbox[client] {
						if t := &inbox[client][i]; t.IsReply == 1 && t.ID == rid {
							return t
						}
					}
					return nil
				}
				var newPosts []c19post
				for _, p := range pend {
					if p.post == nil {
						continue
					}
					if r := find(p.client, p.id); !okReply(r) {
						rt.Fatalf("round %d: post %d by client %d was not acknowledged: %s", ri, p.post.id, p.client, replySummary(r))
					}
					newPosts = append(newPosts, *p.post)
				}
				acked = append(acked, newPosts...)
				file, _ := os.ReadFile(filepath.Join(w.Cfg, "MessageBoard.txt"))
				if e := c19verifyBoard(file, initial, acked); e != "" {
					rt.Fatalf("round %d (%d readers, %d posters): MessageBoard.txt after the acknowledgements: %s", ri, len(rd.readers), len(rd.posters), e)
				}
				for _, p := range pend {
					if p.post != nil {
						continue
					}
					r := find(p.client, p.id)
					if !okReply(r) {
						rt.Fatalf("round %d: get-messages of client %d not answered", ri, p.client)
					}
					d, _ := r.Get(hlref.FData)
					if !isVersion(d, file, len(acked), before) {
						rt.Fatalf("round %d (%d readers, %d posters, board %d bytes): client %d received %d bytes that are not the complete board at any instant of the round (board now %d bytes; first difference to the current board at %d)", ri, len(rd.readers), len(rd.posters), boardSize, p.client, len(d), len(file), firstDiff(d, file))
					}
				}
				// every post is announced exactly once to every connected client
				for i := range cs {
					var ann [][]byte
					for _, t := range inbox[i] {
						if t.Type == hlref.TranNewMsg && t.IsReply == 0 {
							d, _ := t.Get(hlref.FData)
							ann = append(ann, d)
						}
					}
					if len(ann) != len(newPosts) {
						rt.Fatalf("round %d: client %d received %d new-message announcements for %d posts", ri, i, len(ann), len(newPosts))
					}
					used := make([]bool, len(newPosts))
					for _, a := range ann {
						ok := false
						for k, p := range newPosts {
							if !used[k] && postMatches(a, p.name, p.text) {
								used[k], ok = true, true
								break
							}
						}
						if !ok {
							rt.Fatalf("round %d: client %d received an announcement that is not one of the round's posts: %q", ri, i, a[:min(len(a), 80)])
						}
					}
				}
			}
			// ---- the operator may have edited the agreement file (with the line ends of its editor) and reloaded it:
			// "the complete current text" is then the new file, line ends converted like at start-up
			if editAgreement {
				edited := bytes.ReplaceAll(append([]byte("NEW TERMS\n"), agreement...), []byte("\r"), []byte("\n"))
				must(os.WriteFile(filepath.Join(w.Cfg, "Agreement.txt"), edited, 0o644))
				if err := w.Agreement.Reload(); err != nil {
					rt.Fatalf("agreement reload: %v", err)
				}
				agreement = bytes.ReplaceAll(edited, []byte("\n"), []byte("\r"))
			}
			// ---- simultaneous logins against the agreement
			var ls []*hlsim.Conn
			for i := 0; i < nlogin; i++ {
				ls = append(ls, w.Connect(fmt.Sprintf("10.19.1.%d:1", i+1)))
			}
			for i, c := range ls {
				lo := hlsim.LoginOpts{Login: "admin", Password: "adminpw"}
				if i%2 == 0 {
					lo.Name, lo.Icon = []byte(fmt.Sprintf("l%d", i)), 1
				} else {
					lo.Version = hlref.BE16(190)
				}
				c.SendAsync(append(hlref.Handshake(1, 2), hlref.Tran{Type: hlref.TranLogin, ID: 9, Fields: lo.Fields()}.Encode()...))
			}
			settle(0)
			for i, c := range ls {
				if _, ok := c.Take(8); !ok {
					rt.Fatalf("login %d: no handshake reply", i)
				}
				n := 0
				for _, t := range c.TakeInbox() {
					if t.Type == hlref.TranShowAgreement {
						n++
						d, _ := t.Get(hlref.FData)
						if !bytes.Equal(d, agreement) {
							rt.Fatalf("%d clients logging in at once: client %d was shown %d bytes of agreement, the agreement has %d bytes (first difference at %d)", nlogin, i, len(d), len(agreement), firstDiff(d, agreement))
						}
					}
				}
				if n != 1 {
					rt.Fatalf("login %d received %d show-agreement transactions", i, n)
				}
			}
			if agreeSize > 512 {
				overlap = true
			}
		})
		ev.Case(evid.Hash(boardSize, agreeSize, fmt.Sprint(rounds), nlogin, fmt.Sprint(len(texts)), variant, editAgreement, staleTmp, failedReload, failedPost, reloadsDuringRounds, trimDuringReads), overlap, fmt.Sprintf("board:%d", boardSize), fmt.Sprintf("agreement:%d", agreeSize), "post-format:"+variant)
		if overlap && ev.WantSample() {
			ev.Sample(map[string]any{"engine": "bubble", "board_bytes": boardSize, "agreement_bytes": agreeSize, "rounds(readers/posters by client)": fmt.Sprint(rounds), "simultaneous_logins": nlogin})
		}
	}
}

func TestC19(t *testing.T) {
	ev := evid.New("C19", "TestC19")
	defer ev.Flush()
	rapid.Check(t, c19prop(ev))
}

// TestC19Live: real goroutines, production pump, real scheduler.
func TestC19Live(t *testing.T) {
	ev := evid.New("C19", "TestC19Live")
	defer ev.Flush()
	budget := 12 * time.Second
	if thorough() {
		budget = 4 * time.Minute
	}
	if b := os.Getenv("VERIF_LIVE_BUDGET"); b != "" {
		var secs int
		fmt.Sscan(b, &secs)
		budget = time.Duration(secs) * time.Second
	}
	prev := hlsim.Quiesce
	hlsim.Quiesce = hlsim.LiveQuiesce
	defer func() { hlsim.Quiesce = prev }()
	seed := uint64(1)
	fmt.Sscan(os.Getenv("VERIF_SEED"), &seed)
	sh, _ := shardInfo()
	rng := seed*15485863 + uint64(sh)*32452843
	next := func(n int) int {
		rng += 0x9e3779b97f4a7c15
		z := rng
		z = (z ^ (z >> 30)) * 0xbf58476d1ce4e5b9
		z = (z ^ (z >> 27)) * 0x94d049bb133111eb
		return int((z ^ (z >> 31)) % uint64(n))
	}
	initial := bytes.Repeat([]byte("old board line\r"), 2200)
	agreement := bytes.Repeat([]byte("agreement text.\r"), 2100)
	acc := hlref.AllAccess().Defined()
	acc.Clear(hlref.PrivNoAgreement)
	deadline := time.Now().Add(budget)
	rounds := 0
	id := uint32(100)
	for time.Now().Before(deadline) { // one episode per world; a new world when the board approaches the 64 KiB field limit
		w, err := hlsim.New(worldBase(), hlsim.Options{Agreement: string(agreement), Board: string(initial), ProductionPump: true, Accounts: []hlsim.AccountSpec{acct("admin", "Admin", "adminpw", acc)}})
		if err != nil {
			t.Fatalf("harness: %v", err)
		}
		w.Start()
		const n = 6
		var cs []*hlsim.Conn
		for i := 0; i < n; i++ {
			c := w.Connect(fmt.Sprintf("10.19.2.%d:1", i+1))
			if c.Login(hlsim.LoginOpts{Login: "admin", Password: "adminpw", Name: []byte(fmt.Sprintf("c%d", i)), Icon: 1}) == nil {
				t.Fatalf("harness: live login failed (%s)", hlsim.LiveStuck)
			}
			cs = append(cs, c)
		}
		hlsim.Quiesce()
		for _, c := range cs {
			c.TakeInbox()
		}
		var acked []c19post
		boardFile := filepath.Join(w.Cfg, "MessageBoard.txt")
		for time.Now().Before(deadline) {
			rounds++
			runtime.GOMAXPROCS([]int{4, 8, 16}[next(3)])
			// keep the board within the 64 KiB field: start a fresh world state by truncating history when it grows
			if len(initial)+len(acked)*400 > 58000 {
				break
			}
			type job struct {
				client int
				id     uint32
				post   *c19post
			}
			var jobs []job
			nr, np := 1+next(5), next(4)
			for i := 0; i < nr; i++ {
				id++
				jobs = append(jobs, job{client: next(n), id: id})
			}
			for i := 0; i < np; i++ {
				id++
				c := next(n)
				jobs = append(jobs, job{client: c, id: id, post: &c19post{id: int(id), name: fmt.Sprintf("c%d", c), text: []byte(fmt.Sprintf("live-post-%d line one\nline two %s", id, strings.Repeat("x", next(200))))}})
			}
			before := len(acked)
			var wg sync.WaitGroup
			var mu sync.Mutex
			var lateFile []string
			for _, j := range jobs {
				wg.Add(1)
				go func(j job) {
					defer wg.Done()
					if j.post == nil {
						cs[j.client].SendAsync(hlref.Tran{Type: hlref.TranGetMsgs, ID: j.id}.Encode())
						return
					}
					cs[j.client].SendAsync(hlref.Tran{Type: hlref.TranOldPostNews, ID: j.id, Fields: []hlref.Field{fld(hlref.FData, j.post.text)}}.Encode())
					// the instant the poster holds the acknowledgement the post must be in MessageBoard.txt
					stop := time.Now().Add(3 * time.Second)
					for time.Now().Before(stop) {
						got := false
						for _, tr := range cs[j.client].PeekTrans() {
							if tr.IsReply == 1 && tr.ID == j.id && tr.Err == 0 {
								got = true
							}
						}
						if got {
							f, _ := os.ReadFile(boardFile)
							want := bytes.ReplaceAll(j.post.text, []byte("\n"), []byte("\r"))
							if !bytes.Contains(f, want) {
								mu.Lock()
								lateFile = append(lateFile, fmt.Sprintf("post %d acknowledged to client %d but not in MessageBoard.txt at that moment", j.id, j.client))
								mu.Unlock()
							}
							return
						}
						time.Sleep(50 * time.Microsecond)
					}
				}(j)
			}
			wg.Wait()
			hlsim.Quiesce()
			if hlsim.LiveStuck != "" {
				t.Fatalf("VERIF-INCONCLUSIVE live world did not become quiescent (%q)", hlsim.LiveStuck)
			}
			if len(lateFile) > 0 {
				t.Fatalf("VERIF-VIOLATION live round %d: %s", rounds, strings.Join(lateFile, "; "))
			}
			inbox := make([][]hlref.Tran, n)
			for i, c := range cs {
				inbox[i] = c.TakeInbox()
				if c.Bad != nil {
					t.Fatalf("VERIF-VIOLATION live round %d: client %d stream unparseable: %v", rounds, i, c.Bad)
				}
			}
			find := func(client int, rid uint32) *hlref.Tran {
				for i := range inbox[client] {
					if tr := &inbox[client][i]; tr.IsReply == 1 && tr.ID == rid {
						return tr
					}
				}
				return nil
			}
			var newPosts []c19post
			for _, j := range jobs {
				if j.post != nil {
					if !okReply(find(j.client, j.id)) {
						t.Fatalf("VERIF-VIOLATION live round %d: post by client %d not acknowledged", rounds, j.client)
					}
					newPosts = append(newPosts, *j.post)
				}
			}
			acked = append(acked, newPosts...)
			file, _ := os.ReadFile(boardFile)
			if e := c19verifyBoard(file, initial, acked); e != "" {
				t.Fatalf("VERIF-VIOLATION live round %d (%d readers, %d posters): MessageBoard.txt: %s", rounds, nr, np, e)
			}
			for _, j := range jobs {
				if j.post != nil {
					continue
				}
				r := find(j.client, j.id)
				if !okReply(r) {
					t.Fatalf("VERIF-VIOLATION live round %d: get-messages of client %d not answered", rounds, j.client)
				}
				d, _ := r.Get(hlref.FData)
				if !isVersion(d, file, len(acked), before) {
					t.Fatalf("VERIF-VIOLATION live round %d (GOMAXPROCS %d, %d readers, %d posters): client %d received %d bytes that are not the complete board at any instant of the round (board now %d bytes, first difference at %d)", rounds, runtime.GOMAXPROCS(0), nr, np, j.client, len(d), len(file), firstDiff(d, file))
				}
			}
			for i := range cs {
				cnt := 0
				for _, tr := range inbox[i] {
					if tr.Type == hlref.TranNewMsg {
						cnt++
					}
				}
				if cnt != len(newPosts) {
					t.Fatalf("VERIF-VIOLATION live round %d: client %d received %d announcements for %d posts", rounds, i, cnt, len(newPosts))
				}
			}
			// simultaneous logins
			k := 2 + next(5)
			var ls []*hlsim.Conn
			for i := 0; i < k; i++ {
				ls = append(ls, w.Connect(fmt.Sprintf("10.19.%d.%d:1", 3+rounds%200, i+1)))
			}
			for i, c := range ls {
				wg.Add(1)
				go func(i int, c *hlsim.Conn) {
					defer wg.Done()
					lo := hlsim.LoginOpts{Login: "admin", Password: "adminpw", Version: hlref.BE16(190)}
					c.SendAsync(append(hlref.Handshake(1, 2), hlref.Tran{Type: hlref.TranLogin, ID: 9, Fields: lo.Fields()}.Encode()...))
				}(i, c)
			}
			wg.Wait()
			hlsim.Quiesce()
			for i, c := range ls {
				c.Take(8)
				seen := 0
				for _, tr := range c.TakeInbox() {
					if tr.Type == hlref.TranShowAgreement {
						seen++
						d, _ := tr.Get(hlref.FData)
						if !bytes.Equal(d, agreement) {
							t.Fatalf("VERIF-VIOLATION live round %d: %d simultaneous logins: client %d was shown %d bytes of agreement instead of %d (first difference at %d)", rounds, k, i, len(d), len(agreement), firstDiff(d, agreement))
						}
					}
				}
				if seen != 1 {
					t.Fatalf("VERIF-VIOLATION live round %d: login %d got %d show-agreement transactions", rounds, i, seen)
				}
				c.Close()
			}
			hlsim.Quiesce()
			for _, c := range cs {
				c.TakeInbox()
			}
			var names []string
			for _, j := range jobs {
				if j.post != nil {
					names = append(names, "post")
				} else {
					names = append(names, "read")
				}
			}
			sort.Strings(names)
			ev.Case(evid.Hash(rounds, strings.Join(names, ",")), nr >= 2 || (nr >= 1 && np >= 1), "live")
			if ev.WantSample() {
				ev.Sample(map[string]any{"engine": "live, production pump", "readers": nr, "posters": np, "simultaneous_logins": k, "board_bytes": len(file)})
			}
		}
		w.Stop()
		w.Remove()
	}
	runtime.GOMAXPROCS(runtime.NumCPU())
	ev.SetExtra("live_rounds", rounds)
}
