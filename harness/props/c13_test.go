package props

// C13 — presence converges and user IDs address one live user.

import (
	"fmt"
	"sort"
	"strings"
	"sync"
	"testing"
	"time"

	"github.com/jhalter/mobius/hotline"
	"pgregory.net/rapid"

	"verif/harness/evid"
	"verif/harness/hlref"
	"verif/harness/hlsim"
)

type rosterEntry struct {
	name        string
	icon, flags int
}

type pclient struct {
	idx        int
	login      string
	access     hlref.Access
	conn       *hlsim.Conn
	id         int
	connected  bool
	completed  bool // finished login (1.2.3 login, or agreed in the 1.5 flow)
	roster     map[int]rosterEntry
	fetched    bool
	refusePM   bool
	refuseChat bool
	autoReply  []byte
	name       []byte
}

func intOf(b []byte) int {
	switch len(b) {
	case 2:
		return hlref.U16(b)
	case 4:
		return hlref.U32(b)
	}
	return -1
}

// fold applies user-change (301) and user-left (302) notifications to a roster, the way
// the protocol describes the client's user list maintenance.
func (p *pclient) fold(ts []hlref.Tran) {
	for _, t := range ts {
		if t.IsReply != 0 {
			continue
		}
		switch t.Type {
		case hlref.TranNotifyChangeUser:
			id, _ := t.Get(hlref.FUserID)
			name, _ := t.Get(hlref.FUserName)
			icon, _ := t.Get(hlref.FUserIconID)
			flags, _ := t.Get(hlref.FUserFlags)
			p.roster[intOf(id)] = rosterEntry{name: string(name), icon: intOf(icon) & 0xffff, flags: intOf(flags)}
		case hlref.TranNotifyDeleteUser:
			id, _ := t.Get(hlref.FUserID)
			delete(p.roster, intOf(id))
		}
	}
}

type c13state struct {
	rt      *rapid.T
	w       *hlsim.World
	clients []*pclient
	admin   *pclient
	history []string
	addr    int
	nt      bool
	wrapped bool
	lastPM  map[int][]hlref.Tran
}

func (s *c13state) fail(f string, a ...any) {
	s.rt.Fatalf(f+"\nhistory: "+strings.Join(s.history, " | "), a...)
}

func (s *c13state) live() []*pclient {
	var out []*pclient
	for _, c := range s.clients {
		if c.connected {
			out = append(out, c)
		}
	}
	return out
}

func (s *c13state) byID(id int) *pclient {
	for _, c := range s.live() {
		if c.id == id {
			return c
		}
	}
	return nil
}

// collect folds pending notifications of every completed client; other traffic is kept
// per client for the action-specific checks.
func (s *c13state) collect() map[int][]hlref.Tran {
	other := map[int][]hlref.Tran{}
	for _, c := range s.live() {
		in := c.conn.TakeInbox()
		if c.fetched {
			c.fold(in)
		}
		for _, t := range in {
			if t.Type != hlref.TranNotifyChangeUser && t.Type != hlref.TranNotifyDeleteUser {
				other[c.idx] = append(other[c.idx], t)
			}
		}
	}
	return other
}

func (s *c13state) fetchRoster(c *pclient) {
	us, err := c.conn.UserList()
	if err != nil {
		s.fail("client %d: user list: %v", c.idx, err)
	}
	c.roster = map[int]rosterEntry{}
	for _, u := range us {
		c.roster[u.ID] = rosterEntry{name: string(u.Name), icon: u.Icon, flags: u.Flags}
	}
	c.fetched = true
}

func (s *c13state) invariant(ctx string) {
	s.collect()
	// fetching the list is activity: if the administrator had been marked away, the fetch clears that *after* the
	// reply was built and a change notice follows.  Fetch once to settle that, then fetch the list that is compared.
	if _, err := s.admin.conn.UserList(); err != nil {
		s.fail("%s: admin user list: %v", ctx, err)
	}
	s.collect()
	us, err := s.admin.conn.UserList()
	if err != nil {
		s.fail("%s: admin user list: %v", ctx, err)
	}
	s.admin.fold(s.admin.conn.TakeInbox())
	fresh := map[int]rosterEntry{}
	for _, u := range us {
		if _, dup := fresh[u.ID]; dup {
			s.fail("%s: user list shows id %d twice", ctx, u.ID)
		}
		fresh[u.ID] = rosterEntry{name: string(u.Name), icon: u.Icon, flags: u.Flags}
	}
	live := s.live()
	if len(fresh) != len(live) {
		var ids []int
		for _, c := range live {
			ids = append(ids, c.id)
		}
		s.fail("%s: %d users listed but %d connections are live (live ids per harness %v, listed %v): two connected users share an id or an entry was lost", ctx, len(fresh), len(live), ids, idsOf(fresh))
	}
	if n := len(s.w.Srv.ClientMgr.List()); n != len(live) {
		s.fail("%s: client registry has %d entries, %d connections are live", ctx, n, len(live))
	}
	seen := map[int]bool{}
	completed := map[int]bool{}
	for _, c := range live {
		if seen[c.id] {
			s.fail("%s: two live connections hold id %d", ctx, c.id)
		}
		seen[c.id] = true
		if _, ok := fresh[c.id]; !ok {
			s.fail("%s: live connection %d (id %d) is not in the user list %v", ctx, c.idx, c.id, idsOf(fresh))
		}
		if c.completed {
			completed[c.id] = true
		}
	}
	want := map[int]rosterEntry{}
	for id, e := range fresh {
		if completed[id] {
			want[id] = e
		}
	}
	for _, c := range live {
		if !c.fetched {
			continue
		}
		got := map[int]rosterEntry{}
		for id, e := range c.roster {
			if _, isLive := seen[id]; isLive && !completed[id] {
				continue // logged in but not yet agreed: unconstrained
			}
			got[id] = e
		}
		if fmt.Sprint(sortedRoster(got)) != fmt.Sprint(sortedRoster(want)) {
			s.fail("%s: client %d (id %d) folded roster\n  %v\nserver's current list (completed logins)\n  %v", ctx, c.idx, c.id, sortedRoster(got), sortedRoster(want))
		}
	}
}

func idsOf(m map[int]rosterEntry) []int {
	var out []int
	for id := range m {
		out = append(out, id)
	}
	sort.Ints(out)
	return out
}

func sortedRoster(m map[int]rosterEntry) []string {
	var out []string
	for _, id := range idsOf(m) {
		e := m[id]
		out = append(out, fmt.Sprintf("%d:%q/icon=%d/flags=%d", id, e.name, e.icon, e.flags))
	}
	return out
}

// learnID finds the id of a freshly connected client: the one id in its user list that no
// other live connection holds.
func (s *c13state) learnID(c *pclient) {
	us, err := c.conn.UserList()
	if err != nil {
		s.fail("client %d: user list after login: %v", c.idx, err)
	}
	held := map[int]bool{}
	for _, o := range s.live() {
		if o != c {
			held[o.id] = true
		}
	}
	var fresh []int
	for _, u := range us {
		if !held[u.ID] {
			fresh = append(fresh, u.ID)
		}
	}
	if len(fresh) != 1 {
		s.fail("new connection %d: the user list shows ids %v, of which %v are not held by another live user - expected exactly one new id (ids held: %v): the new user got an id that a connected user already holds", c.idx, userIDs(us), fresh, held)
	}
	c.id = fresh[0]
}

func userIDs(us []hlref.User) []int {
	var out []int
	for _, u := range us {
		out = append(out, u.ID)
	}
	return out
}

func c13prop(ev *evid.Rec, forceWrap bool) func(rt *rapid.T) {
	return func(rt *rapid.T) {
		const nacc = 6
		accounts := []hlsim.AccountSpec{acct("admin", "Admin", "adminpw", func() hlref.Access { a := hlref.AllAccess().Defined(); return a }())}
		var accs []hlref.Access
		for i := 0; i < nacc; i++ {
			a := hlref.AccessOf(hlref.PrivAnyName, hlref.PrivSendPrivMsg, hlref.PrivOpenChat, hlref.PrivGetClientInfo, hlref.PrivSendChat, hlref.PrivReadChat)
			if rapid.IntRange(0, 3).Draw(rt, fmt.Sprintf("discon%d", i)) == 0 {
				a.Set(hlref.PrivDisconUser)
			}
			if rapid.IntRange(0, 4).Draw(rt, fmt.Sprintf("noany%d", i)) == 0 {
				a.Clear(hlref.PrivAnyName)
			}
			accs = append(accs, a)
			accounts = append(accounts, hlsim.AccountSpec{Login: fmt.Sprintf("u%d", i), Name: fmt.Sprintf("Acct%d", i), Password: "pw", Access: a})
		}
		var hist []string
		nt, wrapped := false, false
		inWorld(rt, hlsim.Options{Agreement: "a", Accounts: accounts, Keepalive: true}, func(rt *rapid.T, w *hlsim.World) {
			s := &c13state{rt: rt, w: w}
			adm := &pclient{idx: -1, login: "admin", access: hlref.AllAccess().Defined(), name: []byte("root")}
			adm.conn = loginAs(rt, w, "10.13.0.250:1", "admin", "adminpw", "root")
			adm.connected, adm.completed = true, true
			s.admin = adm
			s.clients = append(s.clients, adm)
			s.learnID(adm)
			s.fetchRoster(adm)
			for i := 0; i < nacc; i++ {
				s.clients = append(s.clients, &pclient{idx: i, login: fmt.Sprintf("u%d", i), access: accs[i]})
			}
			rec := func(f string, a ...any) { s.history = append(s.history, fmt.Sprintf(f, a...)) }
			pick := func(label string, ok func(*pclient) bool) *pclient {
				var cs []*pclient
				for _, c := range s.clients {
					if c != adm && ok(c) {
						cs = append(cs, c)
					}
				}
				if len(cs) == 0 {
					return nil
				}
				return cs[rapid.IntRange(0, len(cs)-1).Draw(s.rt, label)]
			}
			genName := func(label string) []byte {
				if rapid.IntRange(0, 3).Draw(s.rt, label+"_k") == 0 {
					return []byte(rapid.SampledFrom([]string{"n", "two words", "caf\xe9", strings.Repeat("L", 600), strings.Repeat("m", 505), "\x00zero", "Al\rice", "two\nlines", "\r"}).Draw(s.rt, label))
				}
				return genBytes(s.rt, label, rapid.IntRange(1, 30).Draw(s.rt, label+"_len"))
			}
			effName := func(c *pclient, wanted []byte) []byte {
				if c.access.Has(hlref.PrivAnyName) {
					return wanted
				}
				return []byte(fmt.Sprintf("Acct%d", c.idx))
			}
			connect := func(c *pclient, flow string) {
				s.addr++
				c.conn = w.Connect(fmt.Sprintf("10.13.%d.%d:%d", s.addr/200, s.addr%200+1, 3000+s.addr))
				c.roster, c.fetched, c.completed, c.refusePM, c.refuseChat, c.autoReply = nil, false, false, false, false, nil
				name := genName("name")
				lo := hlsim.LoginOpts{Login: c.login, Password: "pw"}
				if flow == "123" {
					lo.Name, lo.Icon, lo.Icon4 = name, rapid.IntRange(0, 3000).Draw(s.rt, "icon"), rapid.Bool().Draw(s.rt, "icon4")
				} else {
					lo.Version = hlref.BE16(190)
				}
				if c.conn.Login(lo) == nil {
					s.fail("harness: login of client %d failed", c.idx)
				}
				c.connected = true
				s.learnID(c)
				if flow == "123" {
					c.completed = true
					c.name = effName(c, name)
					s.fetchRoster(c)
				}
				c.conn.TakeInbox()
			}
			if forceWrap {
				// two users stay connected while the counter is moved to just before the 16-bit wrap
				connect(s.clients[1], "123")
				connect(s.clients[2], "123")
				for i := 0; i < 65525; i++ {
					cc := &hotline.ClientConn{Connection: nopConn{}}
					w.Srv.ClientMgr.Add(cc)
					w.Srv.ClientMgr.Delete(cc.ID)
				}
				wrapped = true
				rec("2 users connected, counter fast-forwarded by 65525")
			}
			rt.Repeat(map[string]func(*rapid.T){
				"connect123": func(rt *rapid.T) {
					s.rt = rt
					c := pick("who", func(c *pclient) bool { return !c.connected })
					if c == nil {
						rt.Skip()
					}
					rec("connect123 %d", c.idx)
					connect(c, "123")
					nt = nt || len(s.live()) > 2
				},
				"connect15": func(rt *rapid.T) {
					s.rt = rt
					c := pick("who", func(c *pclient) bool { return !c.connected })
					if c == nil {
						rt.Skip()
					}
					rec("connect15 %d", c.idx)
					connect(c, "15")
				},
				"agree": func(rt *rapid.T) {
					s.rt = rt
					c := pick("who", func(c *pclient) bool { return c.connected && !c.completed })
					if c == nil {
						rt.Skip()
					}
					name := genName("name")
					opts := rapid.IntRange(0, 7).Draw(rt, "options")
					var auto []byte
					if opts&4 != 0 {
						auto = genBytes(rt, "auto", rapid.IntRange(1, 20).Draw(rt, "autolen"))
					}
					rec("agree %d options=%d", c.idx, opts)
					icon := rapid.IntRange(0, 3000).Draw(rt, "icon")
					if !okReply(c.conn.AgreedWide(name, icon, opts, auto, rapid.Bool().Draw(rt, "icon4"))) {
						s.fail("agreed refused")
					}
					c.completed = true
					c.name = effName(c, name)
					c.refusePM = opts&1 != 0
					c.refuseChat = opts&2 != 0
					c.autoReply = auto
					s.fetchRoster(c)
					nt = true
				},
				"setInfo": func(rt *rapid.T) {
					s.rt = rt
					c := pick("who", func(c *pclient) bool { return c.connected && c.completed })
					if c == nil {
						rt.Skip()
					}
					name := genName("name")
					icon := rapid.IntRange(0, 65535).Draw(rt, "icon")
					fs := []hlref.Field{fld(hlref.FUserName, name)}
					if rapid.Bool().Draw(rt, "icon4") {
						fs = append(fs, fld(hlref.FUserIconID, hlref.BE32(icon)))
					} else {
						fs = append(fs, fld(hlref.FUserIconID, hlref.BE16(icon)))
					}
					desc := "no-options"
					if rapid.Bool().Draw(rt, "withOptions") {
						opts := rapid.IntRange(0, 7).Draw(rt, "options")
						fs = append(fs, fld(hlref.FOptions, hlref.BE16(opts)))
						c.refusePM = opts&1 != 0
						c.refuseChat = opts&2 != 0
						if opts&4 != 0 {
							c.autoReply = genBytes(rt, "auto", rapid.IntRange(1, 20).Draw(rt, "autolen"))
							fs = append(fs, fld(hlref.FAutomaticResponse, c.autoReply))
						} else {
							c.autoReply = nil
						}
						desc = fmt.Sprintf("options=%d", opts)
					}
					rec("setinfo %d %s", c.idx, desc)
					c.conn.Request(hlref.TranSetClientUserInfo, fs...)
					c.name = effName(c, name)
					nt = true
				},
				"setUser": func(rt *rapid.T) {
					s.rt = rt
					c := pick("who", func(c *pclient) bool { return true })
					a := c.access
					// the edit toggles the privilege the admin flag of the user list is derived from, toggles another one, or
					// saves the account with the privileges it has (an edit of the name or password only)
					mode := rapid.SampledFrom([]string{"discon", "discon", "same", "other"}).Draw(rt, "edit")
					bit := hlref.PrivDisconUser
					if mode == "other" {
						bit = hlref.PrivNewsPostArt
					}
					if mode != "same" {
						if a.Has(bit) {
							a.Clear(bit)
						} else {
							a.Set(bit)
						}
					}
					rec("setuser %s %s discon=%v", c.login, mode, a.Has(hlref.PrivDisconUser))
					var r *hlref.Tran
					if rapid.IntRange(0, 2).Draw(rt, "viaBatchEditor") == 0 {
						// the same edit made with the batch editor of the newer clients (update-user, modify form)
						rec("  (through update-user)")
						r = adm.conn.Request(hlref.TranUpdateUser, fld(hlref.FData, subFields(fld(hlref.FUserLogin, hlref.Obfuscate([]byte(c.login))), sfld(hlref.FUserName, fmt.Sprintf("Acct%d", c.idx)), fld(hlref.FUserAccess, a[:]), fld(hlref.FUserPassword, []byte{0}))))
					} else {
						r = adm.conn.Request(hlref.TranSetUser, fld(hlref.FUserLogin, hlref.Obfuscate([]byte(c.login))), sfld(hlref.FUserName, fmt.Sprintf("Acct%d", c.idx)), fld(hlref.FUserAccess, a[:]), fld(hlref.FUserPassword, []byte{0}))
					}
					if !okReply(r) {
						s.fail("set-user refused")
					}
					c.access = a
					nt = true
				},
				"disconnect": func(rt *rapid.T) {
					s.rt = rt
					c := pick("who", func(c *pclient) bool { return c.connected })
					if c == nil {
						rt.Skip()
					}
					rec("disconnect %d (id %d)", c.idx, c.id)
					c.conn.Close()
					c.connected = false
					settle(0)
					nt = true
				},
				"kick": func(rt *rapid.T) {
					s.rt = rt
					c := pick("who", func(c *pclient) bool { return c.connected })
					if c == nil {
						rt.Skip()
					}
					rec("kick %d (id %d)", c.idx, c.id)
					if !okReply(adm.conn.Request(hlref.TranDisconnectUser, fld(hlref.FUserID, hlref.BE16(c.id)))) {
						s.fail("kick refused")
					}
					settle(2 * time.Second)
					for _, o := range s.live() {
						if o != c && o.conn.EOF() {
							s.fail("kick addressed to id %d disconnected client %d (id %d)", c.id, o.idx, o.id)
						}
					}
					if !c.conn.EOF() {
						s.fail("kicked client %d still connected", c.idx)
					}
					c.connected = false
					nt = true
				},
				"say": func(rt *rapid.T) {
					// somebody says something in the public chat (or emotes): nothing about presence, and the lists stay what they are
					s.rt = rt
					from := pick("from", func(c *pclient) bool { return c.connected && c.completed })
					if from == nil {
						rt.Skip()
					}
					rec("chat line by %d", from.idx)
					fs := []hlref.Field{sfld(hlref.FData, "hello everybody")}
					if rapid.Bool().Draw(rt, "emote") {
						fs = append(fs, fld(hlref.FChatOptions, hlref.BE16(1)))
					}
					from.conn.Request(hlref.TranChatSend, fs...)
					settle(0)
				},
				"privateMessage": func(rt *rapid.T) {
					s.rt = rt
					from := pick("from", func(c *pclient) bool { return c.connected && c.completed })
					if from == nil {
						rt.Skip()
					}
					var target int
					if rapid.IntRange(0, 4).Draw(rt, "ghost") == 0 {
						target = rapid.IntRange(1, 65535).Draw(rt, "ghostid")
					} else {
						ls := s.live()
						target = ls[rapid.IntRange(0, len(ls)-1).Draw(rt, "target")].id
					}
					msg := genBytes(rt, "msg", rapid.IntRange(1, 50).Draw(rt, "msglen"))
					rec("pm %d -> id %d", from.idx, target)
					s.collect()
					from.conn.Request(hlref.TranSendInstantMsg, fld(hlref.FUserID, hlref.BE16(target)), fld(hlref.FData, msg), fld(hlref.FOptions, hlref.BE16(1)))
					got := s.collect()
					holder := s.byID(target)
					for _, c := range s.live() {
						var msgs []hlref.Tran
						for _, t := range got[c.idx] {
							if t.Type == hlref.TranServerMsg && t.IsReply == 0 {
								msgs = append(msgs, t)
							}
						}
						want := 0
						if holder != nil && c == holder && !holder.refusePM {
							want++
						}
						if holder != nil && c == from && holder.refusePM {
							want++
						}
						if holder != nil && c == from && len(holder.autoReply) > 0 {
							want++
						}
						if len(msgs) != want {
							s.fail("private message from client %d to id %d (held by %v, refuse=%v, auto=%q): client %d (id %d) received %d server messages, expected %d", from.idx, target, holderIdx(holder), holder != nil && holder.refusePM, autoOf(holder), c.idx, c.id, len(msgs), want)
						}
						if holder != nil && c == holder && !holder.refusePM && holder != from {
							d, _ := msgs[0].Get(hlref.FData)
							fid, _ := msgs[0].Get(hlref.FUserID)
							if string(d) != string(msg) || intOf(fid) != from.id {
								s.fail("private message delivered with wrong content / sender id: %q from %d", d, intOf(fid))
							}
						}
					}
				},
				"getInfo": func(rt *rapid.T) {
					s.rt = rt
					from := pick("from", func(c *pclient) bool { return c.connected && c.completed })
					if from == nil {
						rt.Skip()
					}
					ls := s.live()
					t := ls[rapid.IntRange(0, len(ls)-1).Draw(rt, "target")]
					if !t.completed {
						rt.Skip()
					}
					rec("getinfo %d -> id %d", from.idx, t.id)
					r := from.conn.Request(hlref.TranGetClientInfoText, fld(hlref.FUserID, hlref.BE16(t.id)))
					if !okReply(r) {
						s.fail("get-client-info refused")
					}
					n, _ := r.Get(hlref.FUserName)
					if string(n) != string(t.name) {
						s.fail("get-client-info for id %d returned the user %q, the id is held by %q", t.id, n, t.name)
					}
				},
				"invite": func(rt *rapid.T) {
					s.rt = rt
					from := pick("from", func(c *pclient) bool { return c.connected && c.completed })
					if from == nil {
						rt.Skip()
					}
					ls := s.live()
					t := ls[rapid.IntRange(0, len(ls)-1).Draw(rt, "target")]
					rec("invite %d -> id %d", from.idx, t.id)
					s.collect()
					if !okReply(from.conn.Request(hlref.TranInviteNewChat, fld(hlref.FUserID, hlref.BE16(t.id)))) {
						s.fail("invite refused")
					}
					got := s.collect()
					for _, c := range s.live() {
						n := 0
						for _, tr := range got[c.idx] {
							if tr.Type == hlref.TranInviteToChat {
								n++
							}
						}
						want := 0
						if c == t && !t.refuseChat {
							want = 1
						}
						if n != want {
							s.fail("invitation addressed to id %d: client %d (id %d) received %d invitations, expected %d", t.id, c.idx, c.id, n, want)
						}
					}
				},
				"idle": func(rt *rapid.T) {
					// nobody but the administrator (who polls the user list) does anything for a while: the server marks
					// users away after 300 s and tells everybody; any later request of an away user clears the flag again
					s.rt = rt
					d := rapid.SampledFrom([]time.Duration{50 * time.Second, 295 * time.Second, 311 * time.Second, 10 * time.Minute}).Draw(rt, "idle")
					rec("idle %s", d)
					settle(d)
					s.invariant("while users are away")
					nt = true
				},
				"keepAlive": func(rt *rapid.T) {
					s.rt = rt
					c := pick("who", func(c *pclient) bool { return c.connected && c.completed })
					if c == nil {
						rt.Skip()
					}
					rec("keepalive %d", c.idx)
					c.conn.Request(hlref.TranKeepAlive) // does not count as activity
				},
				"fastForward": func(rt *rapid.T) {
					s.rt = rt
					n := rapid.SampledFrom([]int{1, 100, 30000, 65000, 65530, 65536, 70000}).Draw(rt, "n")
					rec("fast-forward %d connections", n)
					mgr := w.Srv.ClientMgr
					for i := 0; i < n; i++ {
						cc := &hotline.ClientConn{Connection: nopConn{}}
						mgr.Add(cc)
						if s.byID(int(cc.ID[0])<<8|int(cc.ID[1])) != nil {
							s.fail("connection number %d of the fast-forward was given id %d, which a connected user holds", i+1, int(cc.ID[0])<<8|int(cc.ID[1]))
						}
						mgr.Delete(cc.ID)
					}
					if n > 60000 {
						wrapped = true
					}
				},
				"": func(rt *rapid.T) {
					s.rt = rt
					s.invariant("invariant")
				},
			})
			hist = s.history
		})
		lab := "no-wrap"
		if wrapped {
			lab = "wrap"
		}
		ev.Case(evid.Hash(strings.Join(hist, "|")), nt, lab, fmt.Sprintf("steps:%d", min(len(hist)/5*5, 40)))
		if nt && ev.WantSample() {
			ev.Sample(map[string]any{"history": hist, "id_counter_wrapped": wrapped})
		}
	}
}

func holderIdx(p *pclient) any {
	if p == nil {
		return "nobody"
	}
	return p.idx
}

func autoOf(p *pclient) string {
	if p == nil {
		return ""
	}
	return string(p.autoReply)
}

func TestC13(t *testing.T) {
	ev := evid.New("C13", "TestC13")
	defer ev.Flush()
	rapid.Check(t, c13prop(ev, false))
}

// TestC13Wrap forces the id counter across the 16-bit wrap in every history.
func TestC13Wrap(t *testing.T) {
	ev := evid.New("C13", "TestC13Wrap")
	defer ev.Flush()
	rapid.Check(t, c13prop(ev, true))
}

// nopConn is the connection of the throw-away registry entries used to fast-forward the id counter.
type nopConn struct{}

func (nopConn) Read([]byte) (int, error)    { return 0, fmt.Errorf("closed") }
func (nopConn) Write(p []byte) (int, error) { return len(p), nil }
func (nopConn) Close() error                { return nil }

// TestC13AwayReorder: a user that was marked away changes its name, which produces two
// different change notices for the same user in one step; the other client must end with the
// server's entry (the defect away-clear-reorder, fixed in jhalter/mobius; kept as a dense check).
func TestC13AwayReorder(t *testing.T) {
	ev := evid.New("C13", "TestC13AwayReorder")
	defer ev.Flush()
	rapid.Check(t, func(rt *rapid.T) {
		name := genBytes(rt, "name", rapid.IntRange(1, 12).Draw(rt, "len"))
		inWorld(rt, hlsim.Options{Agreement: "a", Keepalive: true, Accounts: []hlsim.AccountSpec{acct("admin", "Admin", "adminpw", hlref.AllAccess().Defined())}}, func(rt *rapid.T, w *hlsim.World) {
			a := &pclient{idx: 0}
			a.conn = loginAs(rt, w, "10.13.9.1:1", "admin", "adminpw", "watcher")
			b := loginAs(rt, w, "10.13.9.2:1", "admin", "adminpw", "sleeper")
			us, err := a.conn.UserList()
			if err != nil {
				rt.Fatalf("harness: %v", err)
			}
			a.roster = map[int]rosterEntry{}
			for _, u := range us {
				a.roster[u.ID] = rosterEntry{name: string(u.Name), icon: u.Icon, flags: u.Flags}
			}
			settle(311 * time.Second) // both are marked away; the watcher wakes up first, quietly
			a.conn.Request(hlref.TranKeepAlive)
			a.conn.Request(hlref.TranGetUserNameList)
			settle(0)
			a.fold(a.conn.TakeInbox())
			b.Request(hlref.TranSetClientUserInfo, fld(hlref.FUserName, name), fld(hlref.FUserIconID, hlref.BE16(9)))
			settle(0)
			a.fold(a.conn.TakeInbox())
			us, err = a.conn.UserList()
			if err != nil {
				rt.Fatalf("harness: %v", err)
			}
			a.fold(a.conn.TakeInbox())
			for _, u := range us {
				if e := a.roster[u.ID]; e.name != string(u.Name) || e.flags != u.Flags || e.icon != u.Icon {
					rt.Fatalf("after an away user changed its name the watcher's folded entry for id %d is %+v, the server lists name=%q icon=%d flags=%d", u.ID, e, u.Name, u.Icon, u.Flags)
				}
			}
		})
		ev.Case(evid.Hash("away", name), true, "away-then-rename")
	})
}

// ---- schedule points: a list fetch at the instant the client registry changes ----

// pointMgr wraps the production client registry and lets the harness own one schedule
// point: immediately before or after one Add or Delete, a function runs on the server's goroutine.
type pointMgr struct {
	hotline.ClientManager
	mu    sync.Mutex
	point string
	fn    func()
}

func (m *pointMgr) arm(point string, fn func()) {
	m.mu.Lock()
	m.point, m.fn = point, fn
	m.mu.Unlock()
}

func (m *pointMgr) fire(point string) {
	m.mu.Lock()
	fn := m.fn
	if m.point != point {
		fn = nil
	} else {
		m.fn, m.point = nil, ""
	}
	m.mu.Unlock()
	if fn != nil {
		fn()
	}
}

func (m *pointMgr) Add(cc *hotline.ClientConn) {
	m.fire("before-add")
	m.ClientManager.Add(cc)
	m.fire("after-add")
}

func (m *pointMgr) Delete(id hotline.ClientID) {
	m.fire("before-delete")
	m.ClientManager.Delete(id)
	m.fire("after-delete")
}

// TestC13SchedPoint: histories in which an observer fetches the user list exactly when
// another user is being added to or removed from the registry (the one place where the
// order "registry first, notice second" matters and a settled history cannot look).
func TestC13SchedPoint(t *testing.T) {
	ev := evid.New("C13", "TestC13SchedPoint")
	defer ev.Flush()
	rapid.Check(t, func(rt *rapid.T) {
		nOthers := rapid.IntRange(1, 3).Draw(rt, "others")
		event := rapid.SampledFrom([]string{"close", "kick", "join"}).Draw(rt, "event")
		when := rapid.SampledFrom([]string{"before", "after"}).Draw(rt, "when")
		obsIdx := rapid.IntRange(0, nOthers-1).Draw(rt, "observer")
		hadList := rapid.Bool().Draw(rt, "observerHadList")
		inWorld(rt, hlsim.Options{Agreement: "a", Accounts: []hlsim.AccountSpec{acct("admin", "Admin", "adminpw", hlref.AllAccess().Defined()), acct("u", "U", "upw", hlref.Access{})}}, func(rt *rapid.T, w *hlsim.World) {
			pm := &pointMgr{ClientManager: w.Srv.ClientMgr}
			w.Srv.ClientMgr = pm
			admin := loginAs(rt, w, "10.13.8.1:1", "admin", "adminpw", "admin")
			var others []*pclient
			for i := 0; i < nOthers; i++ {
				c := &pclient{idx: i, roster: map[int]rosterEntry{}}
				c.conn = loginAs(rt, w, fmt.Sprintf("10.13.8.%d:1", 10+i), "u", "upw", fmt.Sprintf("user%d", i))
				others = append(others, c)
			}
			leaver := loginAs(rt, w, "10.13.8.99:1", "u", "upw", "leaver")
			leaverID := 2 + nOthers
			obs := others[obsIdx]
			apply := func(ts []hlref.Tran, listID uint32) {
				for _, t := range ts {
					if t.IsReply == 1 && t.ID == listID && listID != 0 {
						obs.roster = map[int]rosterEntry{}
						for _, d := range t.GetAll(hlref.FUsernameWithInfo) {
							u, err := hlref.DecodeUser(d)
							if err != nil {
								rt.Fatalf("user list entry: %v", err)
							}
							obs.roster[u.ID] = rosterEntry{name: string(u.Name), icon: u.Icon, flags: u.Flags}
						}
						obs.fetched = true
						continue
					}
					if obs.fetched {
						obs.fold([]hlref.Tran{t})
					}
				}
			}
			fetch := func() {
				id := obs.conn.NewID()
				obs.conn.Send(hlref.Tran{Type: hlref.TranGetUserNameList, ID: id}.Encode())
				apply(obs.conn.TakeInbox(), id) // in arrival order
			}
			obs.conn.TakeInbox()
			if hadList {
				fetch()
			}
			done := make(chan struct{})
			realQuiesce := hlsim.Quiesce
			point := when + "-delete"
			if event == "join" {
				point = when + "-add"
			}
			pm.arm(point, func() {
				// on the server's goroutine, main is parked on <-done: fake time only advances when everything else is idle
				hlsim.Quiesce = func() { time.Sleep(time.Millisecond) }
				fetch()
				close(done)
			})
			defer func() { hlsim.Quiesce = realQuiesce }()
			switch event {
			case "close":
				leaver.Close()
			case "kick":
				if r := admin.Request(hlref.TranDisconnectUser, fld(hlref.FUserID, hlref.BE16(leaverID))); !okReply(r) {
					rt.Fatalf("harness: kick refused")
				}
			case "join":
				j := w.Connect("10.13.8.77:1")
				if !j.Handshake() {
					rt.Fatalf("harness: handshake")
				}
				j.SendAsync(hlref.Tran{Type: hlref.TranLogin, ID: j.NewID(), Fields: hlsim.LoginOpts{Login: "u", Password: "upw", Name: []byte("joiner"), Icon: 7}.Fields()}.Encode())
			}
			select {
			case <-done:
			case <-time.After(time.Minute):
				rt.Fatalf("harness: the registry operation %s never happened", point)
			}
			hlsim.Quiesce = realQuiesce
			settle(3 * time.Second)
			apply(obs.conn.TakeInbox(), 0)
			us, err := admin.UserList()
			if err != nil {
				rt.Fatalf("harness: %v", err)
			}
			want := map[int]rosterEntry{}
			for _, u := range us {
				want[u.ID] = rosterEntry{name: string(u.Name), icon: u.Icon, flags: u.Flags}
			}
			if fmt.Sprint(sortedRoster(obs.roster)) != fmt.Sprint(sortedRoster(want)) {
				rt.Fatalf("observer fetched the user list %s the registry %s of a user (%s); after everything settled its folded roster is\n  %v\nthe server's list is\n  %v",
					when, map[bool]string{true: "add", false: "delete"}[event == "join"], event, sortedRoster(obs.roster), sortedRoster(want))
			}
		})
		ev.Case(evid.Hash("sched", nOthers, event, when, obsIdx, hadList), true, "event:"+event, "when:"+when)
	})
}

// TestC13AwayAtLeave: a user is disconnected at the very instant the idle check marks it away
// (the delayed disconnect of a kick and the 10-second idle tick fall on the same instant): the
// change notice must not follow the notice that the user left.
func TestC13AwayAtLeave(t *testing.T) {
	ev := evid.New("C13", "TestC13AwayAtLeave")
	defer ev.Flush()
	rapid.Check(t, func(rt *rapid.T) {
		nv := rapid.IntRange(1, 4).Draw(rt, "victims")
		how := rapid.SampledFrom([]string{"kick", "kick", "close"}).Draw(rt, "how")
		inWorld(rt, hlsim.Options{Agreement: "a", Keepalive: true, Accounts: []hlsim.AccountSpec{acct("admin", "Admin", "adminpw", hlref.AllAccess().Defined()), acct("u", "U", "upw", hlref.Access{})}}, func(rt *rapid.T, w *hlsim.World) {
			t0 := time.Now()
			obs := &pclient{idx: 0, roster: map[int]rosterEntry{}}
			obs.conn = loginAs(rt, w, "10.13.7.1:1", "admin", "adminpw", "observer")
			var vs []*hlsim.Conn
			for i := 0; i < nv; i++ {
				vs = append(vs, loginAs(rt, w, fmt.Sprintf("10.13.7.%d:1", 10+i), "u", "upw", fmt.Sprintf("v%d", i)))
			}
			us, err := obs.conn.UserList()
			if err != nil {
				rt.Fatalf("harness: %v", err)
			}
			for _, u := range us {
				obs.roster[u.ID] = rosterEntry{name: string(u.Name), icon: u.Icon, flags: u.Flags}
			}
			// everybody's last activity is at t0 (+0): the 31st idle tick, at t0+310 s, marks them away
			lead := time.Second
			if how == "close" {
				lead = 0
			}
			time.Sleep(time.Until(t0.Add(310*time.Second - lead)))
			for i, v := range vs {
				if how == "kick" {
					obs.conn.SendAsync(hlref.Tran{Type: hlref.TranDisconnectUser, ID: obs.conn.NewID(), Fields: []hlref.Field{fld(hlref.FUserID, hlref.BE16(2+i))}}.Encode())
				} else {
					v.Close()
				}
			}
			settle(20 * time.Second)
			obs.fold(obs.conn.TakeInbox())
			// fetching the list is activity: the first fetch clears the observer's own away flag (a change notice follows
			// the reply), the second one is compared
			if _, err = obs.conn.UserList(); err != nil {
				rt.Fatalf("harness: %v", err)
			}
			obs.fold(obs.conn.TakeInbox())
			us, err = obs.conn.UserList()
			if err != nil {
				rt.Fatalf("harness: %v", err)
			}
			obs.fold(obs.conn.TakeInbox())
			want := map[int]rosterEntry{}
			for _, u := range us {
				want[u.ID] = rosterEntry{name: string(u.Name), icon: u.Icon, flags: u.Flags}
			}
			if fmt.Sprint(sortedRoster(obs.roster)) != fmt.Sprint(sortedRoster(want)) {
				rt.Fatalf("%d users left (%s) at the instant the idle check marked them away; the observer's folded roster is\n  %v\nthe server's list is\n  %v", nv, how, sortedRoster(obs.roster), sortedRoster(want))
			}
		})
		ev.Case(evid.Hash("awayleave", nv, how), true, "leave-at-idle-tick:"+how)
	})
}
