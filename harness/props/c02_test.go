package props

// C02 — segmentation-independent parsing of client byte streams (metamorphic: the same
// session bytes under two partitions must give the same replies and server state).

import (
	"bytes"
	"fmt"
	"os"
	"path/filepath"
	"sort"
	"strings"
	"testing"
	"time"

	"pgregory.net/rapid"

	"verif/harness/evid"
	"verif/harness/hlref"
	"verif/harness/hlsim"
)

// c02split is a deterministic splitter: a pure function of (mode, seed, call number).
type c02split struct {
	mode       string
	seed       uint64
	calls      int
	headerCuts int // cuts that fell strictly inside the first 22 bytes of a message
	totalCuts  int
}

func (s *c02split) next() uint64 {
	s.seed += 0x9e3779b97f4a7c15
	z := s.seed
	z = (z ^ (z >> 30)) * 0xbf58476d1ce4e5b9
	z = (z ^ (z >> 27)) * 0x94d049bb133111eb
	return z ^ (z >> 31)
}

func (s *c02split) Boundary() bool {
	switch s.mode {
	case "whole":
		return false
	case "bytes", "permsg":
		return true
	}
	return s.next()%2 == 0
}

func (s *c02split) Cuts(b []byte) []int {
	s.calls++
	var cuts []int
	n := len(b)
	switch s.mode {
	case "whole", "permsg":
	case "bytes":
		lim := n
		if lim > 600 {
			lim = 600
		}
		for i := 1; i < lim; i++ {
			cuts = append(cuts, i)
		}
		for i := lim; i < n; i += 977 {
			cuts = append(cuts, i)
		}
	case "random":
		k := int(s.next()%6) + 1
		for i := 0; i < k && n > 1; i++ {
			cuts = append(cuts, 1+int(s.next()%uint64(n-1)))
		}
	case "header":
		lim := n
		if lim > 300 {
			lim = 300
		}
		for i := 1; i < lim; i++ {
			if s.next()%3 == 0 {
				cuts = append(cuts, i)
			}
		}
		if n > 2 {
			cuts = append(cuts, 1+int(s.next()%uint64(min(n-1, 21))))
		}
	case "one":
		if n > 1 {
			cuts = append(cuts, 1+int(s.next()%uint64(min(n-1, 23))))
		}
	}
	sort.Ints(cuts)
	for _, c := range cuts {
		if c > 0 && c < 22 && c < n {
			s.headerCuts++
		}
	}
	s.totalCuts += len(cuts)
	return cuts
}

type c02op struct {
	Kind   string
	Trans  []hlref.Tran // control batch
	Name   string       // transfers
	Data   []byte
	Forks  int
	Script []int
	Items  []hlsim.UploadItem
	// folderup: what an earlier upload of the same folder left behind (-1: no partial b.bin)
	PartialB  int
	CompleteA bool
}

type c02session struct {
	Flow   string
	Login  string
	Phase0 int // how many ops of the first control batch are sent together with handshake + login
	Ops    []c02op
	Name   []byte
	Banner string // "banner.jpg" or "-" (none): both worlds of a case are configured alike
	// Preserve: the server keeps the resource and information forks of uploads in side files (both worlds alike)
	Preserve bool
}

func c02genSession(rt *rapid.T) c02session {
	s := c02session{Flow: rapid.SampledFrom([]string{"123", "15"}).Draw(rt, "flow"), Name: []byte("sess"), Banner: rapid.SampledFrom([]string{"-", "banner.jpg"}).Draw(rt, "banner")}
	s.Preserve = rapid.Bool().Draw(rt, "preserveResourceForks")
	id := uint32(10)
	nextID := func() uint32 { id++; return id }
	req := func(i int) hlref.Tran {
		k := rapid.SampledFrom([]string{"userlist", "chat", "getmsgs", "list", "listdir", "info", "newfolder", "comment", "newscat", "newspost", "newslist", "newsget", "newscats", "keepalive", "setinfo", "postboard", "bigchat"}).Draw(rt, fmt.Sprintf("req%d", i))
		t := hlref.Tran{ID: nextID()}
		switch k {
		case "userlist":
			t.Type = hlref.TranGetUserNameList
		case "chat":
			t.Type, t.Fields = hlref.TranChatSend, []hlref.Field{sfld(hlref.FData, fmt.Sprintf("line %d", i))}
		case "bigchat":
			t.Type, t.Fields = hlref.TranChatSend, []hlref.Field{fld(hlref.FData, bytes.Repeat([]byte("x"), rapid.IntRange(3000, 9000).Draw(rt, fmt.Sprintf("big%d", i))))}
		case "getmsgs":
			t.Type = hlref.TranGetMsgs
		case "list":
			t.Type = hlref.TranGetFileNameList
		case "listdir":
			t.Type, t.Fields = hlref.TranGetFileNameList, []hlref.Field{fld(hlref.FFilePath, p1("dir"))}
		case "info":
			t.Type, t.Fields = hlref.TranGetFileInfo, []hlref.Field{sfld(hlref.FFileName, "f.txt")}
		case "newfolder":
			t.Type, t.Fields = hlref.TranNewFolder, []hlref.Field{sfld(hlref.FFileName, fmt.Sprintf("nf%d", i))}
		case "comment":
			t.Type, t.Fields = hlref.TranSetFileInfo, []hlref.Field{sfld(hlref.FFileName, "f.txt"), sfld(hlref.FFileComment, fmt.Sprintf("comment %d", i))}
		case "newscat":
			t.Type, t.Fields = hlref.TranNewNewsCat, []hlref.Field{sfld(hlref.FNewsCatName, fmt.Sprintf("cat%d", i))}
		case "newspost":
			t.Type, t.Fields = hlref.TranPostNewsArt, []hlref.Field{fld(hlref.FNewsPath, p1("Seed")), fld(hlref.FNewsArtID, hlref.BE32(0)), sfld(hlref.FNewsArtTitle, fmt.Sprintf("title %d", i)), sfld(hlref.FNewsArtData, strings.Repeat("body ", i+1))}
		case "newslist":
			t.Type, t.Fields = hlref.TranGetNewsArtNameList, []hlref.Field{fld(hlref.FNewsPath, p1("Seed"))}
		case "newsget":
			t.Type, t.Fields = hlref.TranGetNewsArtData, []hlref.Field{fld(hlref.FNewsPath, p1("Seed")), fld(hlref.FNewsArtID, hlref.BE32(1)), sfld(hlref.FNewsArtDataFlav, "text/plain")}
		case "newscats":
			t.Type = hlref.TranGetNewsCatNameList
		case "keepalive":
			t.Type = hlref.TranKeepAlive
		case "setinfo":
			t.Type, t.Fields = hlref.TranSetClientUserInfo, []hlref.Field{sfld(hlref.FUserName, fmt.Sprintf("name%d", i)), fld(hlref.FUserIconID, hlref.BE16(i))}
		case "postboard":
			t.Type, t.Fields = hlref.TranOldPostNews, []hlref.Field{sfld(hlref.FData, fmt.Sprintf("post %d\nline two", i))}
		}
		return t
	}
	nops := rapid.IntRange(1, 6).Draw(rt, "nops")
	ri := 0
	for i := 0; i < nops; i++ {
		kind := rapid.SampledFrom([]string{"batch", "batch", "batch", "download", "upload", "folderdown", "folderup"}).Draw(rt, fmt.Sprintf("op%d", i))
		op := c02op{Kind: kind}
		switch kind {
		case "batch":
			n := rapid.IntRange(1, 3).Draw(rt, fmt.Sprintf("op%d_n", i))
			for k := 0; k < n; k++ {
				op.Trans = append(op.Trans, req(ri))
				ri++
			}
		case "download":
			op.Name = rapid.SampledFrom([]string{"f.txt", "big.bin"}).Draw(rt, fmt.Sprintf("op%d_name", i))
			op.Trans = []hlref.Tran{{Type: hlref.TranDownloadFile, ID: nextID(), Fields: []hlref.Field{sfld(hlref.FFileName, op.Name)}}}
		case "upload":
			op.Name = fmt.Sprintf("up%d.bin", i)
			op.Data = genBytes(rt, fmt.Sprintf("op%d_data", i), rapid.SampledFrom([]int{0, 1, 700, 40000}).Draw(rt, fmt.Sprintf("op%d_size", i)))
			op.Forks = rapid.SampledFrom([]int{2, 3}).Draw(rt, fmt.Sprintf("op%d_forks", i))
			op.Trans = []hlref.Tran{{Type: hlref.TranUploadFile, ID: nextID(), Fields: []hlref.Field{sfld(hlref.FFileName, op.Name), fld(hlref.FTransferSize, hlref.BE32(len(op.Data)+200))}}}
		case "folderdown":
			op.Script = rapid.SliceOfN(rapid.IntRange(1, 3), 8, 8).Draw(rt, fmt.Sprintf("op%d_script", i))
			op.Trans = []hlref.Tran{{Type: hlref.TranDownloadFldr, ID: nextID(), Fields: []hlref.Field{sfld(hlref.FFileName, "dir")}}}
		case "folderup":
			op.Name = fmt.Sprintf("updir%d", i)
			op.Items = []hlsim.UploadItem{
				{Path: [][]byte{[]byte("sub")}, IsDir: true},
				{Path: [][]byte{[]byte("sub"), []byte("a.txt")}, Data: genBytes(rt, fmt.Sprintf("op%d_a", i), rapid.IntRange(0, 900).Draw(rt, fmt.Sprintf("op%d_alen", i)))},
				{Path: [][]byte{[]byte("b.bin")}, Data: genBytes(rt, fmt.Sprintf("op%d_b", i), rapid.IntRange(0, 40000).Draw(rt, fmt.Sprintf("op%d_blen", i)))},
			}
			op.Trans = []hlref.Tran{{Type: hlref.TranUploadFldr, ID: nextID(), Fields: []hlref.Field{sfld(hlref.FFileName, op.Name), fld(hlref.FTransferSize, hlref.BE32(50000)), fld(hlref.FFolderItemCount, hlref.BE16(3))}}}
			// leftovers of an earlier, interrupted upload of the same folder: a partial b.bin (the server asks to resume it)
			// and / or a complete sub/a.txt (the server skips it)
			op.PartialB = -1
			if rapid.Bool().Draw(rt, fmt.Sprintf("op%d_leftover", i)) {
				op.PartialB = rapid.IntRange(0, len(op.Items[2].Data)).Draw(rt, fmt.Sprintf("op%d_partial", i))
				op.CompleteA = rapid.Bool().Draw(rt, fmt.Sprintf("op%d_completeA", i))
			}
		}
		s.Ops = append(s.Ops, op)
	}
	if len(s.Ops) > 0 && s.Ops[0].Kind == "batch" && rapid.Bool().Draw(rt, "pipelineLogin") {
		s.Phase0 = 1
	}
	return s
}

type c02obs struct {
	client    []string // normalised transactions received by the session client (sorted)
	clientSeq []string // the same, in the order received: the requests of one connection are handled one after the other
	observer  []string
	xfers     []string // per transfer: hex hash of normalised received bytes / structured result
	state     hlsim.Snapshot
	users     []string
	accepted  bool
}

func maskDatesFlat(b []byte) []byte {
	o := append([]byte{}, b...)
	if p, err := hlref.ParseFlatHeader(o); err == nil && p.HeaderLen > 108 {
		for i := 40 + 52; i < 40+68; i++ {
			o[i] = 0
		}
	}
	return o
}

func normTran(t hlref.Tran) string {
	id := t.ID
	if t.IsReply == 0 {
		id = 0
	}
	var fs []string
	for _, f := range t.Fields {
		d := f.Data
		switch f.ID {
		case hlref.FRefNum, hlref.FChatID, hlref.FFileCreateDate, hlref.FFileModifyDate, hlref.FNewsArtDate:
			d = bytes.Repeat([]byte{0}, len(d))
		}
		fs = append(fs, fmt.Sprintf("%d:%s", f.ID, evid.Hash(d)))
	}
	return fmt.Sprintf("t=%d r=%d id=%d e=%d [%s]", t.Type, t.IsReply, id, t.Err, strings.Join(fs, " "))
}

func normAll(ts []hlref.Tran) []string {
	var out []string
	for _, t := range ts {
		out = append(out, normTran(t))
	}
	sort.Strings(out)
	return out
}

func c02fixture(w *hlsim.World) {
	must(os.MkdirAll(filepath.Join(w.FileRoot, "dir", "inner"), 0o755))
	must(os.WriteFile(filepath.Join(w.FileRoot, "f.txt"), []byte("hello file"), 0o644))
	big := make([]byte, 70000)
	for i := range big {
		big[i] = byte(i * 7)
	}
	must(os.WriteFile(filepath.Join(w.FileRoot, "big.bin"), big, 0o644))
	must(os.WriteFile(filepath.Join(w.FileRoot, "dir", "one.txt"), []byte("one"), 0o644))
	must(os.WriteFile(filepath.Join(w.FileRoot, "dir", "inner", "two.bin"), big[:5000], 0o644))
	must(os.WriteFile(filepath.Join(w.FileRoot, "dir", "zero"), nil, 0o644))
}

// c02run plays the session in a fresh world; sp == nil is the baseline partition (one
// Write per message).
func c02run(rt *rapid.T, s c02session, mk func(kind string) hlsim.Splitter) (o c02obs) {
	news := "Categories:\n    Seed:\n        Type: [0, 3]\n        Name: Seed\n        Articles: {}\n        SubCats: {}\n"
	opt := hlsim.Options{Agreement: "the agreement", Board: "old board\r", NewsYAML: news, BannerFile: s.Banner, PreserveResourceForks: s.Preserve,
		Accounts: []hlsim.AccountSpec{acct("admin", "Admin", "adminpw", allAccess), acct("obs", "Obs", "obspw", allAccess)}}
	inWorld(rt, opt, func(rt *rapid.T, w *hlsim.World) {
		c02fixture(w)
		for _, op := range s.Ops {
			if op.Kind == "folderup" && op.PartialB >= 0 {
				must(os.MkdirAll(filepath.Join(w.FileRoot, op.Name, "sub"), 0o755))
				must(os.WriteFile(filepath.Join(w.FileRoot, op.Name, "b.bin.incomplete"), op.Items[2].Data[:op.PartialB], 0o644))
				if op.CompleteA {
					must(os.WriteFile(filepath.Join(w.FileRoot, op.Name, "sub", "a.txt"), op.Items[1].Data, 0o644))
				}
			}
		}
		obs := loginAs(rt, w, "10.0.0.9:1", "obs", "obspw", "obs")
		obs.TakeInbox()
		w.NewSplit = mk
		c := w.Connect("10.0.0.1:1")
		// phase 0: handshake + login (+ agreed) (+ first batch) possibly in one go
		lo := hlsim.LoginOpts{Login: "admin", Password: "adminpw"}
		if s.Flow == "123" {
			lo.Name, lo.Icon = s.Name, 2
		} else {
			lo.Version = hlref.BE16(190)
		}
		parts := [][]byte{hlref.Handshake(1, 2), hlref.Tran{Type: hlref.TranLogin, ID: 1, Fields: lo.Fields()}.Encode()}
		if s.Flow == "15" {
			parts = append(parts, hlref.Tran{Type: hlref.TranAgreed, ID: 2, Fields: []hlref.Field{fld(hlref.FUserName, s.Name), fld(hlref.FUserIconID, hlref.BE16(2)), fld(hlref.FOptions, hlref.BE16(0))}}.Encode())
		}
		start := 0
		if s.Phase0 == 1 {
			for _, t := range s.Ops[0].Trans {
				parts = append(parts, t.Encode())
			}
			start = 1
		}
		c.SendParts(parts)
		hs, ok := c.Take(8)
		o.accepted = ok && string(hs) == "TRTP\x00\x00\x00\x00"
		var got []hlref.Tran
		got = append(got, c.TakeInbox()...)
		in := false
		for _, t := range got {
			if t.IsReply == 1 && t.ID == 1 && t.Err == 0 {
				in = true
			}
		}
		if !in {
			o.accepted = false
			return
		}
		for _, op := range s.Ops[start:] {
			var parts [][]byte
			for _, t := range op.Trans {
				parts = append(parts, t.Encode())
			}
			c.SendParts(parts)
			in := c.TakeInbox()
			got = append(got, in...)
			if op.Kind == "batch" {
				continue
			}
			var reply *hlref.Tran
			for i := range in {
				if in[i].IsReply == 1 && in[i].ID == op.Trans[0].ID {
					reply = &in[i]
				}
			}
			if !okReply(reply) {
				o.xfers = append(o.xfers, op.Kind+": not granted")
				continue
			}
			ref, _ := reply.Get(hlref.FRefNum)
			switch op.Kind {
			case "download":
				rx, _ := w.Transfer("10.0.0.1:2", ref, 0, nil, -1)
				o.xfers = append(o.xfers, fmt.Sprintf("download %s: %d bytes %s", op.Name, len(rx), evid.Hash(maskDatesFlat(rx))))
			case "upload":
				stream := hlsim.UploadStream([]byte(op.Name), []byte("c"), op.Data, []byte("rsrc-bytes"), op.Forks)
				rx, _ := w.Transfer("10.0.0.1:2", ref, len(stream), stream, -1)
				o.xfers = append(o.xfers, fmt.Sprintf("upload %s: server sent %d bytes", op.Name, len(rx)))
			case "folderdown":
				i := 0
				items, left, err := w.FolderDownload("10.0.0.1:2", ref, func(p []string, d bool) (int, int) {
					a := op.Script[i%len(op.Script)]
					i++
					return a, 1
				}, 20)
				var sb strings.Builder
				for _, it := range items {
					fmt.Fprintf(&sb, "%s dir=%v size=%d %s;", strings.Join(it.Path, "/"), it.IsDir, it.Size, evid.Hash(maskDatesFlat(it.Data)))
				}
				o.xfers = append(o.xfers, fmt.Sprintf("folderdown: %s left=%d err=%v", sb.String(), len(left), err))
			case "folderup":
				tr, err := w.FolderUpload("10.0.0.1:2", ref, op.Items)
				o.xfers = append(o.xfers, fmt.Sprintf("folderup %s: %v err=%v", op.Name, tr.Actions, err))
			}
		}
		got = append(got, c.TakeInbox()...)
		o.client = normAll(got)
		for _, t := range got {
			o.clientSeq = append(o.clientSeq, normTran(t))
		}
		o.observer = normAll(obs.TakeInbox())
		us, _ := obs.UserList()
		for _, u := range us {
			o.users = append(o.users, fmt.Sprintf("%d/%d/%d/%s", u.ID, u.Icon, u.Flags, u.Name))
		}
		w.NewSplit = nil
		snap := hlsim.Snap(w.Cfg)
		// info forks written by set-comment carry real-time file dates: compare them with the dates masked
		for rel, e := range snap {
			if e.Kind == "file" && strings.HasPrefix(filepath.Base(rel), ".info_") {
				b, _ := os.ReadFile(filepath.Join(w.Cfg, rel))
				if len(b) >= 68 {
					for i := 52; i < 68; i++ {
						b[i] = 0
					}
				}
				e.Sum = evid.Hash(b)
				snap[rel] = e
			}
		}
		o.state = snap
	})
	return o
}

func diffStrings(a, b []string) string {
	if len(a) != len(b) {
		return fmt.Sprintf("%d vs %d entries\n  baseline: %v\n  partition: %v", len(a), len(b), a, b)
	}
	for i := range a {
		if a[i] != b[i] {
			return fmt.Sprintf("entry %d:\n  baseline:  %s\n  partition: %s", i, a[i], b[i])
		}
	}
	return ""
}

func c02prop(ev *evid.Rec) func(rt *rapid.T) {
	return func(rt *rapid.T) {
		s := c02genSession(rt)
		mode := rapid.SampledFrom([]string{"bytes", "random", "header", "header", "one", "whole"}).Draw(rt, "partition")
		seed := rapid.Uint64().Draw(rt, "partition_seed")
		base := c02run(rt, s, nil)
		if !base.accepted {
			rt.Fatalf("harness: the baseline session was not accepted (generator bug)")
		}
		var splits []*c02split
		n := 0
		part := c02run(rt, s, func(kind string) hlsim.Splitter {
			n++
			sp := &c02split{mode: mode, seed: seed + uint64(n)*1315423911}
			splits = append(splits, sp)
			return sp
		})
		hc, tc := 0, 0
		for _, sp := range splits {
			hc += sp.headerCuts
			tc += sp.totalCuts
		}
		desc := fmt.Sprintf("partition %s (seed %d, %d cuts, %d inside fixed-size headers), session flow=%s pipelined=%d ops=%s", mode, seed, tc, hc, s.Flow, s.Phase0, c02opNames(s))
		if !part.accepted {
			rt.Fatalf("%s: handshake/login accepted under the baseline partition but not under this one", desc)
		}
		if d := diffStrings(base.client, part.client); d != "" {
			rt.Fatalf("%s: the client received different transactions: %s", desc, d)
		}
		for i := range base.clientSeq {
			if i < len(part.clientSeq) && base.clientSeq[i] != part.clientSeq[i] {
				rt.Fatalf("%s: the client received the same transactions in another order: number %d is %s, one Write per message gives %s", desc, i+1, part.clientSeq[i], base.clientSeq[i])
			}
		}
		if d := diffStrings(base.observer, part.observer); d != "" {
			rt.Fatalf("%s: another user received different transactions: %s", desc, d)
		}
		if d := diffStrings(base.xfers, part.xfers); d != "" {
			rt.Fatalf("%s: transfer connections behaved differently: %s", desc, d)
		}
		if d := diffStrings(base.users, part.users); d != "" {
			rt.Fatalf("%s: final user list differs: %s", desc, d)
		}
		if d := base.state.Diff(part.state); len(d) != 0 {
			rt.Fatalf("%s: final server files differ: %v", desc, d)
		}
		ev.Case(evid.Hash(fmt.Sprintf("%+v", s), mode, seed), hc > 0, "partition:"+mode, "flow:"+s.Flow)
		for _, op := range s.Ops {
			ev.Label("op:"+op.Kind, 1)
		}
		if hc > 0 && ev.WantSample() {
			ev.Sample(map[string]any{"flow": s.Flow, "login_pipelined_with_first_batch": s.Phase0 == 1, "ops": c02opNames(s), "partition": mode, "cuts": tc, "cuts_inside_fixed_headers": hc})
		}
	}
}

func c02opNames(s c02session) string {
	var n []string
	for _, op := range s.Ops {
		if op.Kind == "batch" {
			var ts []string
			for _, t := range op.Trans {
				ts = append(ts, fmt.Sprint(t.Type))
			}
			n = append(n, "batch("+strings.Join(ts, ",")+")")
		} else {
			n = append(n, op.Kind)
		}
	}
	return strings.Join(n, " ")
}

func TestC02(t *testing.T) {
	ev := evid.New("C02", "TestC02")
	defer ev.Flush()
	rapid.Check(t, c02prop(ev))
}

func FuzzC02(f *testing.F) {
	ev := evid.New("C02", "FuzzC02")
	f.Fuzz(rapid.MakeFuzz(c02prop(ev)))
}

// TestC02Interleave: the segmentation of one connection's bytes is interleaved with another
// connection's bytes.  Transfer connection A delivers its 16-byte preamble in two segments;
// between the two, transfer connection B delivers all of its preamble (and is served).  What A
// and B get must be what they get when each preamble arrives whole: their own file.
func TestC02Interleave(t *testing.T) {
	ev := evid.New("C02", "TestC02Interleave")
	defer ev.Flush()
	rapid.Check(t, func(rt *rapid.T) {
		k := rapid.IntRange(1, 15).Draw(rt, "cutA")
		na := rapid.SampledFrom([]int{1, 100, 5000, 70000}).Draw(rt, "sizeA")
		nb := rapid.SampledFrom([]int{0, 7, 3000}).Draw(rt, "sizeB")
		bKind := rapid.SampledFrom([]string{"download", "download", "upload"}).Draw(rt, "kindB")
		nWaves := rapid.IntRange(1, 3).Draw(rt, "waves")
		a, b := bytes.Repeat([]byte("A"), na), bytes.Repeat([]byte("b"), nb)
		inWorld(rt, hlsim.Options{Agreement: "a", Accounts: []hlsim.AccountSpec{acct("admin", "Admin", "adminpw", allAccess)}}, func(rt *rapid.T, w *hlsim.World) {
			must(os.WriteFile(filepath.Join(w.FileRoot, "a.bin"), a, 0o644))
			must(os.WriteFile(filepath.Join(w.FileRoot, "b.bin"), b, 0o644))
			c := loginAs(rt, w, "10.2.9.1:1", "admin", "adminpw", "admin")
			grant := func(typ int, fs ...hlref.Field) [4]byte {
				r := c.Request(typ, fs...)
				if !okReply(r) {
					rt.Fatalf("harness: transfer not granted: %s", replySummary(r))
				}
				ref, _ := r.Get(hlref.FRefNum)
				var r4 [4]byte
				copy(r4[:], ref)
				return r4
			}
			body := func(stream []byte, what string) []byte {
				p, err := hlref.ParseFlatHeader(stream)
				if err != nil {
					rt.Fatalf("%s: the transfer stream does not start with a flattened-file header: %v (%d bytes received)", what, err, len(stream))
				}
				d := stream[p.HeaderLen:]
				if p.DataSize <= len(d) {
					d = d[:p.DataSize] // an (empty) resource fork header may follow the data fork
				}
				return d
			}
			for wave := 0; wave < nWaves; wave++ {
				refA := grant(hlref.TranDownloadFile, sfld(hlref.FFileName, "a.bin"))
				xa := w.OpenTransfer(fmt.Sprintf("10.2.9.1:%d", 10+wave*2))
				preA := hlref.Preamble(refA, 0)
				xa.Send(preA[:k])
				var xb *hlsim.Conn
				upName := fmt.Sprintf("up%d.bin", wave)
				if bKind == "download" {
					refB := grant(hlref.TranDownloadFile, sfld(hlref.FFileName, "b.bin"))
					xb = w.OpenTransfer(fmt.Sprintf("10.2.9.1:%d", 11+wave*2))
					xb.Send(hlref.Preamble(refB, 0))
				} else {
					s := hlsim.UploadStream([]byte(upName), nil, b, nil, 2)
					refB := grant(hlref.TranUploadFile, sfld(hlref.FFileName, upName), fld(hlref.FTransferSize, hlref.BE32(len(s))))
					xb = w.OpenTransfer(fmt.Sprintf("10.2.9.1:%d", 11+wave*2))
					xb.Send(append(hlref.Preamble(refB, len(s)), s...))
				}
				settle(4 * time.Second)
				xa.Send(preA[k:])
				settle(4 * time.Second)
				ctx := fmt.Sprintf("wave %d: connection A sent %d of its 16 preamble bytes, connection B (%s, %d bytes) its whole preamble, then A the rest", wave, k, bKind, nb)
				if got := body(xa.Bytes(), ctx+"; A"); !bytes.Equal(got, a) {
					rt.Fatalf("%s: A asked for a.bin (%d bytes) and received %d bytes of data that are not that file", ctx, na, len(got))
				}
				if bKind == "download" {
					if got := body(xb.Bytes(), ctx+"; B"); !bytes.Equal(got, b) {
						rt.Fatalf("%s: B asked for b.bin (%d bytes) and received %d bytes of data that are not that file", ctx, nb, len(got))
					}
				} else if got, err := os.ReadFile(filepath.Join(w.FileRoot, upName)); err != nil || !bytes.Equal(got, b) {
					rt.Fatalf("%s: B's upload of %d bytes is on disk with %d bytes (%v)", ctx, nb, len(got), err)
				}
				xa.Close()
				xb.Close()
				settle(4 * time.Second)
			}
		})
		ev.Case(evid.Hash("il", k, na, nb, bKind, nWaves), true, "interleaved-preamble", "B:"+bKind)
	})
}
