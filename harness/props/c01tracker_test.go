package props

// C01 at the one place where the server itself emits a tracker registration: the production
// registerWithTrackers loop in a child process, with 1-4 trackers that are UDP sockets of the
// harness.  Every configured tracker must receive the registration as one datagram in exactly
// the wire layout (reference encoder), whatever the number of trackers.

import (
	"bytes"
	"fmt"
	"net"
	"os"
	"os/exec"
	"path/filepath"
	"strings"
	"testing"
	"time"

	"github.com/jhalter/mobius/hotline"
	"pgregory.net/rapid"

	"verif/harness/evid"
	"verif/harness/hlref"
	"verif/harness/hlsim"
)

func TestC01Tracker(t *testing.T) {
	ev := evid.New("C01", "TestC01Tracker")
	defer ev.Flush()
	bin := filepath.Join(os.Getenv("VERIF_BIN"), "srvchild")
	if _, err := os.Stat(bin); err != nil {
		t.Fatalf("VERIF-INCONCLUSIVE %s not built", bin)
	}
	shard, _ := shardInfo()
	rapid.Check(t, func(rt *rapid.T) {
		ntr := rapid.IntRange(1, 4).Draw(rt, "trackers")
		name := rapid.StringMatching(`[A-Za-z0-9 _.,!-]{1,50}`).Draw(rt, "name")
		desc := rapid.StringMatching(`[A-Za-z0-9 _.,!-]{1,200}`).Draw(rt, "description")
		name, desc = strings.TrimSpace(name)+"x", strings.TrimSpace(desc)+"y"
		var socks []net.PacketConn
		var addrs []string
		for i := 0; i < ntr; i++ {
			pc, err := net.ListenPacket("udp", "127.0.0.1:0")
			if err != nil {
				rt.Fatalf("VERIF-INCONCLUSIVE udp socket: %v", err)
			}
			defer pc.Close()
			socks = append(socks, pc)
			addrs = append(addrs, pc.LocalAddr().String())
		}
		cfg, err := os.MkdirTemp(worldBase(), "c01trk-")
		if err != nil {
			rt.Fatal(err)
		}
		defer os.RemoveAll(cfg)
		must(os.MkdirAll(filepath.Join(cfg, "Users"), 0o755))
		must(os.MkdirAll(filepath.Join(cfg, "Files"), 0o755))
		var y strings.Builder
		fmt.Fprintf(&y, "Name: %q\nDescription: %q\nBannerFile: banner.jpg\nFileRoot: Files\nEnableTrackerRegistration: true\nTrackers:\n", name, desc)
		for _, a := range addrs {
			fmt.Fprintf(&y, "  - %q\n", a)
		}
		must(os.WriteFile(filepath.Join(cfg, "config.yaml"), []byte(y.String()), 0o644))
		for n, c := range map[string]string{"banner.jpg": "jpg", "Agreement.txt": "agreement", "MessageBoard.txt": "board", "ThreadedNews.yaml": "Categories: {}\n"} {
			must(os.WriteFile(filepath.Join(cfg, n), []byte(c), 0o644))
		}
		must(os.WriteFile(filepath.Join(cfg, "Users", "guest.yaml"), hlsim.AccountYAML(hlsim.AccountSpec{Login: "guest", Name: "Guest", Access: hlref.AllAccess()}), 0o644))
		port := freePortPair() + 4 + shard*2
		logPath := filepath.Join(cfg, "child.log")
		logf, _ := os.Create(logPath)
		cmd := exec.Command(bin, "-config", cfg, "-bind", fmt.Sprint(port), "-interface", "127.0.0.1", "-log-file", filepath.Join(cfg, "server.log"))
		cmd.Stdout, cmd.Stderr = logf, logf
		if err := cmd.Start(); err != nil {
			rt.Fatalf("VERIF-INCONCLUSIVE cannot start child: %v", err)
		}
		exited := make(chan error, 1)
		go func() { exited <- cmd.Wait() }()
		defer func() {
			cmd.Process.Kill()
			<-exited
			logf.Close()
		}()
		childLog := func() string {
			b, _ := os.ReadFile(logPath)
			return string(b)
		}
		up := false
		for i := 0; i < 400; i++ {
			if c, err := net.DialTimeout("tcp", fmt.Sprintf("127.0.0.1:%d", port), 200*time.Millisecond); err == nil {
				c.Close()
				up = true
				break
			}
			select {
			case err := <-exited:
				exited <- err
				rt.Fatalf("VERIF-INCONCLUSIVE child ended: %v\n%s", err, childLog())
			default:
			}
			time.Sleep(25 * time.Millisecond)
		}
		if !up {
			rt.Fatalf("VERIF-INCONCLUSIVE child server did not come up: %s", childLog())
		}
		// the registration round runs when the server starts; every tracker gets its datagram in that round.  A tracker
		// that stays silent for 20 s while the server accepts connections did not get one.
		var got [][]byte
		for i, pc := range socks {
			buf := make([]byte, 70000)
			pc.SetReadDeadline(time.Now().Add(20 * time.Second))
			n, _, err := pc.ReadFrom(buf)
			if err != nil {
				if c, e2 := net.DialTimeout("tcp", fmt.Sprintf("127.0.0.1:%d", port), 5*time.Second); e2 != nil {
					rt.Fatalf("VERIF-INCONCLUSIVE tracker %d got nothing and the server does not accept connections: %v", i+1, e2)
				} else {
					c.Close()
				}
				rt.Fatalf("tracker %d of %d (%s) received no registration within 20 s of the server being up (%v); trackers before it received %d", i+1, ntr, addrs[i], err, len(got))
			}
			got = append(got, append([]byte(nil), buf[:n]...))
		}
		var passID [4]byte
		if len(got[0]) >= 12 {
			copy(passID[:], got[0][8:12])
		}
		want := hlref.EncodeTrackerRegistration(port, 0, passID, []byte(name), []byte(desc), nil)
		for i, g := range got {
			if !bytes.Equal(g, want) {
				rt.Fatalf("tracker %d of %d received % x\nthe registration in the Hotline layout (port %d, 0 users, pass id of the first datagram, name %q, description %q, no password) is % x", i+1, ntr, g, port, name, desc, want)
			}
			// nothing but that one datagram in this round
			socks[i].SetReadDeadline(time.Now().Add(30 * time.Millisecond))
			if n, _, err := socks[i].ReadFrom(make([]byte, 70000)); err == nil {
				rt.Fatalf("tracker %d received a second datagram of %d bytes in the same round", i+1, n)
			}
		}
		ev.Case(evid.Hash("tracker", ntr, name, desc), ntr > 1, fmt.Sprintf("trackers:%d", ntr))
		if ev.WantSample() {
			ev.Sample(map[string]any{"kind": "tracker registration sent by the server", "trackers": ntr, "name": name, "description": desc, "datagram": hexs(want)})
		}
	})
}

// TestC01Register: the send path of a tracker registration (the function the registration loop calls per tracker) with
// names, descriptions and passwords up to their one-byte length prefixes: the tracker receives the record as one
// datagram in the wire layout, whatever its size.
func TestC01Register(t *testing.T) {
	ev := evid.New("C01", "TestC01Register")
	defer ev.Flush()
	rapid.Check(t, func(rt *rapid.T) {
		ln := func(label string) int {
			return rapid.SampledFrom([]int{0, 1, 50, 127, 128, 200, 237, 238, 239, 240, 254, 255}).Draw(rt, label)
		}
		name := genBytes(rt, "name", ln("nameLen"))
		desc := genBytes(rt, "desc", ln("descLen"))
		pass := genBytes(rt, "pass", ln("passLen"))
		k := genBytes(rt, "k", 6)
		users := rapid.IntRange(0, 65535).Draw(rt, "users")
		pc, err := net.ListenPacket("udp", "127.0.0.1:0")
		if err != nil {
			rt.Fatalf("VERIF-INCONCLUSIVE udp socket: %v", err)
		}
		defer pc.Close()
		tr := &hotline.TrackerRegistration{Port: arr2(k[0:2]), UserCount: users, PassID: arr4(k[2:6]), Name: string(name), Description: string(desc), Password: string(pass)}
		want := hlref.EncodeTrackerRegistration(hlref.U16(k[0:2]), users, arr4(k[2:6]), name, desc, pass)
		if err := hotline.VerifRegister(pc.LocalAddr().String(), tr); err != nil {
			rt.Fatalf("register: %v", err)
		}
		buf := make([]byte, 70000)
		pc.SetReadDeadline(time.Now().Add(20 * time.Second))
		n, _, err := pc.ReadFrom(buf)
		if err != nil {
			rt.Fatalf("the tracker received nothing within 20 s: %v", err)
		}
		if !bytes.Equal(buf[:n], want) {
			rt.Fatalf("a registration of %d bytes (name %d, description %d, password %d) arrived as a datagram of %d bytes that is not the record (first difference at %d)", len(want), len(name), len(desc), len(pass), n, firstDiff(buf[:n], want))
		}
		pc.SetReadDeadline(time.Now().Add(30 * time.Millisecond))
		if m, _, err := pc.ReadFrom(buf); err == nil {
			rt.Fatalf("a registration of %d bytes arrived in more than one datagram (a second one of %d bytes followed)", len(want), m)
		}
		ev.Case(evid.Hash("register", want), len(want) > 508, fmt.Sprintf("record>508:%v", len(want) > 508))
	})
}
