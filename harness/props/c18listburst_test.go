package props

// C18, "category listings show exactly the children of a path" while other users list other
// paths at the same instant: several connections each ask for the children of a different
// bundle (and of the root), all requests go out together, every reply must hold exactly the
// children of the path it was asked about.

import (
	"fmt"
	"sort"
	"strings"
	"testing"

	"pgregory.net/rapid"

	"verif/harness/evid"
	"verif/harness/hlref"
	"verif/harness/hlsim"
)

func TestC18ListBurst(t *testing.T) {
	ev := evid.New("C18", "TestC18ListBurst")
	defer ev.Flush()
	rapid.Check(t, func(rt *rapid.T) {
		nb := rapid.IntRange(2, 5).Draw(rt, "bundles")
		per := rapid.SampledFrom([]int{60, 3, 20, 120}).Draw(rt, "childrenPerBundle")
		nc := rapid.IntRange(3, 8).Draw(rt, "clients")
		rounds := rapid.IntRange(3, 8).Draw(rt, "rounds")
		var y strings.Builder
		y.WriteString("Categories:\n")
		kids := map[string][]string{"": nil}
		for b := 0; b < nb; b++ {
			bn := fmt.Sprintf("Bundle%c", 'A'+b)
			kids[""] = append(kids[""], bn)
			fmt.Fprintf(&y, "    %s:\n        Type: [0, 2]\n        Name: %s\n        Articles: {}\n        SubCats:\n", bn, bn)
			for k := 0; k < per+b; k++ {
				cn := fmt.Sprintf("%c-cat-%03d", 'A'+b, k)
				kids[bn] = append(kids[bn], cn)
				fmt.Fprintf(&y, "            %s:\n                Type: [0, 3]\n                Name: %s\n                Articles: {}\n                SubCats: {}\n", cn, cn)
			}
		}
		inWorld(rt, hlsim.Options{Agreement: "a", NewsYAML: y.String(), Accounts: []hlsim.AccountSpec{acct("reader", "Reader", "rpw", hlref.AccessOf(hlref.PrivNewsReadArt, hlref.PrivAnyName))}}, func(rt *rapid.T, w *hlsim.World) {
			var cs []*hlsim.Conn
			for i := 0; i < nc; i++ {
				cs = append(cs, loginAs(rt, w, fmt.Sprintf("10.18.7.%d:1", i+1), "reader", "rpw", fmt.Sprintf("reader%d", i)))
			}
			paths := append([]string{""}, kids[""]...)
			for r := 0; r < rounds; r++ {
				for _, c := range cs {
					c.TakeInbox() // (waits for quiescence: done for all before the first request goes out)
				}
				ids := make([]uint32, nc)
				asked := make([]string, nc)
				for i, c := range cs {
					asked[i] = paths[(i+r)%len(paths)]
					ids[i] = c.NewID()
					var fs []hlref.Field
					if asked[i] != "" {
						fs = append(fs, newsPath([]string{asked[i]}))
					}
					c.SendAsync(hlref.Tran{Type: hlref.TranGetNewsCatNameList, ID: ids[i], Fields: fs}.Encode())
				}
				settle(0)
				for i, c := range cs {
					var got []string
					answered := false
					for _, tr := range c.TakeInbox() {
						if tr.IsReply == 1 && tr.ID == ids[i] && tr.Err == 0 {
							answered = true
							for _, d := range tr.GetAll(hlref.FNewsCatListData15) {
								nc, err := hlref.DecodeNewsCat(d)
								if err != nil {
									rt.Fatalf("round %d: client %d: unparseable category record: %v", r, i, err)
								}
								got = append(got, string(nc.Name))
							}
						}
					}
					want := append([]string{}, kids[asked[i]]...)
					sort.Strings(got)
					sort.Strings(want)
					if !answered || strings.Join(got, ",") != strings.Join(want, ",") {
						rt.Fatalf("round %d: %d clients listed different news paths at the same instant; client %d asked for the children of %q (%d of them) and was shown %d entries: %.300s", r, nc, i, asked[i], len(want), len(got), strings.Join(got, ","))
					}
				}
			}
		})
		ev.Case(evid.Hash("listburst", nb, per, nc, rounds), true, fmt.Sprintf("clients:%d", nc))
	})
}
