package props

// C11 — file views agree and file operations carry the whole file.

import (
	"bytes"
	"fmt"
	"os"
	"path/filepath"
	"regexp"
	"sort"
	"strings"
	"testing"

	"golang.org/x/text/encoding/charmap"
	"pgregory.net/rapid"

	"verif/harness/evid"
	"verif/harness/hlref"
	"verif/harness/hlsim"
)

type fnode struct {
	name    string
	kind    string // "dir", "file", "alias"
	content []byte
	partial bool
	hasInfo bool
	comment string
	rsrc    []byte // nil = no stored resource fork
	target  string // alias: absolute model path of the target ("a/b/c")
	kids    map[string]*fnode
}

func (n *fnode) diskName() string {
	if n.kind == "file" && n.partial {
		return n.name + ".incomplete"
	}
	return n.name
}

type c11state struct {
	froot   string // the requester's file root on disk
	rt      *rapid.T
	w       *hlsim.World
	c       *hlsim.Conn
	root    *fnode
	ignore  []*regexp.Regexp
	history []string
	nt      bool
	sideMut bool // a mutating action on an entry with side files has happened
	ev      *evid.Rec
	nameSeq int
}

func (s *c11state) fail(f string, a ...any) {
	s.rt.Fatalf(f+"\nhistory: "+strings.Join(s.history, " | "), a...)
}

// mutate sends a mutating request.  A refusal (error reply) of something the model says
// is allowed is a failure; a missing reply is tolerated and counted - the effect is what
// the invariants (disk snapshot and views) decide.
func (s *c11state) mutate(what string, typ int, fs ...hlref.Field) {
	r := s.c.Request(typ, fs...)
	if r != nil && r.Err != 0 {
		d, _ := r.Get(hlref.FError)
		s.fail("%s refused: %q", what, d)
	}
	if r == nil {
		s.ev.Label("mutating request without reply", 1)
	}
}

func (s *c11state) ignored(disk string) bool {
	for _, r := range s.ignore {
		if r.MatchString(disk) {
			return true
		}
	}
	return false
}

func (s *c11state) lookup(p []string) *fnode {
	n := s.root
	for _, x := range p {
		if n == nil || n.kind != "dir" {
			return nil
		}
		n = n.kids[x]
	}
	return n
}

func (s *c11state) dirs() [][]string {
	var out [][]string
	var walk func(p []string, n *fnode)
	walk = func(p []string, n *fnode) {
		out = append(out, p)
		ks := sortedKeys(n.kids)
		for _, k := range ks {
			if n.kids[k].kind == "dir" {
				walk(append(append([]string{}, p...), k), n.kids[k])
			}
		}
	}
	walk(nil, s.root)
	return out
}

func sortedKeys(m map[string]*fnode) []string {
	var ks []string
	for k := range m {
		ks = append(ks, k)
	}
	sort.Strings(ks)
	return ks
}

func wirePath(p []string) []byte {
	if len(p) == 0 {
		return nil
	}
	items := make([][]byte, len(p))
	for i, x := range p {
		items[i] = macRoman(x)
	}
	return hlref.EncodePath(items)
}

type viewEntry struct {
	name  string // listed (final) name, UTF-8
	isDir bool
	size  int
}

// expectedListing computes what the file list of directory p must show.
func (s *c11state) expectedListing(p []string) []viewEntry {
	d := s.lookup(p)
	var out []viewEntry
	for _, k := range sortedKeys(d.kids) {
		n := d.kids[k]
		if s.ignored(n.diskName()) {
			continue
		}
		switch n.kind {
		case "dir":
			out = append(out, viewEntry{name: n.name, isDir: true, size: s.visibleCount(n)})
		case "file":
			sz := len(n.content) + len(n.rsrc)
			out = append(out, viewEntry{name: n.name, size: sz})
		case "alias":
			t := s.resolve(n)
			if t == nil {
				continue // dangling alias: not shown
			}
			if t.kind == "dir" {
				out = append(out, viewEntry{name: n.name, isDir: true, size: s.visibleCount(t)})
			} else {
				out = append(out, viewEntry{name: n.name, size: len(t.content)})
			}
		}
	}
	sort.Slice(out, func(i, j int) bool { return out[i].name < out[j].name })
	return out
}

// resolve follows an alias (chains of aliases, and aliases used as intermediate path
// components - the way the filesystem resolves symbolic links) to the entry it currently
// points at; nil when it dangles.
func (s *c11state) resolve(n *fnode) *fnode { return s.resolveDepth(n, 0) }

func (s *c11state) resolveDepth(n *fnode, depth int) *fnode {
	for n != nil && n.kind == "alias" {
		if depth > 10 {
			return nil
		}
		depth++
		cur := s.root
		for _, comp := range splitPath(n.target) {
			if cur == nil || cur.kind != "dir" {
				cur = nil
				break
			}
			cur = cur.kids[comp]
			if cur != nil && cur.kind == "alias" {
				cur = s.resolveDepth(cur, depth)
			}
			if cur != nil && cur.kind == "file" && cur.partial {
				cur = nil // on disk under <name>.incomplete: the path does not exist
			}
		}
		n = cur
	}
	return n
}

func (s *c11state) visibleCount(d *fnode) int {
	c := 0
	for _, n := range d.kids {
		if !s.ignored(n.diskName()) {
			c++
		}
	}
	return c
}

func splitPath(p string) []string {
	if p == "" {
		return nil
	}
	return strings.Split(p, "/")
}

// expectedDisk lists what the directory tree must contain on disk, side files included.
func (s *c11state) expectedDisk() map[string]string {
	out := map[string]string{}
	var walk func(prefix string, d *fnode)
	walk = func(prefix string, d *fnode) {
		for _, k := range sortedKeys(d.kids) {
			n := d.kids[k]
			p := filepath.Join(prefix, n.diskName())
			switch n.kind {
			case "dir":
				out[p] = "dir"
				walk(p, n)
			case "file":
				out[p] = "file:" + evid.Hash(n.content)
				if n.hasInfo {
					out[filepath.Join(prefix, ".info_"+n.name)] = "info"
				}
				if n.rsrc != nil {
					out[filepath.Join(prefix, ".rsrc_"+n.name)] = "file:" + evid.Hash(n.rsrc)
				}
			case "alias":
				out[p] = "link:" + n.target
			}
		}
	}
	walk("", s.root)
	return out
}

func (s *c11state) actualDisk() map[string]string {
	out := map[string]string{}
	root := s.froot
	_ = filepath.Walk(root, func(p string, info os.FileInfo, err error) error {
		if err != nil || p == root {
			return nil
		}
		rel, _ := filepath.Rel(root, p)
		switch {
		case info.Mode()&os.ModeSymlink != 0:
			t, _ := os.Readlink(p)
			tr, _ := filepath.Rel(root, t)
			out[rel] = "link:" + tr
		case info.IsDir():
			out[rel] = "dir"
		case strings.HasPrefix(info.Name(), ".info_"):
			out[rel] = "info"
		default:
			b, _ := os.ReadFile(p)
			out[rel] = "file:" + evid.Hash(b)
		}
		return nil
	})
	return out
}

func (s *c11state) checkDisk(ctx string) {
	want, got := s.expectedDisk(), s.actualDisk()
	var diff []string
	for k, v := range want {
		if got[k] != v {
			diff = append(diff, fmt.Sprintf("%q: on disk %q, model %q", k, got[k], v))
		}
	}
	for k, v := range got {
		if _, ok := want[k]; !ok {
			diff = append(diff, fmt.Sprintf("%q: on disk %q, not in model", k, v))
		}
	}
	if len(diff) > 0 {
		sort.Strings(diff)
		s.fail("%s: file tree on disk differs from the model: %s", ctx, strings.Join(diff, "; "))
	}
}

func (s *c11state) checkViews(ctx string) {
	for _, p := range s.dirs() {
		got, r, err := s.c.ListFiles(wirePath(p))
		if err != nil {
			s.fail("%s: file list of %v: %v (%s)", ctx, p, err, replySummary(r))
		}
		want := s.expectedListing(p)
		var gs, ws []string
		for _, g := range got {
			nm, derr := macDecode(g.Name)
			if derr != nil {
				nm = "<undecodable>" + g.Name
			}
			gs = append(gs, fmt.Sprintf("%q dir=%v size=%d", nm, g.Type == "fldr", g.Size))
		}
		for _, x := range want {
			ws = append(ws, fmt.Sprintf("%q dir=%v size=%d", x.name, x.isDir, x.size))
		}
		sort.Strings(gs)
		sort.Strings(ws)
		if strings.Join(gs, "\n") != strings.Join(ws, "\n") {
			s.fail("%s: file list of %v shows\n  %s\nthe folder holds (by the model, ignore patterns %v)\n  %s", ctx, p, strings.Join(gs, "\n  "), s.ignore, strings.Join(ws, "\n  "))
		}
		// addressability and agreement for listed complete entries (a few per folder)
		d := s.lookup(p)
		checked := 0
		for _, g := range got {
			nm, _ := macDecode(g.Name)
			n := d.kids[nm]
			if n == nil || checked >= 3 {
				continue
			}
			if n.kind == "file" && n.partial {
				continue
			}
			if n.kind == "alias" {
				continue
			}
			checked++
			fs := append([]hlref.Field{fld(hlref.FFileName, []byte(g.Name))}, pathField(wirePath(p))...)
			ir := s.c.Request(hlref.TranGetFileInfo, fs...)
			if !okReply(ir) {
				s.fail("%s: listed entry %q in %v cannot be addressed by its listed name for get-info: %s", ctx, nm, p, replySummary(ir))
			}
			in, _ := ir.Get(hlref.FFileName)
			ity, _ := ir.Get(hlref.FFileType)
			if string(in) != g.Name {
				s.fail("%s: get-info of %q in %v answers for %q", ctx, nm, p, in)
			}
			if string(ity) != g.Type {
				s.fail("%s: entry %q in %v: type in the list %q, in get-info %q", ctx, nm, p, g.Type, ity)
			}
			if n.kind == "dir" {
				continue
			}
			cm, _ := ir.Get(hlref.FFileComment)
			if string(cm) != n.comment {
				s.fail("%s: file %q in %v: get-info shows comment %q, model %q", ctx, nm, p, cm, n.comment)
			}
			isz, ok := ir.Get(hlref.FFileSize)
			if !ok || hlref.U32(isz) != int(g.Size) {
				s.fail("%s: file %q in %v: size in the list %d, in get-info %d", ctx, nm, p, g.Size, hlref.U32(isz))
			}
			if n.rsrc == nil {
				dr := s.c.Request(hlref.TranDownloadFile, fs...)
				if !okReply(dr) {
					s.fail("%s: listed file %q in %v cannot be addressed by its listed name for download: %s", ctx, nm, p, replySummary(dr))
				}
				dsz, _ := dr.Get(hlref.FFileSize)
				if hlref.U32(dsz) != int(g.Size) || int(g.Size) != len(n.content) {
					s.fail("%s: file %q in %v: list size %d, download file size %d, bytes on disk %d", ctx, nm, p, g.Size, hlref.U32(dsz), len(n.content))
				}
				// ... and for every fourth name the download is followed through: the transfer that was granted under the listed
				// name carries that file
				if ref, ok := dr.Get(hlref.FRefNum); ok && len(nm) > 0 && (int(nm[0])+len(nm))%4 == 0 {
					rx, _ := s.w.Transfer("10.0.0.1:9", ref, 0, nil, -1)
					ph, err := hlref.ParseFlatHeader(rx)
					if err != nil || ph.DataSize != len(n.content) || len(rx) < ph.HeaderLen+len(n.content) || !bytes.Equal(rx[ph.HeaderLen:ph.HeaderLen+len(n.content)], n.content) {
						s.fail("%s: file %q in %v, requested for download by its listed name: the transfer does not carry the file's %d bytes (%d bytes arrived, header: %v)", ctx, nm, p, len(n.content), len(rx), err)
					}
				}
			}
		}
	}
	if s.sideMut {
		s.nt = true
	}
}

func macDecode(s string) (string, error) {
	return charmap.Macintosh.NewDecoder().String(s)
}

var c11Specials = []string{"SECRET.TXT", "Keep.BAK", "secret plans", "my.incomplete.notes", "x.info_y", "a.rsrc_b", "keep.bak", "top secret.txt", "@hidden", "notes.incomplete.txt", strings.Repeat("L", 244), strings.Repeat("M", 253), strings.Repeat("N", 254), strings.Repeat("O", 255)}

func (s *c11state) genName(label string, d *fnode, maxLen int) string {
	for tries := 0; tries < 50; tries++ {
		var n string
		if rapid.IntRange(0, 3).Draw(s.rt, fmt.Sprintf("%s_sp%d", label, tries)) == 0 {
			n = rapid.SampledFrom(c11Specials).Draw(s.rt, fmt.Sprintf("%s_s%d", label, tries))
		} else {
			n = genFileName(s.rt, fmt.Sprintf("%s_%d", label, tries))
		}
		if len(n) > maxLen || strings.HasSuffix(n, ".incomplete") {
			continue
		}
		clash := false
		for _, k := range d.kids {
			if k.name == n || k.diskName() == n || k.name+".incomplete" == n || n+".incomplete" == k.diskName() {
				clash = true
			}
		}
		if !clash {
			return n
		}
	}
	s.nameSeq++
	return fmt.Sprintf("fresh%d", s.nameSeq)
}

func hasSideFiles(n *fnode) bool {
	return n.kind == "file" && (n.hasInfo || n.rsrc != nil || n.partial)
}

func c11prop(ev *evid.Rec) func(rt *rapid.T) {
	return func(rt *rapid.T) {
		ignoreSet := rapid.SampledFrom([][]string{{`^\.`, `^@`}, {`^\.`, `^@`}, {`^\.`}, {`^\.`, `^@`, `\.bak$`}, {`^\.`, `secret`}, {`^\.`, `^@`, `^L+$`},
			{`^\.`, `(?i)\.bak$`, `^secret`}, // an inline flag belongs to its own pattern only
			{`^\.`, `*.bak`, `^@`},           // a pattern that is not a regular expression matches nothing; the others still apply
		}).Draw(rt, "ignore")
		own := rapid.IntRange(0, 3).Draw(rt, "ownroot") == 0
		inWorld(rt, hlsim.Options{Agreement: "a", IgnoreFiles: ignoreSet, Accounts: []hlsim.AccountSpec{acct("admin", "Admin", "adminpw", allAccess)}}, func(rt *rapid.T, w *hlsim.World) {
			s := &c11state{rt: rt, w: w, ev: ev, root: &fnode{kind: "dir", kids: map[string]*fnode{}}, froot: w.FileRoot}
			if own {
				// the account has a file root of its own; the server-wide root mirrors its top-level folder names (empty)
				s.froot = ownRoot(rt, w, acct("admin", "Admin", "adminpw", allAccess))
			}
			for _, p := range ignoreSet {
				if re, err := regexp.Compile(p); err == nil { // what is not a regular expression matches nothing
					s.ignore = append(s.ignore, re)
				}
			}
			rec := func(f string, a ...any) { s.history = append(s.history, fmt.Sprintf(f, a...)) }
			// ---- initial tree, written directly to disk
			var seed func(p []string, d *fnode, depth int)
			seed = func(p []string, d *fnode, depth int) {
				n := rapid.IntRange(0, 4).Draw(rt, fmt.Sprintf("seed_n_%s", strings.Join(p, "/")))
				for i := 0; i < n; i++ {
					lab := fmt.Sprintf("seed_%s_%d", strings.Join(p, "/"), i)
					name := s.genName(lab, d, 244)
					full := filepath.Join(append([]string{s.froot}, append(p, name)...)...)
					if depth < 2 && rapid.IntRange(0, 2).Draw(rt, lab+"_dir") == 0 {
						nd := &fnode{name: name, kind: "dir", kids: map[string]*fnode{}}
						d.kids[name] = nd
						must(os.MkdirAll(full, 0o755))
						seed(append(append([]string{}, p...), name), nd, depth+1)
						continue
					}
					nd := &fnode{name: name, kind: "file", content: genBytes(rt, lab+"_c", rapid.IntRange(0, 300).Draw(rt, lab+"_len"))}
					switch rapid.IntRange(0, 5).Draw(rt, lab+"_forks") {
					case 0:
						nd.rsrc = genBytes(rt, lab+"_r", rapid.IntRange(0, 50).Draw(rt, lab+"_rlen"))
						must(os.WriteFile(filepath.Join(filepath.Dir(full), ".rsrc_"+name), nd.rsrc, 0o644))
					case 1:
						nd.hasInfo, nd.comment = true, "seeded comment"
						inf := hlref.InfoFork{Platform: [4]byte{'A', 'M', 'A', 'C'}, Type: [4]byte{'A', 'B', 'C', 'D'}, Creator: [4]byte{'W', 'X', 'Y', 'Z'}, Name: macRoman(name), Comment: []byte(nd.comment)}
						must(os.WriteFile(filepath.Join(filepath.Dir(full), ".info_"+name), inf.Encode(), 0o644))
					case 2:
						nd.partial = true
					}
					d.kids[name] = nd
					must(os.WriteFile(filepath.Join(filepath.Dir(full), nd.diskName()), nd.content, 0o644))
				}
			}
			seed(nil, s.root, 0)
			if own {
				for name, k := range s.root.kids {
					if k.kind == "dir" {
						must(os.MkdirAll(filepath.Join(w.FileRoot, name), 0o755))
					}
				}
			}
			s.c = loginAs(rt, w, "10.0.0.1:1", "admin", "adminpw", "admin")
			s.checkDisk("initial")
			s.checkViews("initial")

			pickDir := func(label string) []string {
				ds := s.dirs()
				return ds[rapid.IntRange(0, len(ds)-1).Draw(s.rt, label)]
			}
			pickEntry := func(label string, ok func(*fnode) bool) ([]string, *fnode) {
				type cand struct {
					p []string
					n *fnode
				}
				var cs []cand
				for _, p := range s.dirs() {
					d := s.lookup(p)
					for _, k := range sortedKeys(d.kids) {
						if n := d.kids[k]; ok(n) && !s.ignored(n.diskName()) {
							cs = append(cs, cand{p, n})
						}
					}
				}
				if len(cs) == 0 {
					return nil, nil
				}
				c := cs[rapid.IntRange(0, len(cs)-1).Draw(s.rt, label)]
				return c.p, c.n
			}
			nameFields := func(p []string, n *fnode) []hlref.Field {
				return append([]hlref.Field{fld(hlref.FFileName, macRoman(n.name))}, pathField(wirePath(p))...)
			}
			mutated := func(n *fnode) {
				if hasSideFiles(n) {
					s.sideMut = true
				}
			}
			rt.Repeat(map[string]func(*rapid.T){
				"newFolder": func(rt *rapid.T) {
					s.rt = rt
					p := pickDir("where")
					if len(p) >= 3 {
						rt.Skip()
					}
					d := s.lookup(p)
					if len(d.kids) > 0 && rapid.IntRange(0, 3).Draw(rt, "existing") == 0 {
						ks := sortedKeys(d.kids)
						ex := d.kids[ks[rapid.IntRange(0, len(ks)-1).Draw(rt, "which")]]
						if ex.kind == "file" && ex.partial {
							rt.Skip()
						}
						rec("new-folder over existing %v/%q", p, ex.name)
						// creating a folder must never replace an existing entry: the model is left unchanged and the
						// invariant compares disk and views (whether the reply is an error is not part of the statement)
						s.c.Request(hlref.TranNewFolder, nameFields(p, ex)...)
						mutated(ex)
						return
					}
					if rapid.IntRange(0, 5).Draw(rt, "belowMissingFolder") == 0 {
						// the folder named in the path is not there (any more - somebody deleted or renamed it): whatever the server
						// answers, it does not bring the missing folder back; the model stays as it is
						ghost := rapid.SampledFrom([]string{"no such folder", "deleted meanwhile", "Uploads gone"}).Draw(rt, "ghost")
						if _, ok := d.kids[ghost]; ok {
							rt.Skip()
						}
						rec("new-folder below the missing folder %v/%q", p, ghost)
						s.c.Request(hlref.TranNewFolder, nameFields(append(append([]string{}, p...), ghost), &fnode{name: "below", kind: "dir"})...)
						return
					}
					name := s.genName("name", d, 255)
					rec("new-folder %v/%q", p, name)
					nd := &fnode{name: name, kind: "dir", kids: map[string]*fnode{}}
					s.mutate(fmt.Sprintf("new folder %q in %v", name, p), hlref.TranNewFolder, nameFields(p, nd)...)
					d.kids[name] = nd
				},
				"rename": func(rt *rapid.T) {
					s.rt = rt
					p, n := pickEntry("what", func(n *fnode) bool { return n.kind == "dir" || (n.kind == "file" && !n.partial) })
					if n == nil {
						rt.Skip()
					}
					d := s.lookup(p)
					max := 255
					if n.kind == "file" {
						max = 244
					}
					nn := s.genName("newname", d, max)
					rec("rename %v/%q -> %q", p, n.name, nn)
					s.mutate(fmt.Sprintf("rename of %q in %v to %q", n.name, p, nn), hlref.TranSetFileInfo, append(nameFields(p, n), fld(hlref.FFileNewName, macRoman(nn)))...)
					mutated(n)
					old := s.modelPath(p, n)
					delete(d.kids, n.name)
					n.name = nn
					d.kids[nn] = n
					s.retarget(old, "")
				},
				"renameAndComment": func(rt *rapid.T) {
					// one set-file-info request carrying both a comment and a new name
					s.rt = rt
					p, n := pickEntry("what", func(n *fnode) bool { return n.kind == "file" && !n.partial && len(n.name) <= 249 })
					if n == nil {
						rt.Skip()
					}
					d := s.lookup(p)
					nn := s.genName("newname", d, 244)
					cm := rapid.SampledFrom([]string{"both at once", "c", strings.Repeat("y", 120)}).Draw(rt, "comment")
					rec("rename+comment %v/%q -> %q", p, n.name, nn)
					s.mutate(fmt.Sprintf("rename of %q in %v to %q with a comment", n.name, p, nn), hlref.TranSetFileInfo, append(nameFields(p, n), sfld(hlref.FFileComment, cm), fld(hlref.FFileNewName, macRoman(nn)))...)
					mutated(n)
					old := s.modelPath(p, n)
					delete(d.kids, n.name)
					n.name = nn
					d.kids[nn] = n
					n.hasInfo, n.comment = true, cm
					s.retarget(old, "")
				},
				"move": func(rt *rapid.T) {
					s.rt = rt
					p, n := pickEntry("what", func(n *fnode) bool { return n.kind == "dir" || (n.kind == "file" && !n.partial) })
					if n == nil {
						rt.Skip()
					}
					dst := pickDir("dest")
					dd := s.lookup(dst)
					src := s.modelPath(p, n)
					dstS := strings.Join(dst, "/")
					if strings.Join(p, "/") == dstS || (n.kind == "dir" && (dstS == src || strings.HasPrefix(dstS+"/", src+"/"))) {
						rt.Skip()
					}
					for _, k := range dd.kids {
						if k.name == n.name || k.diskName() == n.name || k.diskName() == n.name+".incomplete" {
							s.ev.Exclude("move onto an existing name")
							rt.Skip()
						}
					}
					rec("move %v/%q -> %v", p, n.name, dst)
					np := wirePath(dst)
					if np == nil {
						np = hlref.EncodePath(nil)
					}
					s.mutate(fmt.Sprintf("move of %q from %v to %v", n.name, p, dst), hlref.TranMoveFile, append(nameFields(p, n), fld(hlref.FFileNewPath, np))...)
					mutated(n)
					delete(s.lookup(p).kids, n.name)
					dd.kids[n.name] = n
					s.retarget(src, "")
				},
				"delete": func(rt *rapid.T) {
					s.rt = rt
					p, n := pickEntry("what", func(n *fnode) bool { return true })
					if n == nil {
						rt.Skip()
					}
					if n.kind == "alias" && s.resolve(n) == nil {
						rt.Skip()
					}
					rec("delete %v/%q (%s partial=%v)", p, n.name, n.kind, n.partial)
					s.mutate(fmt.Sprintf("delete of %q in %v", n.name, p), hlref.TranDeleteFile, nameFields(p, n)...)
					mutated(n)
					delete(s.lookup(p).kids, n.name)
				},
				"commentFolderThenDelete": func(rt *rapid.T) {
					// a folder is given a comment and deleted afterwards: the folder vanishes with everything that belongs to it, so
					// that whatever takes the name next starts afresh (the disk comparison that follows sees a side file left behind)
					s.rt = rt
					p, n := pickEntry("what", func(n *fnode) bool { return n.kind == "dir" && len(n.name) <= 249 })
					if n == nil {
						rt.Skip()
					}
					rec("set-comment on the folder %v/%q, then delete it", p, n.name)
					s.mutate(fmt.Sprintf("set-comment on the folder %q in %v", n.name, p), hlref.TranSetFileInfo, append(nameFields(p, n), sfld(hlref.FFileComment, "a folder's comment"))...)
					s.mutate(fmt.Sprintf("delete of the folder %q in %v", n.name, p), hlref.TranDeleteFile, nameFields(p, n)...)
					delete(s.lookup(p).kids, n.name)
				},
				"setComment": func(rt *rapid.T) {
					s.rt = rt
					p, n := pickEntry("what", func(n *fnode) bool { return n.kind == "file" && !n.partial && len(n.name) <= 249 })
					if n == nil {
						rt.Skip()
					}
					cm := rapid.SampledFrom([]string{"c", "a longer comment", strings.Repeat("z", 200), "caf\x8e", "", "", strings.Repeat("W", 33000), strings.Repeat("V", 60000)}).Draw(rt, "comment") // (the whole request has to fit the 64 KiB frame) // "" = the comment field is present but empty: the comment is cleared
					rec("set-comment %v/%q", p, n.name)
					s.mutate(fmt.Sprintf("set-comment on %q in %v", n.name, p), hlref.TranSetFileInfo, append(nameFields(p, n), sfld(hlref.FFileComment, cm))...)
					n.hasInfo, n.comment = true, cm
				},
				"makeAlias": func(rt *rapid.T) {
					s.rt = rt
					p, n := pickEntry("what", func(n *fnode) bool { return n.kind == "dir" || (n.kind == "file" && !n.partial) })
					if n == nil {
						rt.Skip()
					}
					dst := pickDir("dest")
					dd := s.lookup(dst)
					src := s.modelPath(p, n)
					dstS := strings.Join(dst, "/")
					if n.kind == "dir" && (dstS == src || strings.HasPrefix(dstS+"/", src+"/")) {
						rt.Skip()
					}
					for _, k := range dd.kids {
						if k.name == n.name || k.diskName() == n.name {
							rt.Skip()
						}
					}
					rec("alias %v/%q in %v", p, n.name, dst)
					np := wirePath(dst)
					if np == nil {
						np = hlref.EncodePath(nil)
					}
					s.mutate(fmt.Sprintf("alias of %q", n.name), hlref.TranMakeFileAlias, append(nameFields(p, n), fld(hlref.FFileNewPath, np))...)
					dd.kids[n.name] = &fnode{name: n.name, kind: "alias", target: src}
				},
				"partialUpload": func(rt *rapid.T) {
					s.rt = rt
					p := pickDir("where")
					d := s.lookup(p)
					name := s.genName("name", d, 244)
					content := genBytes(rt, "content", rapid.IntRange(1, 500).Draw(rt, "len"))
					got := rapid.IntRange(0, len(content)-1).Draw(rt, "received")
					rec("partial upload %v/%q %d of %d bytes", p, name, got, len(content))
					nd := &fnode{name: name, kind: "file", partial: true, content: content[:got]}
					r := s.c.Request(hlref.TranUploadFile, append(nameFields(p, nd), fld(hlref.FTransferSize, hlref.BE32(len(content)+200)))...)
					if !okReply(r) {
						s.fail("upload request refused")
					}
					ref, _ := r.Get(hlref.FRefNum)
					wn := macRoman(name)
					stream := hlsim.UploadStream(wn, nil, content, nil, 2)
					w.Transfer("10.0.0.1:2", ref, len(stream), stream, 16+hlsim.UploadHeaderLen(wn, nil)+got)
					d.kids[name] = nd
				},
				"": func(rt *rapid.T) {
					s.rt = rt
					s.checkDisk("invariant")
					s.checkViews("invariant")
				},
			})
			ev.Case(evid.Hash(strings.Join(s.history, "|"), fmt.Sprint(ignoreSet), own), s.nt, fmt.Sprintf("own-root:%v", own), fmt.Sprintf("steps:%d", min(len(s.history)/5*5, 40)), "ignore:"+strings.Join(ignoreSet, ","))
			if s.nt && ev.WantSample() {
				ev.Sample(map[string]any{"ignore_patterns": ignoreSet, "history": s.history})
			}
		})
	}
}

func (s *c11state) modelPath(p []string, n *fnode) string {
	return strings.Join(append(append([]string{}, p...), n.name), "/")
}

// retarget is a hook for alias bookkeeping: aliases keep pointing at the path they were
// created with, so after a rename/move they dangle (and are no longer listed).
func (s *c11state) retarget(old, _ string) {}

func TestC11(t *testing.T) {
	ev := evid.New("C11", "TestC11")
	defer ev.Flush()
	rapid.Check(t, c11prop(ev))
}

// TestC11Burst: several clients ask for the file list, get-info and a download of
// different files (of different sizes) at the same instant: every answer must show the size
// of the file it is about.
func TestC11Burst(t *testing.T) {
	ev := evid.New("C11", "TestC11Burst")
	defer ev.Flush()
	rapid.Check(t, func(rt *rapid.T) {
		n := rapid.IntRange(2, 8).Draw(rt, "clients")
		rounds := rapid.IntRange(5, 20).Draw(rt, "rounds")
		sizes := rapid.SliceOfNDistinct(rapid.IntRange(0, 70000), n, n, rapid.ID[int]).Draw(rt, "sizes")
		kinds := rapid.SliceOfN(rapid.SampledFrom([]string{"download", "download", "info", "list"}), n*rounds, n*rounds).Draw(rt, "kinds")
		inWorld(rt, hlsim.Options{Agreement: "a", Accounts: []hlsim.AccountSpec{acct("admin", "Admin", "adminpw", allAccess)}}, func(rt *rapid.T, w *hlsim.World) {
			must(os.MkdirAll(filepath.Join(w.FileRoot, "d"), 0o755))
			var cs []*hlsim.Conn
			for i := 0; i < n; i++ {
				must(os.WriteFile(filepath.Join(w.FileRoot, "d", fmt.Sprintf("f%d.bin", i)), bytes.Repeat([]byte{byte(i)}, sizes[i]), 0o644))
				cs = append(cs, loginAs(rt, w, fmt.Sprintf("10.11.9.%d:1", i+1), "admin", "adminpw", fmt.Sprintf("c%d", i)))
			}
			for r := 0; r < rounds; r++ {
				ids := make([]uint32, n)
				for i, c := range cs {
					ids[i] = c.NewID()
					fs := append([]hlref.Field{sfld(hlref.FFileName, fmt.Sprintf("f%d.bin", i))}, pathField(p1("d"))...)
					typ := map[string]int{"download": hlref.TranDownloadFile, "info": hlref.TranGetFileInfo, "list": hlref.TranGetFileNameList}[kinds[r*n+i]]
					if kinds[r*n+i] == "list" {
						fs = pathField(p1("d"))
					}
					c.SendAsync(hlref.Tran{Type: typ, ID: ids[i], Fields: fs}.Encode())
				}
				settle(0)
				for i, c := range cs {
					var rep *hlref.Tran
					for _, tr := range c.TakeInbox() {
						if tr.IsReply == 1 && tr.ID == ids[i] {
							tt := tr
							rep = &tt
						}
					}
					ctx := fmt.Sprintf("round %d: %d clients asked at the same instant (%v); client %d's %s of d/f%d.bin (%d bytes on disk)", r, n, kinds[r*n:r*n+n], i, kinds[r*n+i], i, sizes[i])
					if !okReply(rep) {
						rt.Fatalf("%s: no positive reply: %s", ctx, replySummary(rep))
					}
					switch kinds[r*n+i] {
					case "list":
						seen := 0
						for _, d := range rep.GetAll(hlref.FFileNameWithInfo) {
							f, err := hlref.DecodeFileNameWithInfo(d)
							if err != nil {
								rt.Fatalf("%s: list entry unparseable: %v", ctx, err)
							}
							var k int
							if _, err := fmt.Sscanf(string(f.Name), "f%d.bin", &k); err != nil || k >= n {
								rt.Fatalf("%s: unexpected entry %q", ctx, f.Name)
							}
							seen++
							if int(f.Size) != sizes[k] {
								rt.Fatalf("%s: the list shows f%d.bin with %d bytes, on disk %d", ctx, k, f.Size, sizes[k])
							}
						}
						if seen != n {
							rt.Fatalf("%s: the list shows %d of %d files", ctx, seen, n)
						}
					default:
						sz, ok := rep.Get(hlref.FFileSize)
						if !ok || hlref.U32(sz) != sizes[i] {
							rt.Fatalf("%s: the reply says %d bytes", ctx, hlref.U32(sz))
						}
						if kinds[r*n+i] == "download" {
							ts, _ := rep.Get(hlref.FTransferSize)
							if hlref.U32(ts) <= sizes[i] || hlref.U32(ts) > sizes[i]+400 {
								rt.Fatalf("%s: the reply announces a transfer of %d bytes", ctx, hlref.U32(ts))
							}
						}
					}
				}
			}
		})
		ev.Case(evid.Hash("c11burst", fmt.Sprint(sizes), fmt.Sprint(kinds)), true, "burst", fmt.Sprintf("clients:%d", n))
		ev.Label("burst_rounds", rounds)
		if ev.WantSample() {
			ev.Sample(map[string]any{"engine": "bubble, concurrent handlers", "clients": n, "file_sizes": sizes, "first_round": kinds[:n]})
		}
	})
}
