package props

// C03 (engine E4) — the production accept loops in a child process, driven over loopback
// TCP from many source addresses: the process must survive hostile and simply numerous
// connections, and a well-behaved client must keep being served.

import (
	"bytes"
	"fmt"
	"net"
	"os"
	"os/exec"
	"path/filepath"
	"regexp"
	"strings"
	"sync"
	"sync/atomic"
	"testing"
	"time"

	"verif/harness/evid"
	"verif/harness/hlref"
	"verif/harness/hlsim"
)

type tcpClient struct {
	c  net.Conn
	rx []byte
	id uint32
	// after startReader: everything the server sends is consumed as it arrives (a well-behaved client reads what it
	// is sent); replies are handed to request, everything else is counted and dropped
	replies chan hlref.Tran
	readErr chan error
	dropped atomic.Int64
}

func dialFrom(src string, port int, timeout time.Duration) (net.Conn, error) {
	d := net.Dialer{Timeout: timeout, LocalAddr: &net.TCPAddr{IP: net.ParseIP(src)}}
	return d.Dial("tcp", fmt.Sprintf("127.0.0.1:%d", port))
}

func (t *tcpClient) readTran(deadline time.Duration) (*hlref.Tran, error) {
	if deadline > 0 {
		t.c.SetReadDeadline(time.Now().Add(deadline))
	} else {
		t.c.SetReadDeadline(time.Time{})
	}
	buf := make([]byte, 65536)
	for {
		if tr, n, err := hlref.DecodeTran(t.rx); err == nil {
			t.rx = t.rx[n:]
			return &tr, nil
		} else if err != hlref.ErrShort {
			return nil, err
		}
		n, err := t.c.Read(buf)
		t.rx = append(t.rx, buf[:n]...)
		if err != nil && n == 0 {
			return nil, err
		}
	}
}

func (t *tcpClient) startReader() {
	t.replies = make(chan hlref.Tran, 64)
	t.readErr = make(chan error, 1)
	go func() {
		for {
			tr, err := t.readTran(0)
			if err != nil {
				t.readErr <- err
				return
			}
			if tr.IsReply == 1 {
				t.replies <- *tr
			} else {
				t.dropped.Add(1)
			}
		}
	}()
}

func (t *tcpClient) request(typ int, deadline time.Duration, fs ...hlref.Field) (*hlref.Tran, error) {
	t.id++
	id := t.id
	if _, err := t.c.Write(hlref.Tran{Type: typ, ID: id, Fields: fs}.Encode()); err != nil {
		return nil, err
	}
	if t.replies != nil {
		timeout := time.After(deadline)
		for {
			select {
			case tr := <-t.replies:
				if tr.ID == id {
					return &tr, nil
				}
			case err := <-t.readErr:
				t.readErr <- err
				return nil, err
			case <-timeout:
				return nil, fmt.Errorf("no reply to request %d (type %d) within %s", id, typ, deadline)
			}
		}
	}
	for {
		tr, err := t.readTran(deadline)
		if err != nil {
			return nil, err
		}
		if tr.IsReply == 1 && tr.ID == id {
			return tr, nil
		}
	}
}

func tcpLogin(src string, port int, login, pw, name string) (*tcpClient, error) {
	c, err := dialFrom(src, port, 5*time.Second)
	if err != nil {
		return nil, err
	}
	t := &tcpClient{c: c}
	if _, err := c.Write(hlref.Handshake(1, 2)); err != nil {
		return nil, err
	}
	c.SetReadDeadline(time.Now().Add(10 * time.Second))
	hs := make([]byte, 8)
	for got := 0; got < 8; {
		n, err := c.Read(hs[got:])
		if err != nil {
			return nil, fmt.Errorf("handshake reply: %w", err)
		}
		got += n
	}
	r, err := t.request(hlref.TranLogin, 10*time.Second, hlsim.LoginOpts{Login: login, Password: pw, Name: []byte(name), Icon: 1}.Fields()...)
	if err != nil || r.Err != 0 {
		return nil, fmt.Errorf("login: %v", err)
	}
	return t, nil
}

func freePortPair() int {
	start := 21000 + (os.Getpid()*2)%30000
	for p := start; p < 62000; p += 138 {
		l1, e1 := net.Listen("tcp", fmt.Sprintf("127.0.0.1:%d", p))
		if e1 != nil {
			continue
		}
		l2, e2 := net.Listen("tcp", fmt.Sprintf("127.0.0.1:%d", p+1))
		l1.Close()
		if e2 != nil {
			continue
		}
		l2.Close()
		return p
	}
	return 0
}

var raceReport = regexp.MustCompile(`(?s)WARNING: DATA RACE.*?==================`)

func TestC03Net(t *testing.T) {
	ev := evid.New("C03", "TestC03Net")
	defer ev.Flush()
	bin := filepath.Join(os.Getenv("VERIF_BIN"), "srvchild")
	if os.Getenv("VERIF_C03_RACE") != "" {
		bin += "-race"
	}
	if _, err := os.Stat(bin); err != nil {
		t.Fatalf("VERIF-INCONCLUSIVE %s not built", bin)
	}
	seed := uint64(1)
	fmt.Sscan(os.Getenv("VERIF_SEED"), &seed)
	shard, _ := shardInfo()
	nconn := 1500
	if thorough() {
		nconn = 12000
	}
	if os.Getenv("VERIF_C03_RACE") != "" {
		nconn = 1500
	}
	fmt.Sscan(os.Getenv("VERIF_C03_CONNS"), &nconn)
	cfg, err := os.MkdirTemp(worldBase(), "c03net-")
	if err != nil {
		t.Fatal(err)
	}
	defer os.RemoveAll(cfg)
	must(os.MkdirAll(filepath.Join(cfg, "Users"), 0o755))
	must(os.MkdirAll(filepath.Join(cfg, "Files"), 0o755))
	must(os.WriteFile(filepath.Join(cfg, "config.yaml"), []byte("Name: verif\nDescription: d\nBannerFile: banner.jpg\nFileRoot: Files\nEnableTrackerRegistration: false\nIgnoreFiles:\n  - '^\\.'\n"), 0o644))
	for n, c := range map[string]string{"banner.jpg": "jpg", "Agreement.txt": "agreement", "MessageBoard.txt": "board", "ThreadedNews.yaml": "Categories: {}\n", "Files/f.txt": "content"} {
		must(os.WriteFile(filepath.Join(cfg, n), []byte(c), 0o644))
	}
	limited := hlref.AllAccess().Defined()
	for _, p := range []int{hlref.PrivDeleteUser, hlref.PrivModifyUser} { // the well-behaved account cannot be disconnected
		limited.Clear(p)
	}
	// the well-behaved account has a file root of its own: the hostile sessions (which may delete and rename) cannot touch its file
	must(os.MkdirAll(filepath.Join(cfg, "GoodFiles"), 0o755))
	must(os.WriteFile(filepath.Join(cfg, "GoodFiles", "f.txt"), []byte("the well-behaved client's content"), 0o644))
	must(os.WriteFile(filepath.Join(cfg, "Users", "good.yaml"), hlsim.AccountYAML(hlsim.AccountSpec{Login: "good", Name: "Good", Password: "gpw", Access: hlref.AllAccess(), FileRoot: filepath.Join(cfg, "GoodFiles")}), 0o644))
	must(os.WriteFile(filepath.Join(cfg, "Users", "hostile.yaml"), hlsim.AccountYAML(hlsim.AccountSpec{Login: "hostile", Name: "Hostile", Password: "hpw", Access: limited}), 0o644))
	port := freePortPair() + shard*2
	logPath := filepath.Join(cfg, "child.log")
	logf, _ := os.Create(logPath)
	cmd := exec.Command(bin, "-config", cfg, "-bind", fmt.Sprint(port), "-interface", "127.0.0.1", "-log-file", filepath.Join(cfg, "server.log"))
	cmd.Stdout, cmd.Stderr = logf, logf
	cmd.Env = append(os.Environ(), "GORACE=halt_on_error=0")
	if err := cmd.Start(); err != nil {
		t.Fatalf("VERIF-INCONCLUSIVE cannot start child: %v", err)
	}
	exited := make(chan error, 1)
	go func() { exited <- cmd.Wait() }()
	defer func() {
		cmd.Process.Kill()
		logf.Close()
	}()
	childLog := func() string {
		b, _ := os.ReadFile(logPath)
		if len(b) > 6000 {
			b = append([]byte("...\n"), b[len(b)-6000:]...)
		}
		return string(b)
	}
	alive := func() bool {
		select {
		case err := <-exited:
			exited <- err
			return false
		default:
			return true
		}
	}
	// wait for the port
	up := false
	for i := 0; i < 200 && alive(); i++ {
		if c, err := net.DialTimeout("tcp", fmt.Sprintf("127.0.0.1:%d", port), 200*time.Millisecond); err == nil {
			c.Close()
			up = true
			break
		}
		time.Sleep(50 * time.Millisecond)
	}
	if !up {
		t.Fatalf("VERIF-INCONCLUSIVE child server did not come up: %s", childLog())
	}
	time.Sleep(2100 * time.Millisecond) // the probe connection above used 127.0.0.1's rate-limit token
	sentinel, err := tcpLogin("127.0.0.2", port, "good", "gpw", "sentinel")
	if err != nil {
		t.Fatalf("VERIF-INCONCLUSIVE sentinel cannot log in: %v\n%s", err, childLog())
	}
	// ---- the storm: nconn connections from nconn distinct source addresses, 200 at a time
	rng := seed*2654435761 + uint64(shard)*40503
	next := func(n int) int {
		rng += 0x9e3779b97f4a7c15
		z := rng
		z = (z ^ (z >> 30)) * 0xbf58476d1ce4e5b9
		z = (z ^ (z >> 27)) * 0x94d049bb133111eb
		return int((z ^ (z >> 31)) % uint64(n))
	}
	type plan struct {
		src   string
		kind  string
		bytes []byte
		xfer  bool // sent to the transfer port (base port + 1)
	}
	// the well-behaved client's download through the transfer port, before and after the storm
	var dlMu sync.Mutex // one download of the sentinel at a time (its requests share one connection)
	tryDownload := func(when string) string {
		dlMu.Lock()
		defer dlMu.Unlock()
		r, err := sentinel.request(hlref.TranDownloadFile, 60*time.Second, hlref.F(hlref.FFileName, []byte("f.txt")))
		if err != nil || r.Err != 0 {
			if !alive() {
				return fmt.Sprintf("VERIF-VIOLATION C03 the server process terminated (%s):\n%s", when, childLog())
			}
			return fmt.Sprintf("VERIF-INCONCLUSIVE %s: download request of the well-behaved client not granted within 60 s: %v", when, err)
		}
		ref, _ := r.Get(hlref.FRefNum)
		var r4 [4]byte
		copy(r4[:], ref)
		c, err := dialFrom("127.0.0.2", port+1, 10*time.Second)
		if err != nil {
			return fmt.Sprintf("VERIF-VIOLATION C03 %s: the well-behaved client cannot reach the transfer port (base port + 1) for a granted download: %v\n%s", when, err, childLog())
		}
		defer c.Close()
		c.Write(hlref.Preamble(r4, 0))
		c.SetReadDeadline(time.Now().Add(60 * time.Second))
		var got []byte
		buf := make([]byte, 4096)
		for !bytes.Contains(got, []byte("the well-behaved client's content")) { // (an empty resource fork header may follow the data)
			n, err := c.Read(buf)
			got = append(got, buf[:n]...)
			if err != nil {
				break
			}
		}
		if !bytes.Contains(got, []byte("the well-behaved client's content")) {
			if !alive() {
				return fmt.Sprintf("VERIF-VIOLATION C03 the server process terminated (%s):\n%s", when, childLog())
			}
			return fmt.Sprintf("VERIF-VIOLATION C03 %s: the well-behaved client's granted download delivered %d bytes that do not hold the file's data within 60 s", when, len(got))
		}
		return ""
	}
	download := func(when string) {
		if e := tryDownload(when); e != "" {
			t.Fatalf("%s", e)
		}
	}
	// a burst: k downloads are granted one after the other, then all k transfer connections are opened at the same
	// instant (a client fetching many files): each must deliver its file
	burst := func(when string, k int) {
		dlMu.Lock()
		defer dlMu.Unlock()
		var refs [][4]byte
		for i := 0; i < k; i++ {
			r, err := sentinel.request(hlref.TranDownloadFile, 60*time.Second, hlref.F(hlref.FFileName, []byte("f.txt")))
			if err != nil || r.Err != 0 {
				if !alive() {
					t.Fatalf("VERIF-VIOLATION C03 the server process terminated (%s):\n%s", when, childLog())
				}
				t.Fatalf("VERIF-INCONCLUSIVE %s: download request %d of a burst not granted within 60 s: %v", when, i, err)
			}
			ref, _ := r.Get(hlref.FRefNum)
			var r4 [4]byte
			copy(r4[:], ref)
			refs = append(refs, r4)
		}
		res := make([]string, k)
		var wg sync.WaitGroup
		start := make(chan struct{})
		for i := range refs {
			wg.Add(1)
			go func(i int) {
				defer wg.Done()
				<-start
				c, err := dialFrom("127.0.0.2", port+1, 10*time.Second)
				if err != nil {
					res[i] = fmt.Sprintf("cannot connect: %v", err)
					return
				}
				defer c.Close()
				c.Write(hlref.Preamble(refs[i], 0))
				c.SetReadDeadline(time.Now().Add(60 * time.Second))
				var got []byte
				buf := make([]byte, 4096)
				for !bytes.Contains(got, []byte("the well-behaved client's content")) {
					n, err := c.Read(buf)
					got = append(got, buf[:n]...)
					if err != nil {
						res[i] = fmt.Sprintf("%d bytes without the file's data, then %v", len(got), err)
						return
					}
				}
			}(i)
		}
		close(start)
		wg.Wait()
		bad := 0
		first := ""
		for _, r := range res {
			if r != "" {
				bad++
				if first == "" {
					first = r
				}
			}
		}
		if bad > 0 {
			if !alive() {
				t.Fatalf("VERIF-VIOLATION C03 the server process terminated (%s):\n%s", when, childLog())
			}
			t.Fatalf("VERIF-VIOLATION C03 %s: of %d granted downloads whose transfer connections were opened at the same instant, %d did not deliver the file within 60 s (first: %s)", when, k, bad, first)
		}
	}
	base := c03BaseSimple()
	var plans []plan
	for i := 0; i < nconn; i++ {
		var p plan
		p.src = fmt.Sprintf("127.%d.%d.%d", 10+i/60000, (i/250)%240+1, i%250+3)
		switch next(9) {
		case 7:
			// the transfer port: garbage, or a well-formed preamble for a reference number nobody was given
			p.kind, p.xfer = "xfer-garbage", true
			b := make([]byte, 1+next(64))
			for k := range b {
				b[k] = byte(next(256))
			}
			p.bytes = b
		case 8:
			p.kind, p.xfer = "xfer-unknown-ref", true
			p.bytes = hlref.Preamble([4]byte{byte(next(256)), byte(next(256)), byte(next(256)), byte(next(256))}, next(100000))
			if next(2) == 0 {
				p.bytes = p.bytes[:1+next(15)]
			}
		case 6:
			// the 1.5 flow cut short: logged in, never agreed, gone
			p.kind = "login15-never-agreed"
			p.bytes = append(hlref.Handshake(1, 2), hlref.Tran{Type: hlref.TranLogin, ID: 1, Fields: hlsim.LoginOpts{Login: "hostile", Password: "hpw", Version: hlref.BE16(190)}.Fields()}.Encode()...)
		case 0:
			p.kind, p.bytes = "handshake-only", hlref.Handshake(1, 2)
		case 1:
			p.kind = "garbage"
			b := make([]byte, 1+next(64))
			for k := range b {
				b[k] = byte(next(256))
			}
			p.bytes = b
		case 2:
			p.kind = "bad-login"
			p.bytes = append(hlref.Handshake(1, 2), hlref.Tran{Type: hlref.TranLogin, ID: 1, Fields: hlsim.LoginOpts{Login: "hostile", Password: "wrong"}.Fields()}.Encode()...)
		case 3:
			p.kind = "close-immediately"
		default:
			p.kind = "login+hostile"
			b := append(hlref.Handshake(1, 2), hlref.Tran{Type: hlref.TranLogin, ID: 1, Fields: hlsim.LoginOpts{Login: "hostile", Password: "hpw", Name: []byte("h"), Icon: 1}.Fields()}.Encode()...)
			for k := 0; k < 1+next(3); k++ {
				m := base[next(len(base))].Encode()
				switch next(5) {
				case 0:
					m = m[:next(len(m))]
				case 1:
					m[12+next(10)] = byte(next(256))
				case 2:
					if len(m) > 26 {
						m[24], m[25] = byte(next(256)), byte(next(256))
					}
				}
				b = append(b, m...)
			}
			p.bytes = b
		}
		plans = append(plans, p)
	}
	sentinel.startReader()
	download("before the storm")
	burst("before the storm", 40)
	// "all its resources released": the user list must converge to the one well-behaved client.  No wall-clock
	// allowance decides: a count that is still falling is slowness (busy machine), a count that stays above one
	// for 60 s while the server answers is a leak; 5 minutes without convergence is inconclusive.
	converge := func(after string) {
		last, lastChange, start := -1, time.Now(), time.Now()
		for {
			r, err := sentinel.request(hlref.TranGetUserNameList, 60*time.Second)
			if err != nil {
				if !alive() {
					t.Fatalf("VERIF-VIOLATION C03 the server process terminated (%s):\n%s", after, childLog())
				}
				t.Fatalf("VERIF-INCONCLUSIVE %s: the well-behaved client got no user list within 60 s: %v", after, err)
			}
			n := len(r.GetAll(hlref.FUsernameWithInfo))
			if n == 1 {
				return
			}
			if n != last {
				last, lastChange = n, time.Now()
			}
			if time.Since(lastChange) > 60*time.Second {
				t.Fatalf("VERIF-VIOLATION C03 %s and closed, the user list stays at %d entries for 60 s instead of the one well-behaved client", after, n)
			}
			if time.Since(start) > 5*time.Minute {
				t.Fatalf("VERIF-INCONCLUSIVE %s: the user list did not converge within 5 minutes (still %d entries, still changing)", after, n)
			}
			time.Sleep(300 * time.Millisecond)
		}
	}
	var connected, refused atomic.Int64
	kinds := map[string]int{}
	// the storm comes in batches of 500 connections, 100 at a time; after each batch the harness waits until the server
	// has caught up (closed loop: on a busy machine the batches are simply further apart)
	const batch = 500
	for lo := 0; lo < len(plans); lo += batch {
		hi := min(lo+batch, len(plans))
		var wg sync.WaitGroup
		sem := make(chan struct{}, 100)
		for _, p := range plans[lo:hi] {
			kinds[p.kind]++
			wg.Add(1)
			sem <- struct{}{}
			go func(p plan) {
				defer wg.Done()
				defer func() { <-sem }()
				dst := port
				if p.xfer {
					dst = port + 1
				}
				c, err := dialFrom(p.src, dst, 3*time.Second)
				if err != nil {
					refused.Add(1)
					return
				}
				connected.Add(1)
				if len(p.bytes) > 0 {
					c.Write(p.bytes)
					c.SetReadDeadline(time.Now().Add(150 * time.Millisecond))
					buf := make([]byte, 4096)
					c.Read(buf)
				}
				c.Close()
			}(p)
		}
		// while the batch is in flight the well-behaved client keeps downloading: its transfer connections reach the
		// listener among the hostile ones
		dlErr := make(chan string, 1)
		go func() {
			for k := 0; k < 3; k++ {
				if e := tryDownload(fmt.Sprintf("while hostile connections %d-%d are being made", lo, hi)); e != "" {
					dlErr <- e
					return
				}
			}
			dlErr <- ""
		}()
		wg.Wait()
		if e := <-dlErr; e != "" {
			t.Fatalf("%s", e)
		}
		if !alive() && strings.Contains(childLog(), "address already in use") {
			t.Fatalf("VERIF-INCONCLUSIVE the child could not bind its ports (taken by another process)")
		}
		if !alive() {
			t.Fatalf("VERIF-VIOLATION C03 the server process terminated while connections %d-%d from distinct addresses were being served (%d connected):\n%s", lo, hi, connected.Load(), childLog())
		}
		converge(fmt.Sprintf("after hostile connections %d-%d were made", lo, hi))
	}
	download("after the storm")
	burst("after the storm", 40)
	if r, err := sentinel.request(hlref.TranKeepAlive, 60*time.Second); err != nil || r.Err != 0 {
		if !alive() {
			t.Fatalf("VERIF-VIOLATION C03 the server process terminated:\n%s", childLog())
		}
		t.Fatalf("VERIF-INCONCLUSIVE the sentinel got no keep-alive reply within 60 s after the storm (%v); server still running", err)
	}
	if !alive() {
		t.Fatalf("VERIF-VIOLATION C03 the server process terminated:\n%s", childLog())
	}
	// race detector variant: only unsynchronised map access (which the runtime turns into a fatal error) counts
	b, _ := os.ReadFile(logPath)
	if bytes.Contains(b, []byte("fatal error:")) {
		t.Fatalf("VERIF-VIOLATION C03 the server reported a fatal error:\n%s", childLog())
	}
	races := raceReport.FindAll(b, -1)
	mapRaces := 0
	for _, rr := range races {
		if bytes.Contains(rr, []byte("runtime.map")) || bytes.Contains(rr, []byte("internal/runtime/maps.")) {
			mapRaces++
			if mapRaces == 1 {
				t.Errorf("VERIF-VIOLATION C03 unsynchronised map access in the server (the runtime aborts the process on it):\n%s", rr)
			}
		}
	}
	ev.SetExtra("race_reports_total", len(races))
	ev.SetExtra("race_reports_on_maps", mapRaces)
	for k, v := range kinds {
		ev.Label("net:"+k, v)
	}
	for i, p := range plans {
		ev.Case(evid.Hash("net", p.src, p.kind, p.bytes), len(p.bytes) > 12, "net-connection")
		if i < 3 {
			ev.Sample(map[string]any{"engine": "child process over loopback", "source_address": p.src, "kind": p.kind, "bytes": hexs(p.bytes)})
		}
	}
	ev.SetExtra("net_connections_accepted", int(connected.Load()))
	ev.SetExtra("net_connections_refused", int(refused.Load()))
	if strings.Contains(string(b), "WARNING: DATA RACE") && mapRaces == 0 {
		t.Logf("%d data race reports not involving maps (recorded in the evidence, not a C03 violation)", len(races))
	}
}

// c03BaseSimple: a few well-formed requests for the loopback storm.
func c03BaseSimple() []hlref.Tran {
	return c03Base(1, []byte{1, 2, 3, 4})
}
