package props

// Checks that drive the repository's own main program (cmd/mobius-hotline-server, built from the
// current tree into $VERIF_BIN/mobius-main) as a child process, started the way its README starts
// it.  What the start-up code, the signal handler and the command line do is only visible here;
// the other engines build the server from its parts.
//
//	TestC17Main: a ban made through the protocol is enforced before and after a restart of the
//	             real program, with a configuration directory of the operator's choice.
//	TestC19Main: the operator edits the agreement / the board and sends SIGHUP; what clients are
//	             shown afterwards is the edited text - also when another file of the configuration
//	             cannot be reloaded at that moment.

import (
	"bytes"
	"fmt"
	"net"
	"os"
	"os/exec"
	"path/filepath"
	"strings"
	"syscall"
	"testing"
	"time"

	"github.com/jhalter/mobius/verifhooks"
	"pgregory.net/rapid"

	"verif/harness/evid"
	"verif/harness/hlref"
)

type mainSrv struct {
	rt     *rapid.T
	bin    string
	base   string // scratch directory; the server runs with it as working directory
	cfg    string
	port   int
	cmd    *exec.Cmd
	exited chan error
	netA   int
	netB   int
	src    int
}

func newMainSrv(rt *rapid.T, t *testing.T, portOffset, caseNo int) *mainSrv {
	bin := filepath.Join(os.Getenv("VERIF_BIN"), "mobius-main")
	if _, err := os.Stat(bin); err != nil {
		rt.Fatalf("VERIF-INCONCLUSIVE %s not built", bin)
	}
	shard, _ := shardInfo()
	base, err := os.MkdirTemp(worldBase(), "main-")
	if err != nil {
		rt.Fatal(err)
	}
	return &mainSrv{rt: rt, bin: bin, base: base, cfg: filepath.Join(base, "my hotline config"), port: freePortPair() + portOffset + shard*2, netA: 30 + portOffset + shard, netB: caseNo % 250, src: 1}
}

// nextSrc: every connection to the main port comes from another loopback address (the door admits one connection per
// address every two seconds)
func (m *mainSrv) nextSrc() string {
	m.src++
	return fmt.Sprintf("127.%d.%d.%d", m.netA, m.netB, m.src)
}

func (m *mainSrv) log() string {
	b, _ := os.ReadFile(filepath.Join(m.base, "server.out"))
	if len(b) > 4000 {
		b = b[len(b)-4000:]
	}
	return string(b)
}

func (m *mainSrv) start(withInit bool) {
	for attempt := 0; ; attempt++ {
		if m.startOnce(withInit, attempt < 5) {
			return
		}
		// the port pair was taken by somebody else between the probe and the start: another pair
		m.port = freePortPair() + 40 + attempt*2
	}
}

// startOnce reports false when the server could not bind its ports (and retry is set): everything else that goes wrong
// is reported.
func (m *mainSrv) startOnce(withInit, retry bool) bool {
	before := len(m.log())
	args := []string{"-config", m.cfg, "-bind", fmt.Sprint(m.port), "-interface", "127.0.0.1", "-log-level", "error"}
	if withInit {
		args = append([]string{"-init"}, args...)
	}
	logf, _ := os.OpenFile(filepath.Join(m.base, "server.out"), os.O_CREATE|os.O_APPEND|os.O_WRONLY, 0o644)
	m.cmd = exec.Command(m.bin, args...)
	m.cmd.Stdout, m.cmd.Stderr = logf, logf
	m.cmd.Dir = m.base
	if err := m.cmd.Start(); err != nil {
		m.rt.Fatalf("VERIF-INCONCLUSIVE cannot start the server: %v", err)
	}
	logf.Close()
	m.exited = make(chan error, 1)
	go func(c *exec.Cmd, ch chan error) { ch <- c.Wait() }(m.cmd, m.exited)
	for i := 0; i < 2400; i++ { // up to a minute: the machine may be busy
		if c, err := net.DialTimeout("tcp", fmt.Sprintf("127.0.0.1:%d", m.port+1), 200*time.Millisecond); err == nil {
			c.Close()
			time.Sleep(100 * time.Millisecond)
			if m.alive() {
				return true
			}
		}
		select {
		case err := <-m.exited:
			m.exited <- err
			if l := m.log(); retry && len(l) >= before && strings.Contains(l[min(before, len(l)):], "address already in use") {
				m.cmd = nil
				return false
			}
			m.rt.Fatalf("the server (started with -init=%v) ended instead of serving: %v\n%s", withInit, err, m.log())
		default:
		}
		time.Sleep(25 * time.Millisecond)
	}
	m.rt.Fatalf("VERIF-INCONCLUSIVE the server did not start listening: %s", m.log())
	return false
}

func (m *mainSrv) alive() bool {
	select {
	case err := <-m.exited:
		m.exited <- err
		return false
	default:
		return true
	}
}

func (m *mainSrv) kill() {
	if m.cmd != nil {
		m.cmd.Process.Kill()
		<-m.exited
		m.cmd = nil
	}
}

func (m *mainSrv) cleanup() {
	m.kill()
	os.RemoveAll(m.base)
}

// refusedAtTheDoor: a connection from src is sent a ban notice (or nothing) and is closed without a login reply.
func (m *mainSrv) loginFrom(src, login, pw string) (*tcpClient, error) {
	return tcpLogin(src, m.port, login, pw, "visitor")
}

func TestC17Main(t *testing.T) {
	ev := evid.New("C17", "TestC17Main")
	defer ev.Flush()
	caseNo := 0
	rapid.Check(t, func(rt *rapid.T) {
		caseNo++
		opt := rapid.IntRange(1, 2).Draw(rt, "banOption")
		initEvery := rapid.Bool().Draw(rt, "initOnEveryStart")
		hardKill := rapid.Bool().Draw(rt, "killInsteadOfTerminate")
		m := newMainSrv(rt, t, 16, caseNo)
		defer m.cleanup()
		m.start(true)
		admin, err := m.loginFrom(m.nextSrc(), "admin", "admin")
		if err != nil {
			rt.Fatalf("VERIF-INCONCLUSIVE the administrator of the default configuration cannot log in: %v\n%s", err, m.log())
		}
		admin.startReader()
		victimSrc, otherSrc := m.nextSrc(), m.nextSrc()
		victim, err := m.loginFrom(victimSrc, "guest", "")
		if err != nil {
			rt.Fatalf("VERIF-INCONCLUSIVE guest cannot log in: %v\n%s", err, m.log())
		}
		other, err := m.loginFrom(otherSrc, "guest", "")
		if err != nil {
			rt.Fatalf("VERIF-INCONCLUSIVE second guest cannot log in: %v\n%s", err, m.log())
		}
		_ = other
		// the victim is the user with the second id (admin 1, victim 2, other 3)
		r, err := admin.request(hlref.TranDisconnectUser, 20*time.Second, fld(hlref.FUserID, hlref.BE16(2)), fld(hlref.FOptions, hlref.BE16(opt)))
		if err != nil || r.Err != 0 {
			rt.Fatalf("VERIF-INCONCLUSIVE disconnect request not acknowledged: %v %s", err, replySummary(r))
		}
		time.Sleep(1200 * time.Millisecond)
		victim.c.Close()
		ctx := fmt.Sprintf("guest at %s was disconnected with ban option %d (configuration directory %q)", victimSrc, opt, m.cfg)
		check := func(when string) {
			time.Sleep(2100 * time.Millisecond) // the same address again: wait out the door's own two-second limit so that only the ban can refuse it
			if c, err := m.loginFrom(victimSrc, "guest", ""); err == nil {
				c.c.Close()
				rt.Fatalf("%s; %s the address can log in again", ctx, when)
			}
			c, err := m.loginFrom(m.nextSrc(), "guest", "")
			if err != nil {
				rt.Fatalf("%s; %s another address cannot log in: %v", ctx, when, err)
			}
			c.c.Close()
		}
		check("before the restart")
		bf, err := verifhooks.NewBanFile(filepath.Join(m.cfg, "Banlist.yaml"))
		if err != nil {
			rt.Fatalf("%s; the ban file of the configuration directory does not load: %v", ctx, err)
		}
		if is, _ := bf.IsBanned(victimSrc); !is {
			rt.Fatalf("%s; the ban is acknowledged and enforced, but %s does not list the address (a restart forgets the ban)", ctx, filepath.Join(m.cfg, "Banlist.yaml"))
		}
		if hardKill {
			m.kill()
		} else {
			m.cmd.Process.Signal(syscall.SIGTERM)
			select {
			case <-m.exited:
			case <-time.After(10 * time.Second):
				m.cmd.Process.Kill()
				<-m.exited
			}
			m.cmd = nil
		}
		admin.c.Close()
		m.start(initEvery)
		check("after the restart")
		ev.Case(evid.Hash("c17main", opt, initEvery, hardKill), true, fmt.Sprintf("ban-option:%d", opt), fmt.Sprintf("init-on-restart:%v", initEvery))
		if ev.WantSample() {
			ev.Sample(map[string]any{"engine": "production main program as a child process", "ban_option": opt, "restart_with_init": initEvery, "killed": hardKill})
		}
	})
}

func TestC19Main(t *testing.T) {
	ev := evid.New("C19", "TestC19Main")
	defer ev.Flush()
	caseNo := 0
	rapid.Check(t, func(rt *rapid.T) {
		caseNo++
		nEdits := rapid.IntRange(1, 3).Draw(rt, "edits")
		m := newMainSrv(rt, t, 20, caseNo)
		defer m.cleanup()
		m.start(true)
		// what a guest is shown at login (the guest account of the default configuration has to agree)
		shown := func() []byte {
			c, err := m.loginFrom(m.nextSrc(), "guest", "")
			if err != nil {
				rt.Fatalf("VERIF-INCONCLUSIVE guest cannot log in: %v\n%s", err, m.log())
			}
			defer c.c.Close()
			for i := 0; i < 6; i++ {
				tr, err := c.readTran(30 * time.Second)
				if err != nil {
					rt.Fatalf("a guest that logged in was not shown the agreement: %v", err)
				}
				if tr.Type == hlref.TranShowAgreement {
					d, _ := tr.Get(hlref.FData)
					return d
				}
			}
			rt.Fatalf("a guest that logged in was not shown the agreement")
			return nil
		}
		board := func() []byte {
			c, err := m.loginFrom(m.nextSrc(), "admin", "admin")
			if err != nil {
				rt.Fatalf("VERIF-INCONCLUSIVE admin cannot log in: %v\n%s", err, m.log())
			}
			defer c.c.Close()
			r, err := c.request(hlref.TranGetMsgs, 20*time.Second)
			if err != nil || r.Err != 0 {
				rt.Fatalf("the board is not served: %v %s", err, replySummary(r))
			}
			d, _ := r.Get(hlref.FData)
			return d
		}
		var done []string
		for e := 0; e < nEdits; e++ {
			what := rapid.SampledFrom([]string{"agreement", "agreement", "board"}).Draw(rt, fmt.Sprintf("what%d", e))
			broken := rapid.SampledFrom([]string{"banlist", "news", "", ""}).Draw(rt, fmt.Sprintf("unloadable%d", e))
			size := rapid.SampledFrom([]int{20, 600, 33000}).Draw(rt, fmt.Sprintf("size%d", e))
			text := bytes.Repeat([]byte(fmt.Sprintf("edition %d of the %s\r", e+1, what)), size/20+1)[:size]
			file := map[string]string{"agreement": "Agreement.txt", "board": "MessageBoard.txt"}[what]
			must(os.WriteFile(filepath.Join(m.cfg, file), text, 0o644))
			// another file of the configuration may be in a state that cannot be loaded at that moment (the operator is in the
			// middle of editing it): that is a matter of that file
			var restore func()
			switch broken {
			case "banlist":
				p := filepath.Join(m.cfg, "Banlist.yaml")
				old, oerr := os.ReadFile(p)
				must(os.WriteFile(p, []byte("1.2.3.4: not a date\n"), 0o644))
				restore = func() {
					if oerr != nil {
						os.Remove(p)
					} else {
						os.WriteFile(p, old, 0o644)
					}
				}
			case "news":
				p := filepath.Join(m.cfg, "ThreadedNews.yaml")
				old, _ := os.ReadFile(p)
				must(os.WriteFile(p, []byte("Categories: [this is not a mapping\n"), 0o644))
				restore = func() { os.WriteFile(p, old, 0o644) }
			}
			m.cmd.Process.Signal(syscall.SIGHUP)
			time.Sleep(400 * time.Millisecond)
			if restore != nil {
				restore()
			}
			done = append(done, fmt.Sprintf("%s rewritten (%d bytes), SIGHUP%s", file, size, map[string]string{"": "", "banlist": " while Banlist.yaml cannot be parsed", "news": " while ThreadedNews.yaml cannot be parsed"}[broken]))
			if !m.alive() {
				rt.Fatalf("after [%s] the server is gone:\n%s", strings.Join(done, "; "), m.log())
			}
			// the signal is handled asynchronously: the new text must be served within 20 seconds of it (checked every half
			// second; each look is a new client)
			var got []byte
			for wait := 0; wait < 40; wait++ {
				if what == "agreement" {
					got = shown()
				} else {
					got = board()
				}
				if bytes.Equal(got, text) {
					break
				}
				time.Sleep(500 * time.Millisecond)
			}
			if !bytes.Equal(got, text) {
				rt.Fatalf("after [%s] a client is shown %d bytes that are not the current text of %s (%d bytes; first difference at %d; shown text starts %q)", strings.Join(done, "; "), len(got), file, len(text), firstDiff(got[:min(len(got), len(text))], text[:min(len(got), len(text))]), string(got[:min(len(got), 40)]))
			}
		}
		ev.Case(evid.Hash("c19main", strings.Join(done, "|")), true, fmt.Sprintf("edits:%d", nEdits))
		if ev.WantSample() {
			ev.Sample(map[string]any{"engine": "production main program as a child process", "history": done})
		}
	})
}
