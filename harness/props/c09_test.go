package props

// C09 — uploads are exact, published atomically, and resumable after any cut.

import (
	"bytes"
	"fmt"
	"os"
	"path/filepath"
	"testing"
	"time"

	"pgregory.net/rapid"

	"verif/harness/evid"
	"verif/harness/hlref"
	"verif/harness/hlsim"
)

func readOrNil(p string) ([]byte, bool) {
	b, err := os.ReadFile(p)
	if err != nil {
		return nil, false
	}
	return b, true
}

func c09prop(ev *evid.Rec) func(rt *rapid.T) {
	return func(rt *rapid.T) {
		name := genFileName(rt, "name")
		size := genFileSize(rt, "size")
		content := genBytes(rt, "content", size)
		forks := rapid.SampledFrom([]int{2, 2, 3}).Draw(rt, "forks")
		var rsrc []byte
		if forks == 3 {
			rsrc = genBytes(rt, "rsrc", rapid.IntRange(0, 3000).Draw(rt, "rsrclen"))
		}
		preserve := rapid.Bool().Draw(rt, "preserve")
		target := rapid.SampledFrom([]string{"root", "Uploads"}).Draw(rt, "target")
		preexisting := rapid.IntRange(0, 7).Draw(rt, "preexisting") == 0
		ncuts := rapid.IntRange(0, 4).Draw(rt, "ncuts")
		own := rapid.IntRange(0, 3).Draw(rt, "ownroot") == 0
		optWide := rapid.Bool().Draw(rt, "resumeOptionWide")
		peek := rapid.IntRange(0, 4).Draw(rt, "peekAtPendingTransfer") == 0
		previousLife := !preexisting && len(name) <= 240 && rapid.IntRange(0, 3).Draw(rt, "previousLife") == 0
		// how the client's bytes on the transfer connection are cut into segments ("" = one Write per message)
		seg := rapid.SampledFrom([]string{"", "", "random", "header", "bytes"}).Draw(rt, "segmentation")
		segSeed := rapid.Uint64().Draw(rt, "segseed")
		// a slow writer: (fake) seconds pass between the segments of the client's stream; the upload is the same upload
		gap := time.Duration(0)
		if seg == "random" || seg == "header" {
			gap = rapid.SampledFrom([]time.Duration{0, 0, 2 * time.Second, 11 * time.Second, 45 * time.Second}).Draw(rt, "secondsBetweenSegments")
		}
		wireName := macRoman(name)
		comment := []byte(rapid.SampledFrom([]string{"up", "up", ""}).Draw(rt, "comment"))
		// some clients end the information fork right after the name when there is no comment
		hlref.ShortInfoFork = rapid.Bool().Draw(rt, "shortInfoFork")
		defer func() { hlref.ShortInfoFork = false }()
		hdrLen := hlsim.UploadHeaderLen(wireName, comment)
		var cutLog []string
		ntCase := false
		inWorld(rt, hlsim.Options{Agreement: "a", PreserveResourceForks: preserve, Accounts: []hlsim.AccountSpec{acct("admin", "Admin", "adminpw", allAccess)}}, func(rt *rapid.T, w *hlsim.World) {
			if seg != "" {
				w.XferSegGap = gap
				w.NewSplit = func(kind string) hlsim.Splitter {
					if kind == "xfer" {
						return &c02split{mode: seg, seed: segSeed}
					}
					return nil
				}
			}
			dir := w.FileRoot
			if own {
				dir = ownRoot(rt, w, acct("admin", "Admin", "adminpw", allAccess))
			}
			rootDir := dir
			var path []byte
			if target == "Uploads" {
				dir = filepath.Join(dir, "Uploads")
				must(os.MkdirAll(dir, 0o755))
				path = p1("Uploads")
			}
			final := filepath.Join(dir, name)
			partial := final + ".incomplete"
			c := loginAs(rt, w, "10.0.0.1:1", "admin", "adminpw", "admin")
			if previousLife {
				// the name has a history: a file with a resource fork and a comment lived under it and was deleted through
				// the protocol; nothing of it may come back with the new upload
				must(os.WriteFile(final, []byte("the earlier file"), 0o644))
				must(os.WriteFile(filepath.Join(dir, ".rsrc_"+name), bytes.Repeat([]byte("OLD-RSRC "), 400), 0o644))
				must(os.WriteFile(filepath.Join(dir, ".info_"+name), hlref.InfoFork{Platform: [4]byte{'A', 'M', 'A', 'C'}, Type: [4]byte{'O', 'L', 'D', '!'}, Creator: [4]byte{'O', 'L', 'D', '!'}, Name: wireName, Comment: []byte("comment of the earlier file")}.Encode(), 0o644))
				df := []hlref.Field{fld(hlref.FFileName, wireName)}
				if path != nil {
					df = append(df, fld(hlref.FFilePath, path))
				}
				if !okReply(c.Request(hlref.TranDeleteFile, df...)) {
					rt.Fatalf("harness: deleting the earlier file failed")
				}
			}
			reqFields := func(resume bool, total int) []hlref.Field {
				fs := []hlref.Field{fld(hlref.FFileName, wireName)}
				if path != nil {
					fs = append(fs, fld(hlref.FFilePath, path))
				}
				if resume {
					// integer fields may be sent 2 or 4 bytes wide
					if optWide {
						fs = append(fs, fld(hlref.FFileTransferOptions, hlref.BE32(2)))
					} else {
						fs = append(fs, fld(hlref.FFileTransferOptions, hlref.BE16(2)))
					}
				} else {
					fs = append(fs, fld(hlref.FTransferSize, hlref.BE32(total)))
				}
				return fs
			}
			if preexisting {
				old := []byte("pre-existing content that must survive")
				must(os.WriteFile(final, old, 0o644))
				r := c.Request(hlref.TranUploadFile, reqFields(false, 100)...)
				if r == nil || r.Err == 0 {
					rt.Fatalf("upload request for an existing file %q was not refused: %s", name, replySummary(r))
				}
				if b, _ := readOrNil(final); !bytes.Equal(b, old) {
					rt.Fatalf("existing file %q changed by a refused upload", name)
				}
				if _, ok := readOrNil(partial); ok {
					rt.Fatalf("refused upload left a partial file behind")
				}
				return
			}
			var lastRef []byte
			have := 0            // bytes of content the server holds in the partial file (model)
			partialMade := false // whether the server got far enough to create the partial file
			wholeStream := false
			attempt := func(cut int, label string) (completed bool) {
				resume := partialMade
				// the stream of this attempt: header + content[offset:] (+ resource fork)
				var r *hlref.Tran
				offset := 0
				if resume {
					r = c.Request(hlref.TranUploadFile, reqFields(true, 0)...)
					if !okReply(r) {
						rt.Fatalf("%s: resume request refused although a partial file of %d bytes exists: %s (cuts so far %v)", label, have, replySummary(r), cutLog)
					}
					rd, ok := r.Get(hlref.FFileResumeData)
					if !ok {
						rt.Fatalf("%s: resume reply without resume data (cuts so far %v)", label, cutLog)
					}
					fo, err := hlref.DecodeResume(rd)
					if err != nil || len(fo) == 0 {
						rt.Fatalf("%s: unparseable resume data: %v", label, err)
					}
					offset = int(fo[0].Offset)
					if offset != have {
						rt.Fatalf("%s: server reports resume offset %d, it received %d bytes so far (cuts so far %v)", label, offset, have, cutLog)
					}
				} else {
					total := hdrLen + size
					r = c.Request(hlref.TranUploadFile, reqFields(false, total)...)
					if !okReply(r) {
						rt.Fatalf("%s: upload request refused: %s", label, replySummary(r))
					}
				}
				ref, _ := r.Get(hlref.FRefNum)
				lastRef = ref
				if peek {
					// somebody looks at the uploader's client info, which lists the granted transfer, before it starts
					if ir := c.Request(hlref.TranGetClientInfoText, fld(hlref.FUserID, hlref.BE16(1))); !okReply(ir) {
						rt.Fatalf("%s: client info of the uploader (pending transfer) refused: %s", label, replySummary(ir))
					}
				}
				stream := hlsim.UploadStream(wireName, comment, content[offset:], rsrc, forks)
				full := 16 + len(stream)
				if cut >= full {
					cut = -1
				}
				if cut >= 0 {
					cutLog = append(cutLog, fmt.Sprintf("%s@%d/%d", label, cut, full))
				}
				w.Transfer("10.0.0.1:2", ref, len(stream), stream, cut)
				if cut < 0 {
					wholeStream = true // this attempt delivered its whole stream, resource fork included
					return true
				}
				if cut >= 16 {
					partialMade = true
				}
				got := cut - 16 - hdrLen
				if got < 0 {
					got = 0
				}
				if got > size-offset {
					got = size - offset
				}
				have = offset + got
				// ---- state after the cut
				if _, ok := readOrNil(final); ok {
					dataDone := have == size
					if !dataDone {
						rt.Fatalf("%s: file %q exists under its final name after a cut with only %d of %d data bytes received (cuts %v)", label, name, have, size, cutLog)
					}
				}
				pb, pok := readOrNil(partial)
				_, fok := readOrNil(final)
				if fok {
					return true // data fork was complete and the server published the file; nothing left to resume
				}
				if partialMade != pok {
					rt.Fatalf("%s: partial file exists=%v, expected %v (cuts %v)", label, pok, partialMade, cutLog)
				}
				if pok && !bytes.Equal(pb, content[:have]) {
					rt.Fatalf("%s: partial file holds %d bytes, expected exactly the %d-byte prefix received (first difference at %d; cuts %v)", label, len(pb), have, firstDiff(pb, content[:have]), cutLog)
				}
				if have > 0 {
					ntCase = true
				}
				// the name is not published yet: whatever the server answers to a download request for it, it must not hand out
				// a complete-looking file (a flattened file whose whole announced data fork arrives) made of the partial data
				if pok && have > 0 && have < size && rapid.IntRange(0, 3).Draw(rt, label+"_downloadWhilePartial") == 0 {
					df := []hlref.Field{fld(hlref.FFileName, wireName)}
					if path != nil {
						df = append(df, fld(hlref.FFilePath, path))
					}
					if dr := c.Request(hlref.TranDownloadFile, df...); okReply(dr) {
						if dref, ok := dr.Get(hlref.FRefNum); ok {
							rx, _ := w.Transfer("10.0.0.1:3", dref, 0, nil, -1)
							if p, err := hlref.ParseFlatHeader(rx); err == nil && len(rx) >= p.HeaderLen+p.DataSize {
								rt.Fatalf("%s: a download of %q while only %d of %d data bytes are uploaded delivered a complete flattened file with a %d-byte data fork (cuts %v)", label, name, have, size, p.DataSize, cutLog)
							}
						}
					}
					if pb2, ok := readOrNil(partial); !ok || !bytes.Equal(pb2, pb) {
						rt.Fatalf("%s: the partial file changed by a download request for the unfinished name", label)
					}
				}
				// ... and whatever the server does with a request to move the unfinished entry to another folder (leave it where it
				// is, or take the partial data along), the name is not published by it and the partial data stays resumable
				if pok && have > 0 && have < size && rapid.IntRange(0, 3).Draw(rt, label+"_moveWhilePartial") == 0 {
					must(os.MkdirAll(filepath.Join(rootDir, "moved to"), 0o755))
					mf := []hlref.Field{fld(hlref.FFileName, wireName), fld(hlref.FFileNewPath, p1("moved to"))}
					if path != nil {
						mf = append(mf, fld(hlref.FFilePath, path))
					}
					c.Request(hlref.TranMoveFile, mf...)
					dstFinal := filepath.Join(rootDir, "moved to", name)
					for _, f := range []string{final, dstFinal} {
						if b, ok := readOrNil(f); ok {
							rt.Fatalf("%s: after a move request for the unfinished upload %q (%d of %d bytes received) the file exists under its final name at %s with %d bytes (cuts %v)", label, name, have, size, f, len(b), cutLog)
						}
					}
					src, sok := readOrNil(partial)
					dst, dok := readOrNil(dstFinal + ".incomplete")
					switch {
					case sok && !dok && bytes.Equal(src, pb):
					case dok && !sok && bytes.Equal(dst, pb):
						// the partial data travelled: the upload goes on in the new folder
						dir, final, partial, path = filepath.Join(rootDir, "moved to"), dstFinal, dstFinal+".incomplete", p1("moved to")
					default:
						rt.Fatalf("%s: after a move request for the unfinished upload %q the partial data (%d bytes) is at the old place: %v (%d bytes), at the new place: %v (%d bytes)", label, name, len(pb), sok, len(src), dok, len(dst))
					}
				}
				return false
			}
			completed := false
			for i := 0; i < ncuts && !completed; i++ {
				// draw the cut relative to the stream this attempt will send
				remaining := size - have
				streamLen := 16 + hdrLen + remaining
				if forks == 3 {
					streamLen += 16 + len(rsrc)
				}
				var cut int
				switch rapid.IntRange(0, 7).Draw(rt, fmt.Sprintf("cutkind%d", i)) {
				case 0:
					cut = rapid.IntRange(0, 15).Draw(rt, fmt.Sprintf("cut%d", i))
				case 1:
					cut = 16 + rapid.IntRange(0, hdrLen-1).Draw(rt, fmt.Sprintf("cut%d", i))
				case 2:
					cut = 16 + hdrLen + rapid.IntRange(0, min(2, remaining)).Draw(rt, fmt.Sprintf("cut%d", i))
				case 3:
					k := rapid.IntRange(1, 8).Draw(rt, fmt.Sprintf("cut%d", i))
					cut = 16 + hdrLen + k*32768 + rapid.IntRange(-1, 1).Draw(rt, fmt.Sprintf("cutd%d", i))
				case 4:
					cut = streamLen - 1
				case 5:
					cut = 16 + hdrLen + remaining + rapid.IntRange(0, 20).Draw(rt, fmt.Sprintf("cut%d", i))
				default:
					cut = rapid.IntRange(0, streamLen-1).Draw(rt, fmt.Sprintf("cut%d", i))
				}
				if cut >= streamLen {
					cut = streamLen - 1
				}
				if cut < 0 {
					cut = 0
				}
				completed = attempt(cut, fmt.Sprintf("attempt%d", i+1))
			}
			if !completed {
				attempt(-1, "final")
			}
			// ---- after completion
			fb, ok := readOrNil(final)
			if !ok {
				rt.Fatalf("file %q does not exist after a completed upload (cuts %v)", name, cutLog)
			}
			if !bytes.Equal(fb, content) {
				rt.Fatalf("uploaded file %q holds %d bytes, client sent %d; first difference at %d (cuts %v)", name, len(fb), size, firstDiff(fb, content), cutLog)
			}
			if _, ok := readOrNil(partial); ok {
				rt.Fatalf("partial file still present after completion (cuts %v)", cutLog)
			}
			// a further upload of the same name is refused and leaves the file alone
			r := c.Request(hlref.TranUploadFile, reqFields(false, 10)...)
			if r == nil || r.Err == 0 {
				rt.Fatalf("second upload of %q was not refused", name)
			}
			if fb2, _ := readOrNil(final); !bytes.Equal(fb2, content) {
				rt.Fatalf("second upload request changed the file")
			}
			// a transfer attempt on the stale reference of the finished upload leaves the file untouched
			other := hlsim.UploadStream(wireName, comment, []byte("stale-reference-overwrite-attempt"), nil, 2)
			w.Transfer("10.0.0.1:4", lastRef, len(other), other, -1)
			if fb3, _ := readOrNil(final); !bytes.Equal(fb3, content) {
				rt.Fatalf("a transfer on the stale reference of a finished upload changed the file")
			}
			if _, ok := readOrNil(partial); ok {
				rt.Fatalf("a transfer on a stale reference created a partial file next to the finished one")
			}
			// what was uploaded is what a download returns
			d := c.Request(hlref.TranDownloadFile, append([]hlref.Field{fld(hlref.FFileName, wireName)}, pathField(path)...)...)
			if !okReply(d) {
				rt.Fatalf("uploaded file cannot be downloaded: %s", replySummary(d))
			}
			ref, _ := d.Get(hlref.FRefNum)
			rx, _ := w.Transfer("10.0.0.1:3", ref, 0, nil, -1)
			p, err := hlref.ParseFlatHeader(rx)
			if err != nil {
				rt.Fatalf("download of the uploaded file: %v", err)
			}
			if len(rx) < p.HeaderLen+size || !bytes.Equal(rx[p.HeaderLen:p.HeaderLen+size], content) {
				rt.Fatalf("download of the uploaded file returns different bytes (cuts %v)", cutLog)
			}
			if forks == 2 {
				if tail := rx[p.HeaderLen+size:]; len(tail) != 0 && !bytes.Equal(tail, hlref.ForkHeader("MACR", 0)) {
					rt.Fatalf("download of the uploaded file: it was uploaded without a resource fork, but %d bytes follow the data fork (earlier file under this name deleted before: %v; cuts %v)", len(tail), previousLife, cutLog)
				}
				if string(p.Info.Comment) == "comment of the earlier file" || p.Info.Type == [4]byte{'O', 'L', 'D', '!'} {
					rt.Fatalf("download of the uploaded file carries the information fork of the earlier, deleted file (type %q comment %q)", p.Info.Type[:], p.Info.Comment)
				}
			}
			if preserve && !previousLife && !(hlref.ShortInfoFork && len(comment) == 0) {
				// the server keeps information forks: what the client sent as the file's type, creator, dates and comment is
				// what a download says
				if p.Info.Type != [4]byte{'T', 'E', 'X', 'T'} || p.Info.Creator != [4]byte{'t', 't', 'x', 't'} || p.Info.Create != hlsim.UploadCreateDate || p.Info.Modify != hlsim.UploadModifyDate || !bytes.Equal(p.Info.Comment, comment) {
					rt.Fatalf("download of the uploaded file (the server keeps information forks): type %q creator %q created %x modified %x comment %q; uploaded: TEXT ttxt %x %x %q (cuts %v)", p.Info.Type[:], p.Info.Creator[:], p.Info.Create, p.Info.Modify, p.Info.Comment, hlsim.UploadCreateDate, hlsim.UploadModifyDate, comment, cutLog)
				}
			}
			if preserve && forks == 3 && wholeStream {
				// the completing attempt carried the whole resource fork: that, and nothing else, is the file's resource fork now
				want := append(hlref.ForkHeader("MACR", len(rsrc)), rsrc...)
				if tail := rx[p.HeaderLen+size:]; !bytes.Equal(tail, want) {
					sb, _ := readOrNil(filepath.Join(dir, ".rsrc_"+name))
					rt.Fatalf("download of the uploaded file: %d bytes follow the data fork, the uploaded resource fork has %d bytes (+16 header); stored resource fork file: %d bytes (cuts %v)", len(tail), len(rsrc), len(sb), cutLog)
				}
			}
		})
		ev.Case(evid.Hash(name, content, forks, fmt.Sprint(cutLog), preserve, target, preexisting, seg, segSeed, own), ntCase, "segmentation:"+seg, fmt.Sprintf("own-root:%v", own), fmt.Sprintf("cuts:%d", len(cutLog)), fmt.Sprintf("forks:%d", forks), sizeClass(size), fmt.Sprintf("preexisting:%v", preexisting))
		if ntCase && ev.WantSample() {
			ev.Sample(map[string]any{"name": name, "size": size, "forks": forks, "preserve_forks": preserve, "target": target, "cuts(attempt@offset/stream)": cutLog})
		}
	}
}

func pathField(p []byte) []hlref.Field {
	if p == nil {
		return nil
	}
	return []hlref.Field{fld(hlref.FFilePath, p)}
}

func TestC09(t *testing.T) {
	ev := evid.New("C09", "TestC09")
	defer ev.Flush()
	rapid.Check(t, c09prop(ev))
}

// TestC09DoubleGrant: "an upload never overwrites an existing file" when the file came into
// existence after the upload was granted: two uploads of one name are granted while the name
// is free, the first transfer completes, then the second one runs.
func TestC09DoubleGrant(t *testing.T) {
	ev := evid.New("C09", "TestC09DoubleGrant")
	defer ev.Flush()
	rapid.Check(t, func(rt *rapid.T) {
		name := genFileName(rt, "name")
		a := genBytes(rt, "first", genFileSize(rt, "sizeA"))
		b := genBytes(rt, "second", genFileSize(rt, "sizeB"))
		preserve := rapid.Bool().Draw(rt, "preserve")
		secondVia := rapid.SampledFrom([]string{"second-grant", "second-grant", "resume-grant"}).Draw(rt, "secondVia")
		cutFirst := rapid.Bool().Draw(rt, "cutFirstOnce")
		wireName := macRoman(name)
		inWorld(rt, hlsim.Options{Agreement: "a", PreserveResourceForks: preserve, Accounts: []hlsim.AccountSpec{acct("admin", "Admin", "adminpw", allAccess)}}, func(rt *rapid.T, w *hlsim.World) {
			final := filepath.Join(w.FileRoot, name)
			c := loginAs(rt, w, "10.0.0.1:1", "admin", "adminpw", "admin")
			grant := func(resume bool, total int) []byte {
				fs := []hlref.Field{fld(hlref.FFileName, wireName)}
				if resume {
					fs = append(fs, fld(hlref.FFileTransferOptions, hlref.BE16(2)))
				} else {
					fs = append(fs, fld(hlref.FTransferSize, hlref.BE32(total)))
				}
				r := c.Request(hlref.TranUploadFile, fs...)
				if !okReply(r) {
					return nil
				}
				ref, _ := r.Get(hlref.FRefNum)
				return ref
			}
			sa := hlsim.UploadStream(wireName, []byte("a"), a, nil, 2)
			sb := hlsim.UploadStream(wireName, []byte("b"), b, nil, 2)
			refA := grant(false, len(sa))
			if refA == nil {
				rt.Fatalf("harness: first upload not granted")
			}
			var refB []byte
			if secondVia == "second-grant" {
				refB = grant(false, len(sb))
			} else {
				// a partial file must exist for a resume grant: cut the first transfer once, then both a resume for A and one for B are granted
				cutFirst = true
			}
			if cutFirst {
				cut := 16 + hlsim.UploadHeaderLen(wireName, []byte("a")) + len(a)/2
				w.Transfer("10.0.0.1:2", refA, len(sa), sa, cut)
				if _, err := os.Stat(final); err == nil && len(a) > 0 {
					rt.Fatalf("file published after a cut")
				}
				st, err := os.Stat(final + ".incomplete")
				if err != nil {
					return // the cut came before the partial file existed: nothing to resume, scenario does not apply
				}
				refA = grant(true, 0)
				if refA == nil {
					rt.Fatalf("resume not granted although a partial file exists")
				}
				if secondVia == "resume-grant" {
					refB = grant(true, 0)
				}
				sa = hlsim.UploadStream(wireName, []byte("a"), a[st.Size():], nil, 2)
				sb = hlsim.UploadStream(wireName, []byte("b"), b, nil, 2)
			}
			w.Transfer("10.0.0.1:3", refA, len(sa), sa, -1)
			got, err := os.ReadFile(final)
			if err != nil || !bytes.Equal(got, a) {
				rt.Fatalf("first upload of %q: %d bytes sent, file has %d bytes (err %v)", name, len(a), len(got), err)
			}
			if refB != nil {
				w.Transfer("10.0.0.1:4", refB, len(sb), sb, -1)
			}
			got, err = os.ReadFile(final)
			if err != nil || !bytes.Equal(got, a) {
				rt.Fatalf("%q was uploaded completely (%d bytes); a second upload of the same name, granted (%s) while the name was still free and transferred afterwards, replaced it: the file now has %d bytes (second upload: %d bytes)", name, len(a), secondVia, len(got), len(b))
			}
			// and a third request is refused outright
			if r := grant(false, 10); r != nil {
				rt.Fatalf("upload request for the existing file %q was granted", name)
			}
		})
		ev.Case(evid.Hash("dg", name, a, b, secondVia, cutFirst, preserve), len(a) > 0 && !bytes.Equal(a, b), "double-grant:"+secondVia)
	})
}
