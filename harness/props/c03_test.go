package props

// C03 — hostile input is contained to the offending connection (bubble engine).

import (
	"bytes"
	"encoding/binary"
	"fmt"
	"os"
	"path/filepath"
	"runtime"
	"strings"
	"sync"
	"testing"
	"time"

	"github.com/jhalter/mobius/hotline"
	"pgregory.net/rapid"

	"verif/harness/evid"
	"verif/harness/hlref"
	"verif/harness/hlsim"
)

var c03KnownFieldIDs = []int{100, 101, 102, 103, 104, 105, 106, 107, 108, 109, 110, 112, 113, 114, 115, 116, 152, 160, 200, 201, 202, 203, 204, 207, 210, 211, 212, 214, 215, 220, 300, 321, 322, 325, 326, 327, 328, 333, 335, 337}

// c03Base returns well-formed requests of every registered type (the material that is mutated).
func c03Base(victimID int, chatID []byte) []hlref.Tran {
	obf := func(s string) []byte { return hlref.Obfuscate([]byte(s)) }
	z8 := make([]byte, 8)
	return []hlref.Tran{
		{Type: hlref.TranChatSend, Fields: []hlref.Field{sfld(hlref.FData, "hello"), fld(hlref.FChatOptions, hlref.BE16(1)), fld(hlref.FChatID, chatID)}},
		{Type: hlref.TranSendInstantMsg, Fields: []hlref.Field{fld(hlref.FUserID, hlref.BE16(victimID)), sfld(hlref.FData, "pm"), fld(hlref.FOptions, hlref.BE16(1)), sfld(hlref.FQuotingMsg, "q")}},
		{Type: hlref.TranGetFileInfo, Fields: []hlref.Field{sfld(hlref.FFileName, "f.txt"), fld(hlref.FFilePath, p1("dir"))}},
		{Type: hlref.TranSetFileInfo, Fields: []hlref.Field{sfld(hlref.FFileName, "f.txt"), sfld(hlref.FFileComment, "c"), sfld(hlref.FFileNewName, "g.txt")}},
		{Type: hlref.TranDeleteFile, Fields: []hlref.Field{sfld(hlref.FFileName, "tmp.txt"), fld(hlref.FFilePath, p1("dir"))}},
		{Type: hlref.TranMoveFile, Fields: []hlref.Field{sfld(hlref.FFileName, "f.txt"), fld(hlref.FFilePath, p1("dir")), fld(hlref.FFileNewPath, p1("other"))}},
		{Type: hlref.TranNewFolder, Fields: []hlref.Field{sfld(hlref.FFileName, "nf"), fld(hlref.FFilePath, p1("dir"))}},
		{Type: hlref.TranMakeFileAlias, Fields: []hlref.Field{sfld(hlref.FFileName, "f.txt"), fld(hlref.FFileNewPath, p1("other"))}},
		{Type: hlref.TranDownloadFile, Fields: []hlref.Field{sfld(hlref.FFileName, "f.txt"), fld(hlref.FFileResumeData, hlref.ResumeData(3)), fld(hlref.FFileTransferOptions, hlref.BE16(2))}},
		{Type: hlref.TranDownloadFldr, Fields: []hlref.Field{sfld(hlref.FFileName, "dir")}},
		{Type: hlref.TranUploadFile, Fields: []hlref.Field{sfld(hlref.FFileName, "u.bin"), fld(hlref.FTransferSize, hlref.BE32(100)), fld(hlref.FFileTransferOptions, hlref.BE16(2))}},
		{Type: hlref.TranUploadFldr, Fields: []hlref.Field{sfld(hlref.FFileName, "uf"), fld(hlref.FTransferSize, hlref.BE32(100)), fld(hlref.FFolderItemCount, hlref.BE16(2))}},
		{Type: hlref.TranGetFileNameList, Fields: []hlref.Field{fld(hlref.FFilePath, p1("dir"))}},
		{Type: hlref.TranGetUserNameList},
		{Type: hlref.TranGetClientInfoText, Fields: []hlref.Field{fld(hlref.FUserID, hlref.BE16(victimID))}},
		{Type: hlref.TranSetClientUserInfo, Fields: []hlref.Field{sfld(hlref.FUserName, "n"), fld(hlref.FUserIconID, hlref.BE16(1)), fld(hlref.FOptions, hlref.BE16(4)), sfld(hlref.FAutomaticResponse, "auto")}},
		{Type: hlref.TranListUsers},
		{Type: hlref.TranUpdateUser, Fields: []hlref.Field{fld(hlref.FData, subFields(fld(hlref.FUserLogin, obf("nu")), sfld(hlref.FUserName, "n"), fld(hlref.FUserPassword, obf("p")), fld(hlref.FUserAccess, z8)))}},
		{Type: hlref.TranNewUser, Fields: []hlref.Field{fld(hlref.FUserLogin, obf("nu2")), sfld(hlref.FUserName, "n"), fld(hlref.FUserPassword, obf("p")), fld(hlref.FUserAccess, z8)}},
		{Type: hlref.TranDeleteUser, Fields: []hlref.Field{fld(hlref.FUserLogin, obf("nobody"))}},
		{Type: hlref.TranGetUser, Fields: []hlref.Field{sfld(hlref.FUserLogin, "spare")}},
		{Type: hlref.TranSetUser, Fields: []hlref.Field{fld(hlref.FUserLogin, obf("spare")), sfld(hlref.FUserName, "n"), fld(hlref.FUserAccess, z8), fld(hlref.FUserPassword, []byte{0})}},
		{Type: hlref.TranUserBroadcast, Fields: []hlref.Field{sfld(hlref.FData, "b")}},
		{Type: hlref.TranDisconnectUser, Fields: []hlref.Field{fld(hlref.FUserID, hlref.BE16(victimID)), fld(hlref.FOptions, hlref.BE16(1))}},
		{Type: hlref.TranDisconnectUser, Fields: []hlref.Field{fld(hlref.FUserID, hlref.BE16(999))}}, // an id nobody holds (any more)
		{Type: hlref.TranDisconnectUser, Fields: []hlref.Field{fld(hlref.FUserID, hlref.BE16(998)), fld(hlref.FOptions, hlref.BE16(2))}},
		{Type: hlref.TranGetMsgs},
		{Type: hlref.TranOldPostNews, Fields: []hlref.Field{sfld(hlref.FData, "post")}},
		{Type: hlref.TranGetNewsCatNameList, Fields: []hlref.Field{fld(hlref.FNewsPath, p1("Bun"))}},
		{Type: hlref.TranGetNewsArtNameList, Fields: []hlref.Field{fld(hlref.FNewsPath, p1("Cat"))}},
		{Type: hlref.TranDelNewsItem, Fields: []hlref.Field{fld(hlref.FNewsPath, p1("Nope"))}},
		{Type: hlref.TranNewNewsFldr, Fields: []hlref.Field{sfld(hlref.FFileName, "B2"), fld(hlref.FNewsPath, p1("Bun"))}},
		{Type: hlref.TranNewNewsCat, Fields: []hlref.Field{sfld(hlref.FNewsCatName, "C2"), fld(hlref.FNewsPath, p1("Bun"))}},
		{Type: hlref.TranGetNewsArtData, Fields: []hlref.Field{fld(hlref.FNewsPath, p1("Cat")), fld(hlref.FNewsArtID, hlref.BE32(1)), sfld(hlref.FNewsArtDataFlav, "text/plain")}},
		{Type: hlref.TranPostNewsArt, Fields: []hlref.Field{fld(hlref.FNewsPath, p1("Cat")), fld(hlref.FNewsArtID, hlref.BE32(1)), sfld(hlref.FNewsArtTitle, "t"), sfld(hlref.FNewsArtData, "d")}},
		{Type: hlref.TranDelNewsArt, Fields: []hlref.Field{fld(hlref.FNewsPath, p1("Cat")), fld(hlref.FNewsArtID, hlref.BE32(7)), fld(hlref.FNewsArtRecurseDel, hlref.BE16(1))}},
		{Type: hlref.TranInviteNewChat, Fields: []hlref.Field{fld(hlref.FUserID, hlref.BE16(victimID))}},
		{Type: hlref.TranInviteToChat, Fields: []hlref.Field{fld(hlref.FUserID, hlref.BE16(victimID)), fld(hlref.FChatID, chatID)}},
		{Type: hlref.TranRejectChatInvite, Fields: []hlref.Field{fld(hlref.FChatID, chatID)}},
		{Type: hlref.TranJoinChat, Fields: []hlref.Field{fld(hlref.FChatID, chatID)}},
		{Type: hlref.TranLeaveChat, Fields: []hlref.Field{fld(hlref.FChatID, chatID)}},
		{Type: hlref.TranSetChatSubject, Fields: []hlref.Field{fld(hlref.FChatID, chatID), sfld(hlref.FChatSubject, "s")}},
		{Type: hlref.TranAgreed, Fields: []hlref.Field{sfld(hlref.FUserName, "n"), fld(hlref.FUserIconID, hlref.BE16(1)), fld(hlref.FOptions, hlref.BE16(7)), sfld(hlref.FAutomaticResponse, "a")}},
		{Type: hlref.TranKeepAlive},
		{Type: hlref.TranDownloadBanner},
		{Type: hlref.TranLogin, Fields: []hlref.Field{fld(hlref.FUserLogin, obf("hostile")), fld(hlref.FUserPassword, obf("hpw"))}},
	}
}

var c03Boundary32 = []uint32{0, 1, 2, 21, 22, 0x7fff, 0xffff, 0x10000, 0xfffffff0, 0xffffffeb, 0xffffffec, 0xffffffff}

// c03Mutate derives one hostile message from a well-formed transaction.
func c03Mutate(rt *rapid.T, label string, t hlref.Tran) ([]byte, string) {
	t.ID = rapid.Uint32().Draw(rt, label+"_id")
	fs := append([]hlref.Field{}, t.Fields...)
	var ops []string
	nmut := rapid.IntRange(1, 3).Draw(rt, label+"_nmut")
	var raw []byte
	for m := 0; m < nmut; m++ {
		l := fmt.Sprintf("%s_m%d", label, m)
		switch op := rapid.SampledFrom([]string{"data", "data", "data", "drop", "dup", "swap", "retype", "extra", "hdr-total", "hdr-data", "hdr-count", "fieldsize", "reply", "truncate", "garbage-tail", "type"}).Draw(rt, l); op {
		case "data":
			if len(fs) == 0 {
				continue
			}
			i := rapid.IntRange(0, len(fs)-1).Draw(rt, l+"_i")
			var d []byte
			switch rapid.IntRange(0, 9).Draw(rt, l+"_k") {
			case 0:
				d = []byte{}
			case 1:
				d = genBytes(rt, l+"_d", 1)
			case 2:
				d = genBytes(rt, l+"_d", 2)
			case 3:
				d = genBytes(rt, l+"_d", 3)
			case 4:
				d = genBytes(rt, l+"_d", 4)
			case 5:
				d = genBytes(rt, l+"_d", 5)
			case 6:
				if n := len(fs[i].Data); n > 0 {
					d = fs[i].Data[:rapid.IntRange(0, n-1).Draw(rt, l+"_cut")]
				}
			case 7:
				d = append(append([]byte{}, fs[i].Data...), genBytes(rt, l+"_d", rapid.IntRange(1, 40).Draw(rt, l+"_n"))...)
			case 8:
				d = bytes.Repeat([]byte{'A'}, rapid.SampledFrom([]int{255, 256, 4000, 65000}).Draw(rt, l+"_n"))
			default:
				d = genBytes(rt, l+"_d", rapid.IntRange(0, 64).Draw(rt, l+"_n"))
			}
			fs[i] = hlref.F(fs[i].ID, d)
			ops = append(ops, fmt.Sprintf("data[%d]=%dB", fs[i].ID, len(d)))
		case "drop":
			if len(fs) > 0 {
				i := rapid.IntRange(0, len(fs)-1).Draw(rt, l+"_i")
				ops = append(ops, fmt.Sprintf("drop[%d]", fs[i].ID))
				fs = append(fs[:i:i], fs[i+1:]...)
			}
		case "dup":
			if len(fs) > 0 {
				i := rapid.IntRange(0, len(fs)-1).Draw(rt, l+"_i")
				fs = append(fs, fs[i])
				ops = append(ops, "dup")
			}
		case "swap":
			if len(fs) > 1 {
				fs[0], fs[len(fs)-1] = fs[len(fs)-1], fs[0]
				ops = append(ops, "swap")
			}
		case "retype":
			if len(fs) > 0 {
				i := rapid.IntRange(0, len(fs)-1).Draw(rt, l+"_i")
				nid := rapid.SampledFrom(c03KnownFieldIDs).Draw(rt, l+"_id")
				ops = append(ops, fmt.Sprintf("retype[%d->%d]", fs[i].ID, nid))
				fs[i] = hlref.F(nid, fs[i].Data)
			}
		case "extra":
			fs = append(fs, hlref.F(rapid.SampledFrom(c03KnownFieldIDs).Draw(rt, l+"_id"), genBytes(rt, l+"_d", rapid.IntRange(0, 20).Draw(rt, l+"_n"))))
			ops = append(ops, "extra")
		case "type":
			t.Type = rapid.SampledFrom([]int{0, 1, 100, 102, 104, 106, 109, 111, 117, 118, 119, 122, 211, 301, 302, 354, 65535}).Draw(rt, l+"_type")
			ops = append(ops, fmt.Sprintf("type=%d", t.Type))
		default:
			t.Fields = fs
			if raw == nil {
				raw = t.Encode()
			}
			switch op {
			case "hdr-total":
				if len(raw) < 22 {
					continue
				}
				binary.BigEndian.PutUint32(raw[12:16], rapid.SampledFrom(c03Boundary32).Draw(rt, l+"_v"))
			case "hdr-data":
				if len(raw) < 22 {
					continue
				}
				binary.BigEndian.PutUint32(raw[16:20], rapid.SampledFrom(c03Boundary32).Draw(rt, l+"_v"))
			case "hdr-count":
				if len(raw) < 22 {
					continue
				}
				binary.BigEndian.PutUint16(raw[20:22], uint16(rapid.SampledFrom([]int{0, 1, len(fs) + 1, len(fs) + 100, 0x7fff, 0xffff}).Draw(rt, l+"_v")))
			case "fieldsize":
				if len(raw) >= 26 {
					binary.BigEndian.PutUint16(raw[24:26], uint16(rapid.SampledFrom([]int{0, 1, 0x7fff, 0xffff, len(raw)}).Draw(rt, l+"_v")))
				}
			case "reply":
				if len(raw) > 1 {
					raw[1] = 1
				}
			case "truncate":
				if len(raw) > 0 {
					raw = raw[:rapid.IntRange(0, len(raw)-1).Draw(rt, l+"_cut")]
				}
			case "garbage-tail":
				raw = append(raw, genBytes(rt, l+"_g", rapid.IntRange(1, 30).Draw(rt, l+"_n"))...)
			}
			ops = append(ops, op)
		}
	}
	if raw == nil {
		t.Fields = fs
		raw = t.Encode()
	}
	return raw, fmt.Sprintf("%d{%s}", t.Type, strings.Join(ops, ","))
}

// c03HostileTransfer builds a hostile byte stream for a transfer connection (after the preamble).
func c03HostileTransfer(rt *rapid.T, label string, kind string) ([]byte, string) {
	switch kind {
	case "upload":
		name := []byte("u.bin")
		s := hlsim.UploadStream(name, []byte("c"), genBytes(rt, label+"_d", rapid.IntRange(0, 300).Draw(rt, label+"_n")), []byte("rs"), rapid.SampledFrom([]int{2, 3}).Draw(rt, label+"_forks"))
		op := rapid.SampledFrom([]string{"truncate", "infosize", "namesize", "datasize", "forkcount", "format", "garbage"}).Draw(rt, label+"_op")
		switch op {
		case "truncate":
			s = s[:rapid.IntRange(0, len(s)-1).Draw(rt, label+"_cut")]
		case "infosize":
			binary.BigEndian.PutUint32(s[36:40], uint32(rapid.SampledFrom([]int{0, 1, 71, 72, 73, 74, 75, 1000, 65536, 1 << 20}).Draw(rt, label+"_v")))
		case "namesize":
			binary.BigEndian.PutUint16(s[40+70:40+72], uint16(rapid.SampledFrom([]int{0, 1, 200, 0x7fff, 0xffff}).Draw(rt, label+"_v")))
		case "datasize":
			// the DATA fork header follows the info fork: overwrite its size (bounded by 1 MiB, the property's limit)
			p, err := hlref.ParseFlatHeader(s)
			if err == nil {
				binary.BigEndian.PutUint32(s[p.HeaderLen-4:p.HeaderLen], uint32(rapid.SampledFrom([]int{0, 1, 1000, 1 << 20}).Draw(rt, label+"_v")))
			}
		case "forkcount":
			binary.BigEndian.PutUint16(s[22:24], uint16(rapid.SampledFrom([]int{0, 1, 3, 4, 0xffff}).Draw(rt, label+"_v")))
		case "format":
			copy(s[0:4], genBytes(rt, label+"_f", 4))
		case "garbage":
			s = genBytes(rt, label+"_g", rapid.IntRange(0, 200).Draw(rt, label+"_n"))
		}
		return s, "upload:" + op
	case "folderup":
		var s []byte
		n := rapid.IntRange(1, 3).Draw(rt, label+"_items")
		for i := 0; i < n; i++ {
			it := hlsim.UploadItem{Path: [][]byte{[]byte("sub"), []byte(fmt.Sprintf("f%d", i))}, IsDir: rapid.Bool().Draw(rt, fmt.Sprintf("%s_dir%d", label, i))}
			h := hlsim.FolderUploadItemHeader(it)
			switch rapid.SampledFrom([]string{"ok", "size0", "size3", "sizebig", "count", "len", "truncate"}).Draw(rt, fmt.Sprintf("%s_op%d", label, i)) {
			case "size0":
				binary.BigEndian.PutUint16(h[0:2], 0)
			case "size3":
				binary.BigEndian.PutUint16(h[0:2], 3)
			case "sizebig":
				binary.BigEndian.PutUint16(h[0:2], 0xffff)
			case "count":
				binary.BigEndian.PutUint16(h[4:6], uint16(rapid.SampledFrom([]int{0, 3, 50, 0xffff}).Draw(rt, fmt.Sprintf("%s_c%d", label, i))))
			case "len":
				if len(h) > 8 {
					h[8] = 0xff
				}
			case "truncate":
				h = h[:rapid.IntRange(0, len(h)-1).Draw(rt, fmt.Sprintf("%s_t%d", label, i))]
			}
			s = append(s, h...)
			if !it.IsDir {
				f := hlsim.UploadStream([]byte("f"), nil, []byte("data"), nil, 2)
				s = append(append(s, hlref.BE32(len(f))...), f...)
			}
		}
		return s, "folderup"
	case "folderdown":
		var s []byte
		n := rapid.IntRange(1, 6).Draw(rt, label+"_n")
		for i := 0; i < n; i++ {
			switch rapid.SampledFrom([]string{"next", "send", "resume-ok", "resume-short", "resume-garbage", "junk"}).Draw(rt, fmt.Sprintf("%s_a%d", label, i)) {
			case "next":
				s = append(s, 0, 3)
			case "send":
				s = append(s, 0, 1)
			case "resume-ok":
				rd := hlref.ResumeData(1)
				s = append(append(append(s, 0, 2), hlref.BE16(len(rd))...), rd...)
			case "resume-short":
				s = append(append(s, 0, 2), 0, 5, 1, 2, 3, 4, 5)
			case "resume-garbage":
				g := genBytes(rt, fmt.Sprintf("%s_g%d", label, i), 60)
				s = append(append(append(s, 0, 2), hlref.BE16(len(g))...), g...)
			default:
				s = append(s, genBytes(rt, fmt.Sprintf("%s_j%d", label, i), 2)...)
			}
		}
		return s, "folderdown"
	default:
		return genBytes(rt, label+"_g", rapid.IntRange(0, 64).Draw(rt, label+"_n")), "download:junk"
	}
}

type c03hostile struct {
	Mode    string // "prelogin", "postlogin", "transfer", "random"
	Hs      []byte
	Login   []byte
	Msgs    [][]byte
	Desc    []string
	XKind   string
	XStream []byte
	XRef    string // "valid", "unknown", "badproto", "short"
	XGrant  string // how the request that obtains the reference number is malformed: "", "no-size", "short-size", "no-count", "short-count"
	Close   bool
}

// c03AllocCeiling: what one case (<= 6 hostile connections, <= 3 well-behaved ones, declared fork sizes <= 1 MiB, a
// world of a few small files) may allocate in total, with a wide margin: on the repaired tree the largest case of a thorough shard allocated 58 MiB.
const c03AllocCeiling = 512 << 20

var c03MaxAlloc uint64

func c03HostileBytes(hs []c03hostile) int {
	n := 0
	for _, h := range hs {
		n += len(h.Hs) + len(h.Login) + len(h.XStream)
		for _, m := range h.Msgs {
			n += len(m)
		}
	}
	return n
}

func c03prop(ev *evid.Rec) func(rt *rapid.T) {
	return func(rt *rapid.T) {
		ngood := rapid.IntRange(1, 3).Draw(rt, "ngood")
		nhost := rapid.IntRange(1, 6).Draw(rt, "nhostile")
		chatID := []byte{0xde, 0xad, 0xbe, 0xef}
		base := c03Base(1, chatID)
		var hs []c03hostile
		for i := 0; i < nhost; i++ {
			l := fmt.Sprintf("h%d", i)
			h := c03hostile{Mode: rapid.SampledFrom([]string{"postlogin", "postlogin", "postlogin", "prelogin", "transfer", "transfer", "random"}).Draw(rt, l+"_mode"), Close: rapid.Bool().Draw(rt, l+"_close")}
			h.Hs = hlref.Handshake(1, 2)
			goodLogin := hlref.Tran{Type: hlref.TranLogin, ID: 1, Fields: hlsim.LoginOpts{Login: "hostile", Password: "hpw", Name: []byte(l), Icon: 1}.Fields()}
			h.Login = goodLogin.Encode()
			switch h.Mode {
			case "prelogin":
				switch rapid.IntRange(0, 3).Draw(rt, l+"_pre") {
				case 0:
					h.Hs = genBytes(rt, l+"_hs", rapid.IntRange(0, 30).Draw(rt, l+"_hslen"))
				case 1:
					h.Hs = h.Hs[:rapid.IntRange(0, 11).Draw(rt, l+"_hscut")]
				default:
					h.Login, _ = c03Mutate(rt, l+"_login", goodLogin)
				}
				h.Desc = append(h.Desc, "prelogin")
			case "random":
				n := rapid.IntRange(1, 4).Draw(rt, l+"_n")
				for k := 0; k < n; k++ {
					h.Msgs = append(h.Msgs, genBytes(rt, fmt.Sprintf("%s_r%d", l, k), rapid.SampledFrom([]int{1, 7, 19, 20, 22, 23, 100, 3000}).Draw(rt, fmt.Sprintf("%s_rl%d", l, k))))
				}
				h.Desc = append(h.Desc, "random bytes after login")
			case "postlogin":
				n := rapid.IntRange(1, 6).Draw(rt, l+"_n")
				for k := 0; k < n; k++ {
					b := base[rapid.IntRange(0, len(base)-1).Draw(rt, fmt.Sprintf("%s_b%d", l, k))]
					raw, d := c03Mutate(rt, fmt.Sprintf("%s_t%d", l, k), b)
					h.Msgs = append(h.Msgs, raw)
					h.Desc = append(h.Desc, d)
				}
			case "transfer":
				h.XKind = rapid.SampledFrom([]string{"upload", "upload", "folderup", "folderdown", "download"}).Draw(rt, l+"_xkind")
				h.XRef = rapid.SampledFrom([]string{"valid", "valid", "valid", "unknown", "badproto", "short", "replayed"}).Draw(rt, l+"_xref") // replayed: one valid grant presented on three transfer connections at the same instant
				h.XGrant = rapid.SampledFrom([]string{"", "", "no-size", "short-size", "no-count", "short-count"}).Draw(rt, l+"_xgrant")
				var d string
				h.XStream, d = c03HostileTransfer(rt, l+"_x", h.XKind)
				h.Desc = append(h.Desc, "transfer:"+d+" ref="+h.XRef+" grant="+h.XGrant)
			}
			hs = append(hs, h)
		}
		baitChat := rapid.IntRange(0, 2).Draw(rt, "inviteTheSentinelAndLeave") == 0
		kickAmongHostile := rapid.IntRange(0, 2).Draw(rt, "hostileKicksHostile") == 0
		reached := 0
		var panics int64
		// watchdog in real time, started outside the bubble (inside it the clock is fake): a wedged server makes the
		// bubble hang, which must be reported, not waited out
		done := make(chan struct{})
		wdesc := c03desc(hs)
		go func() {
			select {
			case <-done:
			case <-time.After(worldWatchdog - 5*time.Second): // (just before the general watchdog of inWorld: this one can name the hostile input)
				buf := make([]byte, 1<<20)
				n := runtime.Stack(buf, true)
				fmt.Fprintf(os.Stderr, "VERIF-HANG-SUSPECT\nVERIF-VIOLATION C03 the server did not become quiescent / answer the sentinel within %s of real time; hostile input: %s\n%s\n", worldWatchdog-5*time.Second, wdesc, buf[:n])
				os.Exit(3)
			}
		}()
		defer close(done)
		// memory: a few hundred hostile bytes must not make the server allocate gigabytes (an allocation sized by a
		// length field of the input is how a byte sequence gets the process killed by the kernel)
		var m0 runtime.MemStats
		runtime.ReadMemStats(&m0)
		defer func() {
			var m1 runtime.MemStats
			runtime.ReadMemStats(&m1)
			d := m1.TotalAlloc - m0.TotalAlloc
			if d > c03MaxAlloc {
				c03MaxAlloc = d
				ev.SetExtra("largest_allocation_of_one_case_MiB", int(d>>20))
			}
			if d > c03AllocCeiling {
				rt.Fatalf("serving %d hostile connections (%d bytes of hostile input in total) made the process allocate %d MiB: %s", len(hs), c03HostileBytes(hs), d>>20, wdesc)
			}
		}()
		inWorld(rt, hlsim.Options{Agreement: "agreement", Board: "board\r", Accounts: []hlsim.AccountSpec{
			acct("good", "Good", "gpw", allAccess), acct("spare", "Spare", "spw", hlref.Access{}),
			{Login: "hostile", Name: "Hostile", Password: "hpw", Access: func() hlref.Access {
				a := hlref.AllAccess().Defined()
				for _, p := range []int{hlref.PrivDeleteUser, hlref.PrivModifyUser} {
					a.Clear(p) // a hostile but authorised administrator removing other users' accounts is not a containment failure
				}
				// it may send disconnect requests: the well-behaved clients' account cannot be disconnected, so whatever such a
				// request does, dropping one of them (or the process) is a failure
				return a
			}()}}}, func(rt *rapid.T, w *hlsim.World) {
			desc := c03desc(hs)
			w.Log.Keep = true
			for _, d := range []string{"dir", "other"} {
				must(os.MkdirAll(filepath.Join(w.FileRoot, d), 0o755))
			}
			must(os.WriteFile(filepath.Join(w.FileRoot, "f.txt"), []byte("content"), 0o644))
			must(os.WriteFile(filepath.Join(w.FileRoot, "dir", "f.txt"), []byte("content2"), 0o644))
			must(os.WriteFile(filepath.Join(w.FileRoot, "dir", "tmp.txt"), []byte("t"), 0o644))
			var good []*hlsim.Conn
			for i := 0; i < ngood; i++ {
				good = append(good, loginAs(rt, w, fmt.Sprintf("10.3.0.%d:1", i+1), "good", "gpw", fmt.Sprintf("good%d", i)))
			}
			sentinel := good[0]
			sentinel.Request(hlref.TranNewNewsCat, sfld(hlref.FNewsCatName, "Cat"))
			sentinel.Request(hlref.TranNewNewsFldr, sfld(hlref.FFileName, "Bun"))
			sentinel.Request(hlref.TranPostNewsArt, fld(hlref.FNewsPath, p1("Cat")), fld(hlref.FNewsArtID, hlref.BE32(0)), sfld(hlref.FNewsArtTitle, "t"), sfld(hlref.FNewsArtData, "d"))
			for _, g := range good {
				g.TakeInbox()
			}
			// phase A: connections are opened; those that need it log in / obtain a transfer reference
			type live struct {
				h   c03hostile
				c   *hlsim.Conn
				ref []byte
				in  bool
			}
			var ls []*live
			for i, h := range hs {
				lv := &live{h: h}
				lv.c = w.Connect(fmt.Sprintf("10.3.1.%d:1", i+1))
				if h.Mode != "prelogin" {
					if lv.c.Login(hlsim.LoginOpts{Login: "hostile", Password: "hpw", Name: []byte(fmt.Sprintf("h%d", i)), Icon: 1}) != nil {
						lv.in = true
						reached++
					}
					if h.Mode == "transfer" && lv.in && (h.XRef == "valid" || h.XRef == "replayed") {
						var r *hlref.Tran
						switch h.XKind {
						case "upload", "folderup":
							// the transfer's size and item count are kept as the client sent them: they may be missing or short
							fs := []hlref.Field{sfld(hlref.FFileName, fmt.Sprintf("up%d", i))}
							switch h.XGrant {
							case "no-size":
							case "short-size":
								fs = append(fs, fld(hlref.FTransferSize, []byte{1}))
							default:
								fs = append(fs, fld(hlref.FTransferSize, hlref.BE32(500)))
							}
							typ := hlref.TranUploadFile
							if h.XKind == "folderup" {
								typ = hlref.TranUploadFldr
								switch h.XGrant {
								case "no-count":
								case "short-count":
									fs = append(fs, fld(hlref.FFolderItemCount, []byte{3}))
								default:
									fs = append(fs, fld(hlref.FFolderItemCount, hlref.BE16(3)))
								}
							}
							r = lv.c.Request(typ, fs...)
						case "folderdown":
							r = lv.c.Request(hlref.TranDownloadFldr, sfld(hlref.FFileName, "dir"))
						default:
							r = lv.c.Request(hlref.TranDownloadFile, sfld(hlref.FFileName, "f.txt"))
						}
						lv.ref, _ = r.Get(hlref.FRefNum)
					}
				}
				ls = append(ls, lv)
			}
			for _, g := range good {
				g.TakeInbox()
			}
			// phase B: all hostile payloads are issued before anything settles
			var xs []*hlsim.Conn
			for i, lv := range ls {
				switch lv.h.Mode {
				case "prelogin":
					lv.c.SendAsync(lv.h.Hs)
					lv.c.SendAsync(lv.h.Login)
				case "transfer":
					x := w.OpenTransfer(fmt.Sprintf("10.3.2.%d:1", i+1))
					xs = append(xs, x)
					ref := lv.ref
					if len(ref) != 4 {
						ref = []byte{9, 9, 9, byte(i)}
					}
					var r4 [4]byte
					copy(r4[:], ref)
					pre := hlref.Preamble(r4, len(lv.h.XStream))
					switch lv.h.XRef {
					case "badproto":
						copy(pre[0:4], "XFTH")
					case "short":
						pre = pre[:9]
					case "unknown":
						copy(pre[4:8], []byte{1, 2, 3, 4})
					}
					x.SendAsync(pre)
					x.SendAsync(lv.h.XStream)
					if lv.h.XRef == "replayed" {
						for k := 0; k < 2; k++ {
							x2 := w.OpenTransfer(fmt.Sprintf("10.3.%d.%d:1", 3+k, i+1))
							xs = append(xs, x2)
							x2.SendAsync(pre)
							x2.SendAsync(lv.h.XStream)
						}
					}
				default:
					for _, m := range lv.h.Msgs {
						lv.c.SendAsync(m)
					}
				}
			}
			settle(8 * time.Second)
			// (2) the sentinel is still served while the hostile connections are (or were) active
			if r := sentinel.Request(hlref.TranKeepAlive); !okReply(r) {
				rt.Fatalf("sentinel got no keep-alive reply while hostile connections were active: %s", desc)
			}
			// (only the arrival of the reply is required here: while a hostile user is connected its own record in the
			// list may be odd - e.g. an icon field of the wrong width is stored as sent; that is not a containment failure)
			if r := sentinel.Request(hlref.TranGetUserNameList); !okReply(r) {
				rt.Fatalf("sentinel got no user list reply while hostile connections were active: %s", desc)
			}
			// what an administrator does with a misbehaving user: look at it.  The answer may say anything; it must arrive.
			for id := 1; id <= ngood+nhost+2; id++ {
				if r := sentinel.Request(hlref.TranGetClientInfoText, fld(hlref.FUserID, hlref.BE16(id))); r == nil {
					rt.Fatalf("sentinel got no reply to a get-client-info request about user %d while hostile connections were active (sentinel disconnected: %v): %s", id, sentinel.EOF(), desc)
				}
			}
			// hostile users may also turn on each other with well-formed requests: one of them has another one disconnected.
			// Once they are all gone the counters are what the well-behaved clients account for, as always.
			if kickAmongHostile {
				var in []*live
				for _, lv := range ls {
					if lv.in && !lv.c.EOF() && lv.h.Mode != "transfer" {
						in = append(in, lv)
					}
				}
				if len(in) >= 1 {
					// (the hostile account itself cannot be disconnected - it holds every privilege but two; the one it turns on is
					// a user of the account without privileges, who logs in for the occasion)
					tgt := w.Connect("10.3.8.1:1")
					if tgt.Login(hlsim.LoginOpts{Login: "spare", Password: "spw", Name: []byte("kick-me"), Icon: 1}) != nil {
						if us, err := sentinel.UserList(); err == nil {
							for _, u := range us {
								if string(u.Name) == "Spare" { // (the account may not choose its name: it goes by the account's)
									in[0].c.Send(hlref.Tran{Type: hlref.TranDisconnectUser, ID: 0x6b69636b, Fields: []hlref.Field{fld(hlref.FUserID, hlref.BE16(u.ID))}}.Encode())
								}
							}
							settle(3 * time.Second)
						}
					}
					tgt.Close()
					settle(time.Second)
				}
			}
			// a well-behaved client reacts to what it is sent: a hostile user invites it to a private chat and leaves that chat
			// at once; the invited client accepts.  Whatever the answer is, it arrives, and the client stays connected.
			if baitChat {
				for _, lv := range ls {
					if !lv.in || lv.c.EOF() || lv.h.Mode == "transfer" {
						continue
					}
					// (sent under a transaction id of its own: the mutated requests of this connection carry drawn ids, small ones
					// more often than not, and a late reply to one of them must not be taken for the reply to this request)
					const baitID = 0x6b61746f
					lv.c.TakeInbox()
					lv.c.Send(hlref.Tran{Type: hlref.TranInviteNewChat, ID: baitID, Fields: []hlref.Field{fld(hlref.FUserID, hlref.BE16(1))}}.Encode())
					var cid []byte
					for _, tr := range lv.c.TakeInbox() {
						if d, ok := tr.Get(hlref.FChatID); tr.IsReply == 1 && tr.ID == baitID && tr.Err == 0 && ok && len(d) == 4 {
							cid = d
						}
					}
					if cid == nil {
						break // not granted
					}
					lv.c.Request(hlref.TranLeaveChat, fld(hlref.FChatID, cid))
					settle(time.Second)
					if r := sentinel.Request(hlref.TranJoinChat, fld(hlref.FChatID, cid)); r == nil || sentinel.EOF() {
						rt.Fatalf("a hostile user invited the well-behaved client to a private chat and left it at once; the well-behaved client accepted the invitation and got no answer (disconnected: %v): %s\nserver log: %v", sentinel.EOF(), desc, w.Log.Lines())
					}
					sentinel.Request(hlref.TranLeaveChat, fld(hlref.FChatID, cid))
					break
				}
			}
			for i, g := range good {
				if g.EOF() {
					rt.Fatalf("well-behaved client %d was disconnected by hostile input on other connections: %s", i, desc)
				}
				if g.Bad != nil {
					rt.Fatalf("well-behaved client %d received an unparseable stream (%v): %s", i, g.Bad, desc)
				}
			}
			// phase D: hostile connections go away - all at the same instant, while the operator's statistics page reads the
			// counters (the counters are also what the last clause of the property is about)
			var og sync.WaitGroup
			for g := 0; g < 3; g++ {
				og.Add(1)
				go func() {
					defer og.Done()
					for k := 0; k < 400; k++ {
						_ = w.Srv.Stats.Values()
					}
				}()
			}
			for _, lv := range ls {
				lv.c.Close()
			}
			for _, x := range xs {
				x.Close()
			}
			og.Wait()
			settle(8 * time.Second)
			us, err := sentinel.UserList()
			if err != nil {
				rt.Fatalf("sentinel got no user list after the hostile connections were closed: %s", desc)
			}
			if len(us) != ngood {
				rt.Fatalf("after the hostile connections were closed the user list has %d entries, %d well-behaved clients are connected (%v): %s", len(us), ngood, userIDs(us), desc)
			}
			if n := w.Srv.Stats.Get(hotline.StatCurrentlyConnected); n != ngood {
				rt.Fatalf("CurrentlyConnected = %d after the hostile connections were closed, %d well-behaved clients are connected: %s", n, ngood, desc)
			}
			if d, u := w.Srv.Stats.Get(hotline.StatDownloadsInProgress), w.Srv.Stats.Get(hotline.StatUploadsInProgress); d != 0 || u != 0 {
				rt.Fatalf("transfer counters not restored: DownloadsInProgress=%d UploadsInProgress=%d: %s", d, u, desc)
			}
			if n := len(w.Srv.ClientMgr.List()); n != ngood {
				rt.Fatalf("client registry has %d entries, %d well-behaved clients are connected: %s", n, ngood, desc)
			}
			for i, g := range good {
				if r := g.Request(hlref.TranKeepAlive); !okReply(r) {
					rt.Fatalf("well-behaved client %d no longer gets replies: %s", i, desc)
				}
			}
			panics = w.Log.Panics.Load()
		})
		lab := "no-recovered-panic"
		if panics > 0 {
			lab = "recovered-panic"
		}
		ev.Case(evid.Hash(c03desc(hs), ngood), reached > 0, lab, fmt.Sprintf("hostile:%d", nhost))
		for _, h := range hs {
			ev.Label("mode:"+h.Mode, 1)
		}
		ev.Label("recovered_panics", int(panics))
		if reached > 0 && ev.WantSample() {
			ev.Sample(map[string]any{"well_behaved_clients": ngood, "hostile_connections": c03desc(hs), "recovered_panics": panics})
		}
	}
}

func c03desc(hs []c03hostile) string {
	var s []string
	for i, h := range hs {
		s = append(s, fmt.Sprintf("conn%d[%s: %s]", i, h.Mode, strings.Join(h.Desc, " ")))
	}
	return strings.Join(s, " ")
}

// quietStdout silences what mobius prints to standard output for every recovered panic (a
// full stack trace each); the test framework keeps the writer it captured earlier.
func quietStdout() func() {
	old := os.Stdout
	if f, err := os.OpenFile(os.DevNull, os.O_WRONLY, 0); err == nil {
		os.Stdout = f
		return func() { os.Stdout = old; f.Close() }
	}
	return func() {}
}

func TestC03(t *testing.T) {
	ev := evid.New("C03", "TestC03")
	defer ev.Flush()
	defer quietStdout()()
	rapid.Check(t, c03prop(ev))
}

func FuzzC03(f *testing.F) {
	ev := evid.New("C03", "FuzzC03")
	f.Fuzz(rapid.MakeFuzz(c03prop(ev)))
}
