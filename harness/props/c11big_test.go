package props

// C11, magnitude of the file size: the three views of a file's size (list, get-info,
// download reply) agree with each other and with the bytes on disk up to the largest size
// the 4-byte fields can carry.  The files are sparse, nothing is transferred.

import (
	"fmt"
	"os"
	"path/filepath"
	"testing"

	"pgregory.net/rapid"

	"verif/harness/evid"
	"verif/harness/hlref"
	"verif/harness/hlsim"
)

func TestC11BigSizes(t *testing.T) {
	ev := evid.New("C11", "TestC11BigSizes")
	defer ev.Flush()
	rapid.Check(t, func(rt *rapid.T) {
		base := rapid.SampledFrom([]int64{1 << 24, 1 << 30, 1<<31 - 1, 1 << 31, 3 << 30, 1<<32 - 1}).Draw(rt, "base")
		size := base + int64(rapid.IntRange(-2, 2).Draw(rt, "delta"))
		if size > 1<<32-1 {
			size = 1<<32 - 1
		}
		inFolder := rapid.Bool().Draw(rt, "infolder")
		own := rapid.IntRange(0, 3).Draw(rt, "ownroot") == 0
		inWorld(rt, hlsim.Options{Agreement: "a", Accounts: []hlsim.AccountSpec{acct("admin", "Admin", "adminpw", allAccess)}}, func(rt *rapid.T, w *hlsim.World) {
			root := w.FileRoot
			if own {
				root = ownRoot(rt, w, acct("admin", "Admin", "adminpw", allAccess))
			}
			dir := root
			var path []byte
			if inFolder {
				dir = filepath.Join(root, "big files")
				must(os.MkdirAll(dir, 0o755))
				path = p1("big files")
			}
			f, err := os.Create(filepath.Join(dir, "big.bin"))
			must(err)
			must(f.Truncate(size)) // sparse: no blocks are allocated
			must(f.Close())
			must(os.WriteFile(filepath.Join(dir, "small.txt"), []byte("small"), 0o644))
			c := loginAs(rt, w, "10.0.0.1:1", "admin", "adminpw", "admin")
			ls, r, err := c.ListFiles(path)
			if err != nil {
				rt.Fatalf("file list with a %d-byte file: %v (%s)", size, err, replySummary(r))
			}
			listed := int64(-1)
			for _, l := range ls {
				if l.Name == "big.bin" {
					listed = int64(l.Size)
				}
			}
			if listed < 0 {
				rt.Fatalf("a file of %d bytes (it fits the 4-byte size field) is missing from the file list: %v", size, ls)
			}
			nf := []hlref.Field{sfld(hlref.FFileName, "big.bin")}
			if path != nil {
				nf = append(nf, fld(hlref.FFilePath, path))
			}
			ir := c.Request(hlref.TranGetFileInfo, nf...)
			isz, ok := ir.Get(hlref.FFileSize)
			if !okReply(ir) || !ok {
				rt.Fatalf("get-info of the %d-byte file: %s", size, replySummary(ir))
			}
			dr := c.Request(hlref.TranDownloadFile, nf...)
			dsz, ok := dr.Get(hlref.FFileSize)
			if !okReply(dr) || !ok {
				rt.Fatalf("download request for the %d-byte file: %s", size, replySummary(dr))
			}
			info, dl := int64(uint32(hlref.U32(isz))), int64(uint32(hlref.U32(dsz)))
			if listed != size || info != size || dl != size {
				rt.Fatalf("a file of %d bytes on disk is shown with size %d in the list, %d in get-info and %d in the download reply", size, listed, info, dl)
			}
		})
		ev.Case(evid.Hash("big", size, inFolder, own), size >= 1<<31, fmt.Sprintf("size>=2^31:%v", size >= 1<<31))
		if ev.WantSample() {
			ev.Sample(map[string]any{"sparse_file_size": size, "in_folder": inFolder, "own_root": own})
		}
	})
}

// TestC11WideFolder: the size shown for a folder in the list is the number of its visible entries, also for a folder
// with more entries than 16 bits count.
func TestC11WideFolder(t *testing.T) {
	ev := evid.New("C11", "TestC11WideFolder")
	defer ev.Flush()
	rapid.Check(t, func(rt *rapid.T) {
		n := rapid.SampledFrom([]int{65536, 65537, 65540}).Draw(rt, "entries")
		hidden := rapid.IntRange(0, 3).Draw(rt, "hiddenEntries")
		inWorld(rt, hlsim.Options{Agreement: "a", Accounts: []hlsim.AccountSpec{acct("admin", "Admin", "adminpw", allAccess)}}, func(rt *rapid.T, w *hlsim.World) {
			dir := filepath.Join(w.FileRoot, "wide")
			must(os.MkdirAll(dir, 0o755))
			for i := 0; i < n; i++ {
				f, err := os.Create(filepath.Join(dir, fmt.Sprintf("f%05d", i)))
				must(err)
				f.Close()
			}
			for i := 0; i < hidden; i++ {
				must(os.WriteFile(filepath.Join(dir, fmt.Sprintf(".hidden%d", i)), nil, 0o644))
			}
			must(os.MkdirAll(filepath.Join(w.FileRoot, "small"), 0o755))
			must(os.WriteFile(filepath.Join(w.FileRoot, "small", "one"), nil, 0o644))
			c := loginAs(rt, w, "10.0.0.1:1", "admin", "adminpw", "admin")
			ls, r, err := c.ListFiles(nil)
			if err != nil {
				rt.Fatalf("file list: %v (%s)", err, replySummary(r))
			}
			got := map[string]int64{}
			for _, l := range ls {
				got[l.Name] = int64(l.Size)
			}
			if got["wide"] != int64(n) || got["small"] != 1 {
				rt.Fatalf("a folder with %d visible entries (and %d hidden ones) is listed with size %d; the folder with one entry with size %d", n, hidden, got["wide"], got["small"])
			}
		})
		ev.Case(evid.Hash("wide", n, hidden), n > 65535, fmt.Sprintf("entries:%d", n))
	})
}
