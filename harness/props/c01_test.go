package props

// C01 — wire format fidelity: every encoder, drained through any sequence of buffer
// sizes, terminates and emits exactly the bytes of the independent reference codec
// (hlref); every decoder maps those bytes back to the object.

import (
	"bytes"
	"encoding/binary"
	"fmt"
	"io"
	"os"
	"path/filepath"
	"strings"
	"testing"
	"time"

	"github.com/jhalter/mobius/hotline"
	"golang.org/x/crypto/bcrypt"
	"pgregory.net/rapid"

	"verif/harness/evid"
	"verif/harness/hlref"
)

type c01case struct {
	kind    string
	mk      func() io.Reader       // fresh encoder for the object
	want    []byte                 // reference encoding
	decode  func(enc []byte) error // decoder checks against the object (may be nil)
	varLen  int                    // total length of variable parts
	minBuf  int                    // smallest buffer the harness pairs with this object
	summary string
}

var (
	hashEmptyPw = mustHash("")
	hashSomePw  = mustHash("secret")
)

func mustHash(p string) string {
	h, err := bcrypt.GenerateFromPassword([]byte(p), bcrypt.MinCost)
	if err != nil {
		panic(err)
	}
	return string(h)
}

func arr2(b []byte) (a [2]byte) { copy(a[:], b); return }
func arr4(b []byte) (a [4]byte) { copy(a[:], b); return }
func arr8(b []byte) (a [8]byte) { copy(a[:], b); return }

func genField(t *rapid.T, label string, max int) (hotline.Field, hlref.Field) {
	ty := genBytes(t, label+"_type", 2)
	n := genSize(t, label+"_size", max)
	d := genBytes(t, label+"_data", n)
	// a field is a value: the caller's buffer (an array of the session, a reused read buffer) may be rewritten between
	// the construction of a transaction and the moment it is drained to the wire
	src := append([]byte{}, d...)
	f := hotline.NewField(arr2(ty), src)
	for i := range src {
		src[i] ^= 0xFF
	}
	return f, hlref.F(hlref.U16(ty), d)
}

func eqErr(what string, got, want any) error {
	return fmt.Errorf("decode mismatch in %s: got %v want %v", what, got, want)
}

var c01gens = map[string]func(t *rapid.T) c01case{
	"field": func(t *rapid.T) c01case {
		f, rf := genField(t, "f", 65535)
		return c01case{kind: "field", want: rf.Encode(), varLen: len(rf.Data),
			mk: func() io.Reader { c := f; return &c },
			decode: func(enc []byte) error {
				var g hotline.Field
				n, err := g.Write(append(append([]byte{}, enc...), 0xAA, 0xBB)) // trailing bytes belong to the next field
				if err != nil {
					return err
				}
				if n != len(enc) || g.Type != f.Type || !bytes.Equal(g.Data, f.Data) || g.FieldSize != f.FieldSize {
					return eqErr("Field.Write", g, f)
				}
				adv, tok, err := hotline.FieldScanner(append(append([]byte{}, enc...), 1, 2, 3), false)
				if err != nil || adv != len(enc) || !bytes.Equal(tok, enc) {
					return fmt.Errorf("FieldScanner: advance %d token %d bytes err %v, want %d", adv, len(tok), err, len(enc))
				}
				if len(enc) > 4 {
					if adv, _, _ := hotline.FieldScanner(enc[:len(enc)-1], false); adv != 0 {
						return fmt.Errorf("FieldScanner accepted a truncated field")
					}
				}
				return nil
			}}
	},
	"transaction": func(t *rapid.T) c01case {
		hd := genBytes(t, "hdr", 12)
		nf := rapid.IntRange(0, 40).Draw(t, "nfields")
		if rapid.IntRange(0, 9).Draw(t, "manyfields") == 0 {
			// list replies carry one field per record: counts around and beyond one byte's worth
			nf = rapid.SampledFrom([]int{255, 256, 257, 300, 511, 512, 1000}).Draw(t, "nfieldsBig")
		}
		maxField := 65535
		if nf > 4 {
			maxField = 2048
		}
		if nf > 100 {
			maxField = 40
		}
		var fs []hotline.Field
		rt := hlref.Tran{Flags: hd[0], IsReply: hd[1], Type: hlref.U16(hd[2:4]), ID: binary.BigEndian.Uint32(hd[4:8]), Err: binary.BigEndian.Uint32(hd[8:12])}
		v := 0
		for i := 0; i < nf; i++ {
			f, rf := genField(t, fmt.Sprintf("f%d", i), maxField)
			fs = append(fs, f)
			rt.Fields = append(rt.Fields, rf)
			v += len(rf.Data)
		}
		tr := hotline.Transaction{Flags: hd[0], IsReply: hd[1], Type: hotline.TranType(arr2(hd[2:4])), ID: arr4(hd[4:8]), ErrorCode: arr4(hd[8:12]), Fields: fs}
		want := rt.Encode()
		minBuf := 1
		if len(want) > 8192 {
			minBuf = 257 // Transaction.Read rebuilds the encoding per call: O(n^2) harness bound (DESIGN C01 B.)
		}
		return c01case{kind: "transaction", want: want, varLen: v + nf, minBuf: minBuf,
			mk: func() io.Reader { c := tr; return &c },
			decode: func(enc []byte) error {
				var g hotline.Transaction
				if _, err := g.Write(enc); err != nil {
					return err
				}
				if g.Flags != tr.Flags || g.IsReply != tr.IsReply || g.Type != tr.Type || g.ID != tr.ID || g.ErrorCode != tr.ErrorCode {
					return eqErr("Transaction.Write header", g, tr)
				}
				if len(g.Fields) != len(tr.Fields) {
					return eqErr("Transaction.Write field count", len(g.Fields), len(tr.Fields))
				}
				for i := range g.Fields {
					if g.Fields[i].Type != tr.Fields[i].Type || !bytes.Equal(g.Fields[i].Data, tr.Fields[i].Data) {
						return eqErr(fmt.Sprintf("Transaction.Write field %d", i), hexs(g.Fields[i].Data), hexs(tr.Fields[i].Data))
					}
					// "the original object": a field that is present without data is not an absent field (Data == nil is what
					// GetField returns for a field that was not sent, and what every handler tests)
					if (g.Fields[i].Data == nil) != (tr.Fields[i].Data == nil) {
						return fmt.Errorf("Transaction.Write field %d (%d bytes of data): decoded Data == nil is %v, in the original object %v", i, len(tr.Fields[i].Data), g.Fields[i].Data == nil, tr.Fields[i].Data == nil)
					}
				}
				adv, tok, err := hotline.VerifTransactionScanner(append(append([]byte{}, enc...), 9, 9, 9), false)
				if err != nil || adv != len(enc) || !bytes.Equal(tok, enc) {
					return fmt.Errorf("transactionScanner: advance %d err %v, want %d", adv, err, len(enc))
				}
				if adv, _, _ := hotline.VerifTransactionScanner(enc[:len(enc)-1], false); adv != 0 {
					return fmt.Errorf("transactionScanner accepted a truncated transaction")
				}
				// differential: re-encode what was decoded
				g2 := g
				b, _ := io.ReadAll(&g2)
				if !bytes.Equal(b, enc) {
					return fmt.Errorf("decode->encode not identity at byte %d", firstDiff(b, enc))
				}
				return nil
			}}
	},
	"user": func(t *rapid.T) c01case {
		id := genBytes(t, "id", 2)
		icon := genBytes(t, "icon", rapid.SampledFrom([]int{2, 2, 2, 4}).Draw(t, "iconlen"))
		flags := genBytes(t, "flags", rapid.SampledFrom([]int{2, 2, 2, 4}).Draw(t, "flaglen"))
		name := genBytes(t, "name", genSize(t, "namelen", 65535))
		ru := hlref.User{ID: hlref.U16(id), Icon: hlref.U16(icon[len(icon)-2:]), Flags: hlref.U16(flags[len(flags)-2:]), Name: name}
		return c01case{kind: "user", want: ru.Encode(), varLen: len(name),
			mk: func() io.Reader {
				return &hotline.User{ID: arr2(id), Icon: append([]byte{}, icon...), Flags: append([]byte{}, flags...), Name: string(name)}
			},
			decode: func(enc []byte) error {
				var g hotline.User
				n, err := g.Write(enc)
				if err != nil {
					return err
				}
				if n != len(enc) || g.ID != arr2(id) || hlref.U16(g.Icon) != ru.Icon || hlref.U16(g.Flags) != ru.Flags || g.Name != string(name) {
					return eqErr("User.Write", g, ru)
				}
				return nil
			}}
	},
	"account": func(t *rapid.T) c01case {
		name := genBytes(t, "name", genSize(t, "namelen", 300))
		login := genBytes(t, "login", genSize(t, "loginlen", 300))
		acc := genBytes(t, "access", 8)
		hasPw := rapid.Bool().Draw(t, "haspw")
		pw := hashEmptyPw
		if hasPw {
			pw = hashSomePw
		}
		want := hlref.EncodeAccountRecord(name, login, arr8(acc), hasPw)
		return c01case{kind: "account", want: want, varLen: len(name) + len(login), minBuf: len(want)/40 + 1, // each Read costs a bcrypt comparison
			mk: func() io.Reader {
				return &hotline.Account{Login: string(login), Name: string(name), Password: pw, Access: hotline.AccessBitmap(arr8(acc))}
			}}
	},
	"filenamewithinfo": func(t *rapid.T) c01case {
		h := genBytes(t, "hdr", 18)
		name := genBytes(t, "name", genSize(t, "namelen", 65535))
		rf := hlref.FileNameWithInfo{Type: arr4(h[0:4]), Creator: arr4(h[4:8]), Size: binary.BigEndian.Uint32(h[8:12]), RSVD: arr4(h[12:16]), NameScript: hlref.U16(h[16:18]), Name: name}
		mkobj := func() *hotline.FileNameWithInfo {
			f := &hotline.FileNameWithInfo{Name: append([]byte{}, name...)}
			f.Type, f.Creator, f.FileSize, f.RSVD, f.NameScript = arr4(h[0:4]), arr4(h[4:8]), arr4(h[8:12]), arr4(h[12:16]), arr2(h[16:18])
			binary.BigEndian.PutUint16(f.NameSize[:], uint16(len(name)))
			return f
		}
		return c01case{kind: "filenamewithinfo", want: rf.Encode(), varLen: len(name),
			mk: func() io.Reader { return mkobj() },
			decode: func(enc []byte) error {
				var g hotline.FileNameWithInfo
				if _, err := g.Write(enc); err != nil {
					return err
				}
				o := mkobj()
				if g.FileNameWithInfoHeader != o.FileNameWithInfoHeader || !bytes.Equal(g.Name, o.Name) {
					return eqErr("FileNameWithInfo.Write", g, o)
				}
				return nil
			}}
	},
	"infofork": func(t *rapid.T) c01case {
		obj, ri := genInfoFork(t)
		return c01case{kind: "infofork", want: ri.Encode(), varLen: len(ri.Name) + len(ri.Comment),
			mk: func() io.Reader { c := obj; return &c },
			decode: func(enc []byte) error {
				var g, g2 hotline.FlatFileInformationFork
				if _, err := g.Write(enc); err != nil {
					return err
				}
				if err := g2.UnmarshalBinary(enc); err != nil {
					return err
				}
				for _, x := range []*hotline.FlatFileInformationFork{&g, &g2} {
					if x.Platform != obj.Platform || x.TypeSignature != obj.TypeSignature || x.CreatorSignature != obj.CreatorSignature ||
						x.Flags != obj.Flags || x.PlatformFlags != obj.PlatformFlags || x.RSVD != obj.RSVD || x.CreateDate != obj.CreateDate ||
						x.ModifyDate != obj.ModifyDate || x.NameScript != obj.NameScript || !bytes.Equal(x.Name, obj.Name) ||
						!bytes.Equal(x.Comment, obj.Comment) || hlref.U16(x.NameSize[:]) != len(obj.Name) || hlref.U16(x.CommentSize[:]) != len(obj.Comment) {
						return eqErr("FlatFileInformationFork decode", x, obj)
					}
				}
				if hlref.U32(obj.DataSize()) != len(enc) {
					return fmt.Errorf("InfoFork.DataSize %d != encoded length %d", hlref.U32(obj.DataSize()), len(enc))
				}
				sz := obj.Size()
				if hlref.U32(sz[:]) != len(enc) {
					return fmt.Errorf("InfoFork.Size %d != encoded length %d", hlref.U32(sz[:]), len(enc))
				}
				return nil
			}}
	},
	"flatfile": func(t *rapid.T) c01case {
		obj, ri := genInfoFork(t)
		forks := rapid.SampledFrom([]int{2, 3}).Draw(t, "forks")
		dsz := rapid.Uint32().Draw(t, "datasize")
		rsz := uint32(0)
		if forks == 3 {
			rsz = uint32(rapid.IntRange(0, 1<<20).Draw(t, "rsrcsize"))
		}
		if dsz > 1<<30 {
			dsz >>= 3
		}
		mkobj := func() *hotline.VerifFlattenedFileObject {
			var o hotline.VerifFlattenedFileObject
			o.FlatFileHeader = hotline.FlatFileHeader{Format: [4]byte{'F', 'I', 'L', 'P'}, Version: [2]byte{0, 1}, ForkCount: [2]byte{0, byte(forks)}}
			o.FlatFileInformationFork = obj
			o.FlatFileInformationForkHeader = hotline.FlatFileForkHeader{ForkType: [4]byte{'I', 'N', 'F', 'O'}, DataSize: obj.Size()}
			o.FlatFileDataForkHeader = hotline.FlatFileForkHeader{ForkType: [4]byte{'D', 'A', 'T', 'A'}, DataSize: arr4(hlref.BE32(int(dsz)))}
			o.FlatFileResForkHeader = hotline.FlatFileForkHeader{ForkType: [4]byte{'M', 'A', 'C', 'R'}, DataSize: arr4(hlref.BE32(int(rsz)))}
			return &o
		}
		want := hlref.FlatHeader(forks, ri, int(dsz))
		off := int64(0)
		if dsz > 0 {
			off = int64(rapid.Uint32Range(0, dsz).Draw(t, "offset"))
		}
		return c01case{kind: "flatfile", want: want, varLen: len(ri.Name) + len(ri.Comment),
			mk: func() io.Reader { return mkobj() },
			decode: func(enc []byte) error {
				p, err := hlref.ParseFlatHeader(enc)
				if err != nil {
					return fmt.Errorf("reference parser rejects emitted header: %w", err)
				}
				if p.HeaderLen != len(enc) || p.InfoSize != len(ri.Encode()) || p.DataSize != int(dsz) {
					return fmt.Errorf("size prefixes inconsistent: header %d/%d info %d/%d", p.HeaderLen, len(enc), p.InfoSize, len(ri.Encode()))
				}
				var g hotline.VerifFlattenedFileObject
				if _, err := g.ReadFrom(bytes.NewReader(enc)); err != nil {
					return fmt.Errorf("ReadFrom: %w", err)
				}
				if !bytes.Equal(g.FlatFileInformationFork.Name, obj.Name) || !bytes.Equal(g.FlatFileInformationFork.Comment, obj.Comment) ||
					g.FlatFileInformationFork.TypeSignature != obj.TypeSignature || g.FlatFileHeader.ForkCount != [2]byte{0, byte(forks)} ||
					hlref.U32(g.FlatFileDataForkHeader.DataSize[:]) != int(dsz) || g.FlatFileInformationFork.ModifyDate != obj.ModifyDate {
					return eqErr("flattenedFileObject.ReadFrom", g, obj)
				}
				ts := hlref.U32(mkobj().TransferSize(off))
				if uint32(ts) != uint32(len(enc))+dsz+rsz-uint32(off) {
					return fmt.Errorf("TransferSize(%d) = %d, want header %d + data %d + rsrc %d - offset", off, ts, len(enc), dsz, rsz)
				}
				return nil
			}}
	},
	"resume": func(t *rapid.T) c01case {
		n := rapid.IntRange(0, 3).Draw(t, "nforks")
		var forks []hlref.ForkOffset
		var list []hotline.ForkInfoList
		for i := 0; i < n; i++ {
			k := genBytes(t, fmt.Sprintf("fork%d", i), 8)
			forks = append(forks, hlref.ForkOffset{Fork: arr4(k[0:4]), Offset: binary.BigEndian.Uint32(k[4:8])})
			list = append(list, hotline.ForkInfoList{Fork: arr4(k[0:4]), DataSize: arr4(k[4:8])})
		}
		want := hlref.EncodeResume(forks)
		return c01case{kind: "resume", want: want, varLen: n,
			mk: func() io.Reader { b, _ := hotline.NewFileResumeData(list).BinaryMarshal(); return bytes.NewReader(b) },
			decode: func(enc []byte) error {
				var g hotline.FileResumeData
				if err := g.UnmarshalBinary(enc); err != nil {
					return err
				}
				if g.Format != [4]byte{'R', 'F', 'L', 'T'} || g.Version != [2]byte{0, 1} || len(g.ForkInfoList) != n {
					return eqErr("FileResumeData.UnmarshalBinary", g, forks)
				}
				for i := range list {
					if g.ForkInfoList[i] != list[i] {
						return eqErr("FileResumeData fork", g.ForkInfoList[i], list[i])
					}
				}
				if n > 0 {
					fl := hotline.NewForkInfoList(list[0].DataSize[:])
					if fl.DataSize != list[0].DataSize || fl.Fork != [4]byte{'D', 'A', 'T', 'A'} {
						return eqErr("NewForkInfoList", fl, list[0])
					}
				}
				return nil
			}}
	},
	"fileheader": func(t *rapid.T) c01case {
		n := rapid.IntRange(1, 6).Draw(t, "nitems")
		var items [][]byte
		v := 0
		for i := 0; i < n; i++ {
			l := genSize(t, fmt.Sprintf("len%d", i), 255)
			b := genBytes(t, fmt.Sprintf("item%d", i), l)
			for j := range b {
				if b[j] == '/' {
					b[j] = '_'
				}
			}
			items = append(items, b)
			v += l
		}
		strs := make([]string, n)
		for i := range items {
			strs[i] = string(items[i])
		}
		p := strings.Join(strs, "/")
		isDir := rapid.Bool().Draw(t, "isdir")
		want := hlref.FolderItemHeader(isDir, items)
		return c01case{kind: "fileheader", want: want, varLen: v,
			mk: func() io.Reader { h := hotline.NewFileHeader(p, isDir); return &h },
			decode: func(enc []byte) error {
				if hlref.U16(enc[0:2]) != len(enc)-2 {
					return fmt.Errorf("FileHeader size prefix %d != bytes that follow %d", hlref.U16(enc[0:2]), len(enc)-2)
				}
				ep := hotline.EncodeFilePath(p)
				if !bytes.Equal(ep, hlref.EncodePath(items)) {
					return fmt.Errorf("EncodeFilePath differs from reference at %d", firstDiff(ep, hlref.EncodePath(items)))
				}
				var fp hotline.FilePath
				if _, err := fp.Write(ep); err != nil {
					return err
				}
				if int(fp.Len()) != n || len(fp.Items) != n {
					return eqErr("FilePath.Write item count", len(fp.Items), n)
				}
				for i := range items {
					if !bytes.Equal(fp.Items[i].Name, items[i]) || int(fp.Items[i].Len) != len(items[i]) {
						return eqErr(fmt.Sprintf("FilePath.Write item %d", i), hexs(fp.Items[i].Name), hexs(items[i]))
					}
				}
				return nil
			}}
	},
	"newsartlist": func(t *rapid.T) c01case {
		e, obj := genNewsArtEntry(t, "e")
		return c01case{kind: "newsartlist", want: e.Encode(), varLen: len(e.Title) + len(e.Poster),
			mk: func() io.Reader { c := obj; return &c }}
	},
	"newsartlistdata": func(t *rapid.T) c01case {
		n := rapid.IntRange(0, 5).Draw(t, "n")
		var entries []hlref.NewsArtListEntry
		var payload []byte
		v := 0
		for i := 0; i < n; i++ {
			e, _ := genNewsArtEntry(t, fmt.Sprintf("e%d", i))
			entries = append(entries, e)
			payload = append(payload, e.Encode()...)
			v += len(e.Title) + len(e.Poster)
		}
		id := genBytes(t, "id", 4)
		name := genBytes(t, "name", genSize(t, "namelen", 255))
		desc := genBytes(t, "desc", genSize(t, "desclen", 255))
		want := hlref.EncodeNewsArtList(arr4(id), name, desc, entries)
		return c01case{kind: "newsartlistdata", want: want, varLen: v + len(name) + len(desc),
			mk: func() io.Reader {
				return &hotline.NewsArtListData{ID: arr4(id), Name: name, Description: desc, NewsArtList: payload, Count: n}
			},
			decode: func(enc []byte) error {
				_, _, _, es, err := hlref.DecodeNewsArtList(enc)
				if err != nil {
					return err
				}
				if len(es) != n {
					return eqErr("article count", len(es), n)
				}
				return nil
			}}
	},
	"newscategory": func(t *rapid.T) c01case {
		name := genBytes(t, "name", genSize(t, "namelen", 255))
		kind := rapid.SampledFrom([]int{2, 3}).Draw(t, "kind")
		k := genBytes(t, "ids", 24)
		na := rapid.IntRange(0, 4).Draw(t, "narts")
		ns := rapid.IntRange(0, 4).Draw(t, "nsubs")
		rc := hlref.NewsCat{Kind: kind, Count: na + ns, Name: name}
		copy(rc.GUID[:], k[0:16])
		copy(rc.AddSN[:], k[16:20])
		copy(rc.DelSN[:], k[20:24])
		return c01case{kind: "newscategory", want: rc.Encode(), varLen: len(name),
			mk: func() io.Reader {
				c := &hotline.NewsCategoryListData15{Type: [2]byte{0, byte(kind)}, Name: string(name),
					Articles: map[uint32]*hotline.NewsArtData{}, SubCats: map[string]hotline.NewsCategoryListData15{}}
				copy(c.GUID[:], k[0:16])
				copy(c.AddSN[:], k[16:20])
				copy(c.DeleteSN[:], k[20:24])
				for i := 0; i < na; i++ {
					c.Articles[uint32(i+1)] = &hotline.NewsArtData{}
				}
				for i := 0; i < ns; i++ {
					c.SubCats[fmt.Sprint(i)] = hotline.NewsCategoryListData15{}
				}
				return c
			}}
	},
	"newscatlist": func(t *rapid.T) c01case {
		// A whole category turned into its article list (GetNewsArtListData): ordered by ID.
		n := rapid.IntRange(0, 6).Draw(t, "n")
		cat := hotline.NewsCategoryListData15{Type: hotline.NewsCategory, Articles: map[uint32]*hotline.NewsArtData{}}
		ids := rapid.SliceOfNDistinct(rapid.Uint32(), n, n, rapid.ID[uint32]).Draw(t, "ids")
		byID := map[uint32]hlref.NewsArtListEntry{}
		v := 0
		for _, id := range ids {
			e, _ := genNewsArtEntry(t, fmt.Sprintf("a%d", id))
			e.ID = id
			e.Flags = [4]byte{}
			body := genSize(t, fmt.Sprintf("b%d", id), 65535)
			e.BodySize = body
			byID[id] = e
			cat.Articles[id] = &hotline.NewsArtData{Title: string(e.Title), Poster: string(e.Poster), Date: e.Date,
				ParentArt: arr4(hlref.BE32(int(e.Parent))), Data: strings.Repeat("x", body)}
			v += len(e.Title) + len(e.Poster)
		}
		sorted := append([]uint32{}, ids...)
		for i := range sorted {
			for j := i + 1; j < len(sorted); j++ {
				if sorted[j] < sorted[i] {
					sorted[i], sorted[j] = sorted[j], sorted[i]
				}
			}
		}
		var es []hlref.NewsArtListEntry
		for _, id := range sorted {
			es = append(es, byID[id])
		}
		want := hlref.EncodeNewsArtList([4]byte{}, nil, nil, es)
		return c01case{kind: "newscatlist", want: want, varLen: v,
			mk: func() io.Reader { d := cat.GetNewsArtListData(); return &d },
			decode: func(enc []byte) error {
				_, _, _, got, err := hlref.DecodeNewsArtList(enc)
				if err != nil {
					return err
				}
				if len(got) != n {
					return eqErr("article count", len(got), n)
				}
				return nil
			}}
	},
	"tracker": func(t *rapid.T) c01case {
		k := genBytes(t, "k", 6)
		users := rapid.IntRange(0, 65535).Draw(t, "users")
		name := genBytes(t, "name", genSize(t, "namelen", 255))
		desc := genBytes(t, "desc", genSize(t, "desclen", 255))
		pass := genBytes(t, "pass", genSize(t, "passlen", 255))
		want := hlref.EncodeTrackerRegistration(hlref.U16(k[0:2]), users, arr4(k[2:6]), name, desc, pass)
		return c01case{kind: "tracker", want: want, varLen: len(name) + len(desc) + len(pass),
			mk: func() io.Reader {
				return &hotline.TrackerRegistration{Port: arr2(k[0:2]), UserCount: users, PassID: arr4(k[2:6]), Name: string(name), Description: string(desc), Password: string(pass)}
			}}
	},
	"date": func(t *rapid.T) c01case {
		year := rapid.IntRange(1904, 2100).Draw(t, "year")
		secs := rapid.Int64Range(0, 365*24*3600-1).Draw(t, "secs")
		ns := rapid.IntRange(0, 999000000).Draw(t, "ns") // sub-second part; the last millisecond is left out: float rounding of Sub().Seconds() there is not a layout question
		// the host's time zone: a Hotline date counts the seconds since the year began on the host's clock, so the same
		// wall-clock reading encodes to the same bytes in every zone (fixed offsets from -12:00 to +14:00 in quarter hours)
		zone := time.FixedZone("verif", 900*rapid.IntRange(-48, 56).Draw(t, "zoneQuarterHours"))
		tm := time.Date(year, 1, 1, 0, 0, 0, ns, zone).Add(time.Duration(secs) * time.Second)
		want := hlref.EncodeDate(year, 0, uint32(secs))
		return c01case{kind: "date", want: want[:], varLen: 1,
			mk: func() io.Reader {
				old := time.Local
				time.Local = zone
				defer func() { time.Local = old }()
				d := hotline.NewTime(tm)
				return bytes.NewReader(d[:])
			}}
	},
	"filelist": func(t *rapid.T) c01case {
		// The file-list records as the library builds them from a directory (GetFileNameList): every record must
		// be a strictly parseable file-name-with-info whose name-size prefix equals the Mac-Roman name that follows.
		n := rapid.IntRange(1, 5).Draw(t, "nfiles")
		dir, err := os.MkdirTemp(worldBase(), "c01list-")
		if err != nil {
			t.Fatalf("harness: %v", err)
		}
		defer os.RemoveAll(dir)
		want := map[string]int{}
		for i := 0; i < n; i++ {
			name := genFileName(t, fmt.Sprintf("fn%d", i))
			if _, dup := want[string(macRoman(name))]; dup {
				continue
			}
			if rapid.IntRange(0, 3).Draw(t, fmt.Sprintf("isdir%d", i)) == 0 {
				must(os.Mkdir(filepath.Join(dir, name), 0o755))
				want[string(macRoman(name))] = -1
				continue
			}
			sz := rapid.IntRange(0, 300).Draw(t, fmt.Sprintf("sz%d", i))
			must(os.WriteFile(filepath.Join(dir, name), make([]byte, sz), 0o644))
			want[string(macRoman(name))] = sz
		}
		fields, err := hotline.GetFileNameList(dir, []string{`^\.`})
		if err != nil {
			t.Fatalf("GetFileNameList: %v", err)
		}
		var all []byte
		got := map[string]int{}
		for _, f := range fields {
			rec, err := hlref.DecodeFileNameWithInfo(f.Data)
			if err != nil {
				t.Fatalf("file list record is not a well-formed file-name-with-info: %v (%x)", err, f.Data)
			}
			if string(rec.Type[:]) == "fldr" {
				got[string(rec.Name)] = -1
			} else {
				got[string(rec.Name)] = int(rec.Size)
			}
			all = append(all, f.Data...)
		}
		if fmt.Sprint(got) != fmt.Sprint(want) {
			t.Fatalf("file list records %v, directory holds %v", got, want)
		}
		v := 0
		for k := range want {
			v += len(k)
		}
		return c01case{kind: "filelist", want: all, varLen: v, mk: func() io.Reader { return bytes.NewReader(all) }}
	},
	"decoders": func(t *rapid.T) c01case {
		// Decode-only types: reference encodes, mobius decodes.
		var want []byte
		var dec func(enc []byte) error
		which := rapid.SampledFrom([]string{"handshake", "preamble", "serverrecord", "int", "newspath", "path"}).Draw(t, "which")
		v := 1
		switch which {
		case "handshake":
			good := rapid.Bool().Draw(t, "good")
			b := genBytes(t, "hs", 12)
			if good {
				copy(b, "TRTPHOTL")
			}
			want = b
			dec = func(enc []byte) error {
				var h hotline.VerifHandshake
				if n, err := h.Write(enc); err != nil || n != 12 {
					return fmt.Errorf("handshake.Write: %d %v", n, err)
				}
				if h.Protocol != arr4(b[0:4]) || h.SubProtocol != arr4(b[4:8]) || h.Version != arr2(b[8:10]) || h.SubVersion != arr2(b[10:12]) {
					return eqErr("handshake.Write", h, hexs(b))
				}
				if h.Valid() != (string(b[0:8]) == "TRTPHOTL") {
					return fmt.Errorf("handshake.Valid() = %v for %q", h.Valid(), b[0:8])
				}
				return nil
			}
		case "preamble":
			good := rapid.Bool().Draw(t, "good")
			b := genBytes(t, "pre", 16)
			if good {
				copy(b, "HTXF")
			}
			want = b
			dec = func(enc []byte) error {
				var x hotline.VerifTransfer
				_, err := x.Write(enc)
				if (err == nil) != (string(b[0:4]) == "HTXF") {
					return fmt.Errorf("transfer.Write err=%v for protocol %q", err, b[0:4])
				}
				if err == nil && (x.ReferenceNumber != arr4(b[4:8]) || x.DataSize != arr4(b[8:12]) || x.RSVD != arr4(b[12:16])) {
					return eqErr("transfer.Write", x, hexs(b))
				}
				return nil
			}
		case "serverrecord":
			k := genBytes(t, "k", 8)
			name := genBytes(t, "name", genSize(t, "namelen", 255))
			desc := genBytes(t, "desc", genSize(t, "desclen", 255))
			v = len(name) + len(desc)
			want = hlref.EncodeServerRecord(arr4(k[0:4]), hlref.U16(k[4:6]), hlref.U16(k[6:8]), name, desc)
			dec = func(enc []byte) error {
				if len(enc) < 13 {
					return nil // mobius documents a 13-byte minimum for a record
				}
				var s hotline.ServerRecord
				n, err := s.Write(enc)
				if err != nil {
					return err
				}
				if n != len(enc) || s.IPAddr != arr4(k[0:4]) || s.Port != arr2(k[4:6]) || s.NumUsers != arr2(k[6:8]) || !bytes.Equal(s.Name, name) || !bytes.Equal(s.Description, desc) {
					return eqErr("ServerRecord.Write", s, hexs(enc))
				}
				return nil
			}
		case "int":
			w := rapid.SampledFrom([]int{2, 4}).Draw(t, "w")
			b := genBytes(t, "v", w)
			want = b
			dec = func(enc []byte) error {
				f := hotline.NewField([2]byte{0, 1}, enc)
				got, err := f.DecodeInt()
				exp := hlref.U16(enc)
				if w == 4 {
					exp = hlref.U32(enc)
				}
				if err != nil || got != exp {
					return eqErr("DecodeInt", got, exp)
				}
				return nil
			}
		case "newspath", "path":
			n := rapid.IntRange(0, 5).Draw(t, "n")
			var items [][]byte
			var strs []string
			v = 0
			for i := 0; i < n; i++ {
				b := genBytes(t, fmt.Sprintf("i%d", i), genSize(t, fmt.Sprintf("l%d", i), 255))
				items = append(items, b)
				strs = append(strs, string(b))
				v += len(b)
			}
			want = hlref.EncodePath(items)
			if which == "newspath" {
				dec = func(enc []byte) error {
					f := hotline.NewField(hotline.FieldNewsPath, enc)
					got, err := f.DecodeNewsPath()
					if err != nil {
						return err
					}
					if len(got) != n {
						return eqErr("DecodeNewsPath count", len(got), n)
					}
					for i := range got {
						if got[i] != strs[i] {
							return eqErr(fmt.Sprintf("DecodeNewsPath item %d", i), hexs([]byte(got[i])), hexs(items[i]))
						}
					}
					return nil
				}
			} else {
				dec = func(enc []byte) error {
					var fp hotline.FilePath
					if _, err := fp.Write(enc); err != nil {
						return err
					}
					if len(fp.Items) != n || int(fp.Len()) != n {
						return eqErr("FilePath.Write count", len(fp.Items), n)
					}
					for i := range items {
						if !bytes.Equal(fp.Items[i].Name, items[i]) {
							return eqErr(fmt.Sprintf("FilePath.Write item %d", i), hexs(fp.Items[i].Name), hexs(items[i]))
						}
					}
					return nil
				}
			}
		}
		w := want
		return c01case{kind: "decode:" + which, want: w, varLen: v, mk: func() io.Reader { return bytes.NewReader(w) }, decode: dec}
	},
}

func genInfoFork(t *rapid.T) (hotline.FlatFileInformationFork, hlref.InfoFork) {
	k := genBytes(t, "info", 70)
	name := genBytes(t, "name", genSize(t, "namelen", 1024))
	comment := genBytes(t, "comment", genSize(t, "commentlen", 65535)) // a comment has a 2-byte length: with a long name the fork exceeds 65535 bytes
	var o hotline.FlatFileInformationFork
	o.Platform, o.TypeSignature, o.CreatorSignature, o.Flags, o.PlatformFlags = arr4(k[0:4]), arr4(k[4:8]), arr4(k[8:12]), arr4(k[12:16]), arr4(k[16:20])
	copy(o.RSVD[:], k[20:52])
	o.CreateDate, o.ModifyDate, o.NameScript = arr8(k[52:60]), arr8(k[60:68]), arr2(k[68:70])
	o.Name = name
	binary.BigEndian.PutUint16(o.NameSize[:], uint16(len(name)))
	_ = o.SetComment(comment)
	r := hlref.InfoFork{Platform: o.Platform, Type: o.TypeSignature, Creator: o.CreatorSignature, Flags: o.Flags, PlatformFlags: o.PlatformFlags,
		RSVD: o.RSVD, Create: o.CreateDate, Modify: o.ModifyDate, NameScript: hlref.U16(k[68:70]), Name: name, Comment: comment}
	return o, r
}

func genNewsArtEntry(t *rapid.T, label string) (hlref.NewsArtListEntry, hotline.NewsArtList) {
	k := genBytes(t, label+"_k", 22)
	title := genBytes(t, label+"_title", genSize(t, label+"_titlelen", 255))
	poster := genBytes(t, label+"_poster", genSize(t, label+"_posterlen", 255))
	e := hlref.NewsArtListEntry{ID: binary.BigEndian.Uint32(k[0:4]), Date: arr8(k[4:12]), Parent: binary.BigEndian.Uint32(k[12:16]),
		Flags: arr4(k[16:20]), Title: title, Poster: poster, BodySize: hlref.U16(k[20:22])}
	o := hotline.NewsArtList{ID: arr4(k[0:4]), TimeStamp: arr8(k[4:12]), ParentID: arr4(k[12:16]), Flags: arr4(k[16:20]),
		Title: title, Poster: poster, ArticleSize: arr2(k[20:22])}
	return e, o
}

var c01kinds = []string{"field", "transaction", "user", "account", "filenamewithinfo", "infofork", "flatfile", "resume", "fileheader",
	"newsartlist", "newsartlistdata", "newscategory", "newscatlist", "tracker", "date", "decoders", "filelist"}

func c01prop(ev *evid.Rec) func(t *rapid.T) {
	return func(t *rapid.T) {
		kind := rapid.SampledFrom(c01kinds).Draw(t, "kind")
		c := c01gens[kind](t)
		// Encoders rebuild their whole encoding on every Read call, so draining n bytes through
		// b-byte buffers copies n*n/b bytes: bound that at ~2 MiB per case (harness limit).
		if m := len(c.want)*len(c.want)/(2<<20) + 1; m > c.minBuf {
			c.minBuf = m
		}
		script := genScript(t, len(c.want), c.minBuf)
		got, reads, err := drain(c.mk(), script, len(c.want))
		if err != nil {
			t.Fatalf("%s: drain with script %v: %v", c.kind, script, err)
		}
		if !bytes.Equal(got, c.want) {
			t.Fatalf("%s: drained with script %v (%d reads): %d bytes, reference %d bytes, first difference at %d\n got  %s\n want %s",
				c.kind, script, reads, len(got), len(c.want), firstDiff(got, c.want), hexs(got), hexs(c.want))
		}
		// a second, differently drained copy must give the same bytes (emission independent of buffers)
		got2, _, err := drain(c.mk(), []int{len(c.want) + 1}, len(c.want))
		if err != nil || !bytes.Equal(got2, c.want) {
			t.Fatalf("%s: single-buffer drain differs: err %v, %d bytes vs %d", c.kind, err, len(got2), len(c.want))
		}
		if c.decode != nil {
			if err := c.decode(c.want); err != nil {
				t.Fatalf("%s: %v (encoding %s)", c.kind, err, hexs(c.want))
			}
		}
		multi := reads > 2
		nt := c.varLen > 0 && multi
		lab := "single-read"
		if multi {
			lab = "multi-read"
		}
		ev.Case(evid.Hash(c.kind, c.want, fmt.Sprint(script)), nt, "kind:"+c.kind, lab)
		if ev.WantSample() && nt {
			ev.Sample(map[string]any{"kind": c.kind, "encoding_len": len(c.want), "encoding_head": hexs(c.want), "drain_script": script, "reads": reads})
		}
	}
}

func TestC01(t *testing.T) {
	ev := evid.New("C01", "TestC01")
	defer ev.Flush()
	rapid.Check(t, c01prop(ev))
}

func FuzzC01(f *testing.F) {
	ev := evid.New("C01", "FuzzC01")
	f.Fuzz(rapid.MakeFuzz(c01prop(ev)))
}

// FuzzC01Decode: coverage-guided differential decoding.  Any byte string the strict
// reference parser accepts as a transaction / path / info fork must decode to the same
// value in mobius (and re-encode to the same bytes).
func FuzzC01Decode(f *testing.F) {
	f.Add(hlref.Tran{Type: 107, ID: 1, Fields: []hlref.Field{hlref.F(105, []byte("abc")), hlref.F(106, nil)}}.Encode())
	f.Add(hlref.EncodePath([][]byte{[]byte("a"), []byte("bb")}))
	f.Add(hlref.InfoFork{Name: []byte("n"), Comment: []byte("c")}.Encode())
	f.Add(hlref.EncodeResume([]hlref.ForkOffset{{Fork: [4]byte{'D', 'A', 'T', 'A'}, Offset: 7}}))
	f.Fuzz(func(t *testing.T, data []byte) {
		if len(data) > 70000 {
			return
		}
		if rt, n, err := hlref.DecodeTran(data); err == nil && n == len(data) {
			var g hotline.Transaction
			if _, err := g.Write(data); err != nil {
				t.Fatalf("reference accepts the transaction, mobius rejects it: %v (%x)", err, data)
			}
			if len(g.Fields) != len(rt.Fields) || int(binary.BigEndian.Uint16(g.Type[:])) != rt.Type || binary.BigEndian.Uint32(g.ID[:]) != rt.ID {
				t.Fatalf("decoded transaction differs from the reference: %d fields vs %d", len(g.Fields), len(rt.Fields))
			}
			for i := range g.Fields {
				if int(binary.BigEndian.Uint16(g.Fields[i].Type[:])) != rt.Fields[i].ID || !bytes.Equal(g.Fields[i].Data, rt.Fields[i].Data) {
					t.Fatalf("field %d differs from the reference", i)
				}
			}
			b, _ := io.ReadAll(&g)
			if !bytes.Equal(b, data) {
				t.Fatalf("decode -> encode is not the identity at byte %d", firstDiff(b, data))
			}
		}
		if items, err := hlref.DecodePath(data); err == nil {
			var fp hotline.FilePath
			if _, err := fp.Write(data); err != nil {
				t.Fatalf("reference accepts the path, mobius rejects it: %v (%x)", err, data)
			}
			if len(fp.Items) != len(items) {
				t.Fatalf("path decoded into %d items, reference %d (%x)", len(fp.Items), len(items), data)
			}
			for i := range items {
				if !bytes.Equal(fp.Items[i].Name, items[i]) {
					t.Fatalf("path item %d differs (%x)", i, data)
				}
			}
		}
		if inf, err := hlref.DecodeInfoFork(data); err == nil {
			var g hotline.FlatFileInformationFork
			if err := g.UnmarshalBinary(data); err != nil {
				t.Fatalf("reference accepts the info fork, mobius rejects it: %v", err)
			}
			if !bytes.Equal(g.Name, inf.Name) || !bytes.Equal(g.Comment, inf.Comment) || g.TypeSignature != inf.Type {
				t.Fatalf("info fork decoded differently (%x)", data)
			}
		}
		if forks, err := hlref.DecodeResume(data); err == nil {
			var g hotline.FileResumeData
			if err := g.UnmarshalBinary(data); err != nil {
				t.Fatalf("reference accepts the resume data, mobius rejects it: %v", err)
			}
			if len(forks) < 256 && len(g.ForkInfoList) != len(forks) {
				t.Fatalf("resume data decoded into %d forks, reference %d", len(g.ForkInfoList), len(forks))
			}
		}
	})
}
