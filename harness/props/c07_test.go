package props

// C07 — all filesystem effects stay inside the file root / accounts directory.

import (
	"bytes"
	"fmt"
	"os"
	"path/filepath"
	"strings"
	"testing"

	"pgregory.net/rapid"

	"verif/harness/evid"
	"verif/harness/hlref"
	"verif/harness/hlsim"
)

var c07Tokens = []string{"..", ".", "", "/", "//", "/etc", "../x", "..\x00", "a/../../b", "/abs", "trail/", "../../..", "..\\..", "....", "../Files-evil", "../Users", "../../canary.txt",
	"Files-evil", "Users.bak", "canary.txt", "canary.yaml", "../canary", "../../evil", "..\xca", "\x8e..", strings.Repeat("A", 253), strings.Repeat("B", 254), strings.Repeat("C", 255), "../" + strings.Repeat("d", 250)}
var c07Benign = []string{"f.txt", "dir", "inner.txt", "other", "Uploads", "new", "x y", "caf\x8e"}

var c07Markers = []string{"MARKER-S-CANARY-7f3a", "MARKER-CFG-CANARY-91bc", "MARKER-EVIL-SECRET-c2d1", "MARKER-USERSBAK-5e5e", "MARKER-BOARD-aa10", "MARKER-ALT-OUTSIDE-0b0b"}
var c07DecoyNames = []string{"outside-alt.txt", "canary.txt", "canary.yaml", "Files-evil", "Users.bak", "secret-evil.txt", "Users", "MessageBoard.txt", "Banlist.yaml", "ThreadedNews.yaml", "Agreement.txt", "cfg"}

func c07Item(rt *rapid.T, label string) (string, bool) {
	if rapid.IntRange(0, 9).Draw(rt, label+"_k") < 6 {
		return rapid.SampledFrom(c07Tokens).Draw(rt, label), true
	}
	return rapid.SampledFrom(c07Benign).Draw(rt, label), false
}

// c07Path draws an encoded path field (nil = absent) and reports whether it carries a
// traversal token.  Some encodings are deliberately inconsistent (count / length bytes).
func c07Path(rt *rapid.T, label string) ([]byte, bool, string) {
	n := rapid.IntRange(0, 4).Draw(rt, label+"_n")
	if n == 0 && rapid.Bool().Draw(rt, label+"_absent") {
		return nil, false, "<absent>"
	}
	hostile := false
	var items [][]byte
	var desc []string
	for i := 0; i < n; i++ {
		s, h := c07Item(rt, fmt.Sprintf("%s_%d", label, i))
		hostile = hostile || h
		items = append(items, []byte(s))
		desc = append(desc, fmt.Sprintf("%q", s))
	}
	enc := hlref.EncodePath(items)
	switch rapid.IntRange(0, 11).Draw(rt, label+"_mangle") {
	case 0: // count larger than the items present
		copy(enc[0:2], hlref.BE16(n+rapid.IntRange(1, 3).Draw(rt, label+"_extra")))
		desc = append(desc, "<count+>")
		hostile = true
	case 1: // truncated
		if len(enc) > 2 {
			enc = enc[:rapid.IntRange(2, len(enc)-1).Draw(rt, label+"_cut")]
			desc = append(desc, "<truncated>")
			hostile = true
		}
	case 2: // a length byte that claims more than is there
		if len(enc) > 5 && enc[4] < 255 {
			enc[4] = byte(rapid.IntRange(int(enc[4])+1, 255).Draw(rt, label+"_len"))
			desc = append(desc, "<len+>")
			hostile = true
		}
	}
	return enc, hostile, "[" + strings.Join(desc, ",") + "]"
}

type c07req struct {
	kind    string
	desc    string
	hostile bool
}

func c07prop(ev *evid.Rec) func(rt *rapid.T) {
	return func(rt *rapid.T) {
		altRoot := rapid.IntRange(0, 3).Draw(rt, "altroot") == 0
		altEdited := rapid.Bool().Draw(rt, "altAccountEditedThenRestart")
		// the folder an account is rooted in may be gone when the account is used (somebody with a wider root renamed it):
		// the account then has no files at all - it is not let into the server's tree instead
		altGone := rapid.IntRange(0, 2).Draw(rt, "altRootRenamedAway") == 0
		nreq := rapid.IntRange(1, 3).Draw(rt, "nreq")
		var done []c07req
		reached := false
		opt := hlsim.Options{Agreement: "a", Board: "MARKER-BOARD-aa10", PreserveResourceForks: rapid.Bool().Draw(rt, "forks")}
		// the accounts need the sandbox path for FileRoot, so the world is built in two steps below
		opt.Accounts = []hlsim.AccountSpec{acct("admin", "Admin", "adminpw", allAccess), acct("spare", "Spare", "sparepw", hlref.Access{})}
		inWorld(rt, opt, func(rt *rapid.T, w *hlsim.World) {
			S := w.Sandbox
			root := w.FileRoot
			if altRoot {
				root = filepath.Join(w.Cfg, "altroot")
				must(os.MkdirAll(root, 0o755))
				must(os.WriteFile(filepath.Join(w.UsersDir, "alt.yaml"), hlsim.AccountYAML(hlsim.AccountSpec{Login: "alt", Name: "Alt", Password: "altpw", Access: allAccess, FileRoot: root}), 0o644))
				must(os.WriteFile(filepath.Join(w.FileRoot, "outside-alt.txt"), []byte("MARKER-ALT-OUTSIDE-0b0b"), 0o644))
			}
			for _, d := range []string{"dir", "other", "Uploads"} {
				must(os.MkdirAll(filepath.Join(root, d), 0o755))
			}
			must(os.WriteFile(filepath.Join(root, "f.txt"), []byte("legit file"), 0o644))
			must(os.WriteFile(filepath.Join(root, "dir", "inner.txt"), []byte("legit inner"), 0o644))
			// what would be the side files of the root folder itself live next to it, i.e. outside it
			for _, sf := range []string{".info_" + filepath.Base(root), ".rsrc_" + filepath.Base(root), filepath.Base(root) + ".incomplete"} {
				must(os.WriteFile(filepath.Join(filepath.Dir(root), sf), []byte("MARKER-ROOT-SIDEFILE-44aa "+sf), 0o644))
			}
			must(os.MkdirAll(filepath.Join(w.Cfg, "Files-evil"), 0o755))
			must(os.MkdirAll(filepath.Join(w.Cfg, "Users.bak"), 0o755))
			must(os.WriteFile(filepath.Join(S, "canary.txt"), []byte("MARKER-S-CANARY-7f3a"), 0o644))
			must(os.WriteFile(filepath.Join(w.Cfg, "canary.yaml"), []byte("Login: canary\nName: MARKER-CFG-CANARY-91bc\nPassword: x\nAccess:\n    DownloadFile: true\n"), 0o644))
			must(os.WriteFile(filepath.Join(w.Cfg, "Files-evil", "secret-evil.txt"), []byte("MARKER-EVIL-SECRET-c2d1"), 0o644))
			must(os.WriteFile(filepath.Join(w.Cfg, "Users.bak", "old.yaml"), []byte("Login: old\nName: MARKER-USERSBAK-5e5e\n"), 0o644))
			if altRoot {
				if err := w.Restart(); err != nil {
					rt.Fatalf("harness: restart: %v", err)
				}
			}
			if altRoot && altEdited {
				// an administrator edits the account through the protocol (the server rewrites its file) and the server is
				// restarted: the account is still confined to the root the operator gave it
				adm := loginAs(rt, w, "10.7.9.9:1", "admin", "adminpw", "admin")
				aa := allAccess
				if r := adm.Request(hlref.TranSetUser, fld(hlref.FUserLogin, hlref.Obfuscate([]byte("alt"))), sfld(hlref.FUserName, "Alt edited"), fld(hlref.FUserAccess, aa[:]), fld(hlref.FUserPassword, []byte{0})); !okReply(r) {
					rt.Fatalf("harness: set-user refused: %s", replySummary(r))
				}
				if err := w.Restart(); err != nil {
					rt.Fatalf("harness: restart: %v", err)
				}
			}
			login, pw := "admin", "adminpw"
			if altRoot {
				login, pw = "alt", "altpw"
				if altGone {
					must(os.Rename(root, root+" renamed away"))
				}
			}
			relRoot, _ := filepath.Rel(S, root)
			relUsers, _ := filepath.Rel(S, w.UsersDir)
			addr := 0
			var req *hlsim.Conn
			connect := func() {
				addr++
				req = loginAs(rt, w, fmt.Sprintf("10.7.0.%d:7", addr), login, pw, "req")
			}
			connect()
			var rxAll [][]byte
			note := func(b []byte) { rxAll = append(rxAll, b) }
			request := func(typ int, fs ...hlref.Field) *hlref.Tran {
				if done, _ := req.ServerDone(); done {
					connect()
				}
				r := req.Request(typ, fs...)
				if r != nil {
					reached = true
					note(r.Encode())
				}
				for _, t := range req.TakeInbox() {
					note(t.Encode())
				}
				return r
			}
			nameField := func(label string) (hlref.Field, bool, string) {
				s, h := c07Item(rt, label)
				return sfld(hlref.FFileName, s), h, fmt.Sprintf("%q", s)
			}
			for i := 0; i < nreq; i++ {
				kind := rapid.SampledFrom([]string{"list", "info", "comment", "rename", "delete", "move", "newfolder", "alias", "alias-then-move", "download", "upload", "folder-download", "folder-upload",
					"new-user", "set-user", "update-create", "update-rename", "update-delete", "delete-user", "get-user", "login"}).Draw(rt, fmt.Sprintf("kind%d", i))
				L := func(s string) string { return fmt.Sprintf("%s%d", s, i) }
				fileReq := true
				before := hlsim.Snap(S)
				rq := c07req{kind: kind}
				switch kind {
				case "list":
					p, h, d := c07Path(rt, L("p"))
					rq.hostile, rq.desc = h, d
					fs := []hlref.Field{}
					if p != nil {
						fs = append(fs, fld(hlref.FFilePath, p))
					}
					r := request(hlref.TranGetFileNameList, fs...)
					if okReply(r) {
						// names listed must be entries of a directory inside the root
						for _, dta := range r.GetAll(hlref.FFileNameWithInfo) {
							f, err := hlref.DecodeFileNameWithInfo(dta)
							if err != nil {
								continue
							}
							for _, dn := range c07DecoyNames {
								if string(f.Name) == dn && !nameExistsUnder(root, dn) {
									rt.Fatalf("file list for path %s shows %q, an entry outside the file root", d, dn)
								}
							}
						}
					}
				case "info", "comment", "rename", "delete", "download", "upload", "folder-download", "folder-upload", "newfolder":
					nf, h1, d1 := nameField(L("name"))
					p, h2, d2 := c07Path(rt, L("p"))
					rq.hostile, rq.desc = h1 || h2, "name="+d1+" path="+d2
					fs := []hlref.Field{nf}
					if p != nil {
						fs = append(fs, fld(hlref.FFilePath, p))
					}
					switch kind {
					case "info":
						request(hlref.TranGetFileInfo, fs...)
					case "comment":
						request(hlref.TranSetFileInfo, append(fs, sfld(hlref.FFileComment, "cmt"))...)
					case "rename":
						nn, h3 := c07Item(rt, L("newname"))
						rq.hostile = rq.hostile || h3
						rq.desc += fmt.Sprintf(" newname=%q", nn)
						request(hlref.TranSetFileInfo, append(fs, sfld(hlref.FFileNewName, nn))...)
					case "delete":
						request(hlref.TranDeleteFile, fs...)
					case "newfolder":
						request(hlref.TranNewFolder, fs...)
					case "download":
						r := request(hlref.TranDownloadFile, fs...)
						if ref, ok := r.Get(hlref.FRefNum); okReply(r) && ok {
							rx, _ := w.Transfer("10.7.1.1:9", ref, 0, nil, -1)
							note(rx)
						}
					case "folder-download":
						r := request(hlref.TranDownloadFldr, fs...)
						if ref, ok := r.Get(hlref.FRefNum); okReply(r) && ok {
							items, left, _ := w.FolderDownload("10.7.1.1:9", ref, func([]string, bool) (int, int) { return 1, 0 }, 40)
							for _, it := range items {
								note([]byte(strings.Join(it.Path, "\x00")))
								note(it.Data)
							}
							note(left)
						}
					case "upload":
						r := request(hlref.TranUploadFile, append(fs, fld(hlref.FTransferSize, hlref.BE32(200)))...)
						if ref, ok := r.Get(hlref.FRefNum); okReply(r) && ok {
							un, h3 := c07Item(rt, L("streamname"))
							rq.hostile = rq.hostile || h3
							rx, _ := w.Transfer("10.7.1.1:9", ref, 200, hlsim.UploadStream([]byte(un), []byte("c"), []byte("uploaded-bytes"), []byte("rsrc"), 3), -1)
							note(rx)
						}
					case "folder-upload":
						n := rapid.IntRange(1, 4).Draw(rt, L("nitems"))
						var items []hlsim.UploadItem
						for k := 0; k < n; k++ {
							np := rapid.IntRange(1, 3).Draw(rt, fmt.Sprintf("np%d_%d", i, k))
							var it hlsim.UploadItem
							for q := 0; q < np; q++ {
								s, h := c07Item(rt, fmt.Sprintf("it%d_%d_%d", i, k, q))
								rq.hostile = rq.hostile || h
								it.Path = append(it.Path, []byte(s))
								rq.desc += fmt.Sprintf(" item%d/%q", k, s)
							}
							it.IsDir = rapid.Bool().Draw(rt, fmt.Sprintf("isdir%d_%d", i, k))
							it.Data = []byte("folder-upload-bytes")
							items = append(items, it)
						}
						// an earlier upload of the same folder may have been cut: inside the destination folder lie partial files
						// exactly where the server will look for these items, so that it asks the client to resume them
						if rapid.IntRange(0, 2).Draw(rt, L("leftovers")) == 0 && !altGone {
							fs = []hlref.Field{sfld(hlref.FFileName, "up")}
							rq.desc += " (into the folder up, which holds the partial files of a cut earlier upload)"
							for _, it := range items {
								if it.IsDir {
									continue
								}
								parts := []string{"/"}
								for _, p := range it.Path {
									parts = append(parts, string(p))
								}
								rel := filepath.Join(parts...)
								if rel == "/" || strings.ContainsRune(rel, 0) {
									continue
								}
								pf := filepath.Join(root, "up", rel) + ".incomplete"
								if len(filepath.Base(pf)) > 255 || os.MkdirAll(filepath.Dir(pf), 0o755) != nil {
									continue
								}
								_ = os.WriteFile(pf, []byte("folder-"), 0o644)
							}
						}
						r := request(hlref.TranUploadFldr, append(fs, fld(hlref.FTransferSize, hlref.BE32(100)), fld(hlref.FFolderItemCount, hlref.BE16(n)))...)
						if ref, ok := r.Get(hlref.FRefNum); okReply(r) && ok {
							_, _ = w.FolderUpload("10.7.1.1:9", ref, items)
						}
					}
				case "alias-then-move":
					// two well-formed requests and a use: an alias of a file one level down is made in another folder, then moved
					// up to the root; wherever it ends up it still names something inside the root
					rq.desc = "alias of dir/inner.txt made in other, then moved to the root, then downloaded"
					request(hlref.TranMakeFileAlias, sfld(hlref.FFileName, "inner.txt"), fld(hlref.FFilePath, p1("dir")), fld(hlref.FFileNewPath, p1("other")))
					request(hlref.TranMoveFile, sfld(hlref.FFileName, "inner.txt"), fld(hlref.FFilePath, p1("other")))
					request(hlref.TranGetFileNameList)
					if r := request(hlref.TranDownloadFile, sfld(hlref.FFileName, "inner.txt")); r != nil {
						if ref, ok := r.Get(hlref.FRefNum); okReply(r) && ok {
							rx, _ := w.Transfer("10.7.1.1:9", ref, 0, nil, -1)
							note(rx)
						}
					}
				case "move", "alias":
					nf, h1, d1 := nameField(L("name"))
					p, h2, d2 := c07Path(rt, L("p"))
					np, h3, d3 := c07Path(rt, L("np"))
					rq.hostile, rq.desc = h1 || h2 || h3, "name="+d1+" path="+d2+" newpath="+d3
					fs := []hlref.Field{nf}
					if p != nil {
						fs = append(fs, fld(hlref.FFilePath, p))
					}
					if np != nil {
						fs = append(fs, fld(hlref.FFileNewPath, np))
					}
					if kind == "move" {
						request(hlref.TranMoveFile, fs...)
					} else {
						request(hlref.TranMakeFileAlias, fs...)
					}
				default: // account requests
					fileReq = false
					l1, h1 := c07Item(rt, L("login"))
					if !h1 && rapid.Bool().Draw(rt, L("usespare")) {
						l1 = "spare"
					}
					rq.hostile, rq.desc = h1, fmt.Sprintf("login=%q", l1)
					ob := hlref.Obfuscate([]byte(l1))
					switch kind {
					case "new-user":
						request(hlref.TranNewUser, fld(hlref.FUserLogin, ob), sfld(hlref.FUserName, "n"), fld(hlref.FUserPassword, hlref.Obfuscate([]byte("p"))), fld(hlref.FUserAccess, zeroAccess))
					case "set-user":
						request(hlref.TranSetUser, fld(hlref.FUserLogin, ob), sfld(hlref.FUserName, "n2"), fld(hlref.FUserAccess, zeroAccess), fld(hlref.FUserPassword, []byte{0}))
					case "update-create":
						request(hlref.TranUpdateUser, fld(hlref.FData, subFields(fld(hlref.FUserLogin, ob), sfld(hlref.FUserName, "n"), fld(hlref.FUserPassword, hlref.Obfuscate([]byte("p"))), fld(hlref.FUserAccess, zeroAccess))))
					case "update-rename":
						l2, h2 := c07Item(rt, L("newlogin"))
						rq.hostile = rq.hostile || h2
						rq.desc += fmt.Sprintf(" newlogin=%q", l2)
						request(hlref.TranUpdateUser, fld(hlref.FData, subFields(fld(hlref.FData, ob), fld(hlref.FUserLogin, hlref.Obfuscate([]byte(l2))), sfld(hlref.FUserName, "n"), fld(hlref.FUserPassword, []byte{0}), fld(hlref.FUserAccess, zeroAccess))))
					case "update-delete":
						request(hlref.TranUpdateUser, fld(hlref.FData, subFields(fld(hlref.FData, ob))))
					case "delete-user":
						request(hlref.TranDeleteUser, fld(hlref.FUserLogin, ob))
					case "get-user":
						request(hlref.TranGetUser, sfld(hlref.FUserLogin, l1))
					case "login":
						addr++
						c := w.Connect(fmt.Sprintf("10.7.2.%d:7", addr))
						if c.Handshake() {
							c.Request(hlref.TranLogin, fld(hlref.FUserLogin, ob), fld(hlref.FUserPassword, hlref.Obfuscate([]byte("x"))))
							reached = true
						}
						note(c.Bytes())
						c.Close()
					}
				}
				settle(0)
				after := hlsim.Snap(S)
				legit := relRoot
				if !fileReq {
					legit = relUsers
				}
				if d := before.Without(legit, false).Diff(after.Without(legit, false)); len(d) != 0 {
					rt.Fatalf("%s request (%s) changed the filesystem outside %s: %v", kind, rq.desc, legit, d)
				}
				// no symlink inside the root may point outside it
				for rel, e := range after {
					if e.Kind == "link" && (rel == relRoot || strings.HasPrefix(rel, relRoot+"/")) {
						tgt := e.Target
						if !filepath.IsAbs(tgt) {
							tgt = filepath.Join(S, filepath.Dir(rel), tgt)
						}
						tgt = filepath.Clean(tgt)
						if tgt != root && !strings.HasPrefix(tgt, root+"/") {
							rt.Fatalf("%s request (%s) created alias %s -> %s which points outside the file root", kind, rq.desc, rel, e.Target)
						}
					}
				}
				for _, b := range rxAll {
					for _, m := range c07Markers {
						if bytes.Contains(b, []byte(m)) {
							rt.Fatalf("%s request (%s) disclosed content from outside the roots (%s)", kind, rq.desc, m)
						}
					}
				}
				done = append(done, rq)
			}
		})
		hostile := false
		var ds []string
		labels := []string{}
		for _, r := range done {
			hostile = hostile || r.hostile
			ds = append(ds, r.kind+" "+r.desc)
			labels = append(labels, "req:"+r.kind)
		}
		if altRoot {
			labels = append(labels, "per-account-root")
		}
		ev.Case(evid.Hash(strings.Join(ds, "|"), altRoot), hostile && reached, labels...)
		if hostile && reached && ev.WantSample() {
			ev.Sample(map[string]any{"requests": ds, "per_account_file_root": altRoot})
		}
	}
}

func nameExistsUnder(root, name string) bool {
	found := false
	_ = filepath.Walk(root, func(p string, info os.FileInfo, err error) error {
		if err == nil && info.Name() == name {
			found = true
		}
		return nil
	})
	return found
}

func must(err error) {
	if err != nil {
		panic("harness: " + err.Error())
	}
}

func TestC07(t *testing.T) {
	ev := evid.New("C07", "TestC07")
	defer ev.Flush()
	rapid.Check(t, c07prop(ev))
}

func FuzzC07(f *testing.F) {
	ev := evid.New("C07", "FuzzC07")
	f.Fuzz(rapid.MakeFuzz(c07prop(ev)))
}
