package props

// C14 with the production outbox pump (outside the bubble, real scheduler): one logged-in peer
// stops reading while another user says thousands of lines in the public chat, so that thousands
// of transactions are in flight towards the peer that does not read.  Everybody else goes on
// receiving every line and getting every reply.

import (
	"fmt"
	"os"
	"testing"
	"time"

	"verif/harness/evid"
	"verif/harness/hlref"
	"verif/harness/hlsim"
)

func TestC14LiveStalled(t *testing.T) {
	ev := evid.New("C14", "TestC14LiveStalled")
	defer ev.Flush()
	prev := hlsim.Quiesce
	hlsim.Quiesce = hlsim.LiveQuiesce
	defer func() { hlsim.Quiesce = prev }()
	seed := uint64(1)
	fmt.Sscan(os.Getenv("VERIF_SEED"), &seed)
	sh, _ := shardInfo()
	lines := []int{6000, 4200, 9000, 5000}[(seed+uint64(sh))%4]
	p := c14plan{NClients: 4, Board: 1000}
	opt := c14options(p)
	opt.ProductionPump = true
	w, err := hlsim.New(worldBase(), opt)
	if err != nil {
		t.Fatalf("harness: %v", err)
	}
	defer w.Remove()
	c14fixture(w)
	w.Start()
	var cs []*hlsim.Conn
	for i := 0; i < p.NClients; i++ {
		c := w.Connect(fmt.Sprintf("10.14.3.%d:1", i+1))
		if c.Login(hlsim.LoginOpts{Login: "admin", Password: "adminpw", Name: []byte(fmt.Sprintf("c%d", i)), Icon: 1}) == nil {
			t.Fatalf("VERIF-INCONCLUSIVE live login failed (%s)", hlsim.LiveStuck)
		}
		cs = append(cs, c)
	}
	hlsim.Quiesce()
	for _, c := range cs {
		c.TakeInbox()
	}
	stalled, active := cs[3], cs[:3]
	stalled.SetSlow(1, 1000*time.Hour) // reads one more byte, then nothing until the connection is closed
	for i := 0; i < lines; i++ {
		active[0].SendAsync(hlref.Tran{Type: hlref.TranChatSend, ID: active[0].NewID(), Fields: []hlref.Field{sfld(hlref.FData, fmt.Sprintf("line %d", i))}}.Encode())
	}
	hlsim.LiveStuck = ""
	hlsim.Quiesce()
	if hlsim.LiveStuck != "" {
		t.Fatalf("VERIF-INCONCLUSIVE the live world did not come to rest after %d chat lines (%s)", lines, hlsim.LiveStuck)
	}
	for k, c := range active {
		for _, typ := range []int{hlref.TranKeepAlive, hlref.TranGetUserNameList} {
			if r := c.Request(typ); r == nil || r.IsReply != 1 {
				t.Fatalf("VERIF-VIOLATION C14 one logged-in peer does not read while %d chat lines are in flight towards it: request type %d of active client %d got no reply", lines, typ, k)
			}
		}
		got := 0
		for _, tr := range c.TakeInbox() {
			if tr.Type == hlref.TranChatMsg {
				got++
			}
		}
		if c.Bad != nil || got != lines {
			t.Fatalf("VERIF-VIOLATION C14 one logged-in peer does not read: active client %d received %d of the %d chat lines said meanwhile (stream error: %v)", k, got, lines, c.Bad)
		}
	}
	ev.Case(evid.Hash("livestalled", lines, seed), lines > 4096, fmt.Sprintf("lines:%d", lines))
	ev.Sample(map[string]any{"engine": "live, production pump", "chat_lines_in_flight_towards_the_peer_that_does_not_read": lines})
	w.Stop()
}
