package props

// C16 — a privilege bit means the same on the wire, in memory and on disk.

import (
	"bytes"
	"fmt"
	"os"
	"path/filepath"
	"strconv"
	"strings"
	"testing"

	"github.com/jhalter/mobius/hotline"
	"github.com/jhalter/mobius/verifhooks"
	"gopkg.in/yaml.v3"
	"pgregory.net/rapid"

	"verif/harness/evid"
	"verif/harness/hlref"
	"verif/harness/hlsim"
)

func definedSet(a hlref.Access) []int {
	var out []int
	for _, i := range hlref.DefinedPrivs {
		if a.Has(i) {
			out = append(out, i)
		}
	}
	return out
}

func legacyYAML(login string, a hlref.Access) []byte {
	parts := make([]string, 8)
	for i, b := range a {
		parts[i] = strconv.Itoa(int(b))
	}
	return []byte(fmt.Sprintf("Login: %s\nName: Legacy %s\nPassword: %q\nAccess: [%s]\n", login, login, hlsim.HashPassword("pw"), strings.Join(parts, ", ")))
}

// c16Storage checks (a) named form written by mobius, (b) load of that form, (c) legacy
// array form, for one bitmap.
func c16Storage(bits hlref.Access) error {
	acc := hotline.Account{Login: "u", Name: "U", Password: "h", Access: hotline.AccessBitmap(bits)}
	out, err := yaml.Marshal(acc)
	if err != nil {
		return fmt.Errorf("marshal: %w", err)
	}
	var generic struct {
		Access map[string]any `yaml:"Access"`
	}
	if err := yaml.Unmarshal(out, &generic); err != nil {
		return fmt.Errorf("generic parse of written file: %w", err)
	}
	for i, name := range hlref.PrivilegeNames {
		v, ok := generic.Access[name]
		if !ok {
			return fmt.Errorf("written account file lacks key %q (privilege %d)", name, i)
		}
		b, isBool := v.(bool)
		if !isBool || b != bits.Has(i) {
			return fmt.Errorf("written account file: %s=%v but privilege %d set=%v (bitmap %x)", name, v, i, bits.Has(i), bits[:])
		}
	}
	for k, v := range generic.Access {
		if b, _ := v.(bool); b {
			found := false
			for _, n := range hlref.PrivilegeNames {
				if n == k {
					found = true
				}
			}
			if !found {
				return fmt.Errorf("written account file grants unknown key %q", k)
			}
		}
	}
	var back hotline.Account
	if err := yaml.Unmarshal(out, &back); err != nil {
		return fmt.Errorf("load of named form: %w", err)
	}
	if got, want := hlref.Access(back.Access), bits.Defined(); got != want {
		return fmt.Errorf("named form round trip: loaded %x (%v), want defined bits %x (%v)", got[:], definedSet(got), want[:], definedSet(want))
	}
	// a named file written by the reference table must load to the same bits
	var fromRef hotline.Account
	if err := yaml.Unmarshal(hlsim.AccountYAML(hlsim.AccountSpec{Login: "u", Name: "U", Access: bits}), &fromRef); err != nil {
		return fmt.Errorf("load of reference-written named form: %w", err)
	}
	if got, want := hlref.Access(fromRef.Access), bits.Defined(); got != want {
		return fmt.Errorf("named form (reference names) loaded as %v, want %v", definedSet(got), definedSet(want))
	}
	var leg hotline.Account
	if err := yaml.Unmarshal(legacyYAML("u", bits), &leg); err != nil {
		return fmt.Errorf("load of legacy form: %w", err)
	}
	if got, want := hlref.Access(leg.Access).Defined(), bits.Defined(); got != want {
		return fmt.Errorf("legacy array form loaded as %v, named form as %v", definedSet(got), definedSet(want))
	}
	// in-memory numbering: IsSet(i) <=> bit i from the MSB of byte 0; Set(i) sets exactly that bit
	ab := hotline.AccessBitmap(bits)
	for i := 0; i < 64; i++ {
		if ab.IsSet(i) != bits.Has(i) {
			return fmt.Errorf("IsSet(%d)=%v for bitmap %x", i, ab.IsSet(i), bits[:])
		}
	}
	var built hotline.AccessBitmap
	for i := 0; i < 64; i++ {
		if bits.Has(i) {
			built.Set(i)
		}
	}
	if hlref.Access(built) != bits {
		return fmt.Errorf("Set() built %x, want %x", built[:], bits[:])
	}
	return nil
}

// c16Migration loads a legacy-format account through the account manager (which rewrites
// it in named form) and compares with the named form.
func c16Migration(dir string, bits hlref.Access) error {
	defer os.RemoveAll(dir)
	if err := os.MkdirAll(dir, 0o755); err != nil {
		return err
	}
	p := filepath.Join(dir, "leg.yaml")
	if err := os.WriteFile(p, legacyYAML("leg", bits), 0o644); err != nil {
		return err
	}
	am, err := verifhooks.NewYAMLAccountManager(dir)
	if err != nil {
		return fmt.Errorf("manager on legacy file: %w", err)
	}
	a := am.Get("leg")
	if a == nil {
		return fmt.Errorf("legacy account not loaded")
	}
	if got, want := hlref.Access(a.Access).Defined(), bits.Defined(); got != want {
		return fmt.Errorf("legacy account in memory %v, want %v", definedSet(got), definedSet(want))
	}
	b, _ := os.ReadFile(p)
	if !bytes.Contains(b, []byte("DownloadFile:")) {
		return fmt.Errorf("legacy file was not migrated to the named form")
	}
	am2, err := verifhooks.NewYAMLAccountManager(dir)
	if err != nil {
		return fmt.Errorf("manager on migrated file: %w", err)
	}
	a2 := am2.Get("leg")
	if a2 == nil || hlref.Access(a2.Access) != bits.Defined() {
		return fmt.Errorf("migrated file loads as %v, want %v", a2, definedSet(bits.Defined()))
	}
	if a2.Name != "Legacy leg" || a2.Password != hlsim.HashPassword("pw") {
		return fmt.Errorf("migration changed name/password: %q", a2.Name)
	}
	return nil
}

func TestC16Exhaustive(t *testing.T) {
	ev := evid.New("C16", "TestC16Exhaustive")
	defer ev.Flush()
	shard, _ := strconv.Atoi(os.Getenv("VERIF_SHARD_INDEX"))
	nsh, _ := strconv.Atoi(os.Getenv("VERIF_NSHARDS"))
	if nsh < 1 {
		nsh = 1
	}
	var cases []hlref.Access
	var kinds []string
	for i := 0; i < 64; i++ {
		cases = append(cases, hlref.AccessOf(i))
		kinds = append(kinds, "single")
	}
	for x, i := range hlref.DefinedPrivs {
		for _, j := range hlref.DefinedPrivs[x+1:] {
			cases = append(cases, hlref.AccessOf(i, j))
			kinds = append(kinds, "pair")
		}
	}
	for _, i := range hlref.DefinedPrivs {
		a := hlref.AllAccess().Defined()
		a.Clear(i)
		cases = append(cases, a)
		kinds = append(kinds, "all-but-one")
	}
	cases = append(cases, hlref.Access{}, hlref.AllAccess(), hlref.AllAccess().Defined())
	kinds = append(kinds, "empty", "all64", "all40")
	base := worldBase()
	for n, bits := range cases {
		if n%nsh != shard {
			continue
		}
		if err := c16Storage(bits); err != nil {
			t.Fatalf("VERIF-VIOLATION C16 bitmap %x (%s): %v", bits[:], kinds[n], err)
		}
		if kinds[n] != "pair" || n%7 == 0 {
			if err := c16Migration(filepath.Join(base, fmt.Sprintf("mig%d", n)), bits); err != nil {
				t.Fatalf("VERIF-VIOLATION C16 bitmap %x (%s): migration: %v", bits[:], kinds[n], err)
			}
		}
		ev.Case(evid.Hash(bits[:]), len(definedSet(bits)) > 0, "kind:"+kinds[n])
		if ev.WantSample() {
			ev.Sample(map[string]any{"bitmap": fmt.Sprintf("%x", bits[:]), "kind": kinds[n], "privileges": definedSet(bits)})
		}
	}
	ev.SetExtra("exhaustive", true)
	ev.SetExtra("exhaustive_subspaces", "64 single bits, 780 pairs of defined privileges, 40 all-but-one, empty/all")
}

func genAccess(rt *rapid.T, label string) hlref.Access {
	var a hlref.Access
	switch rapid.IntRange(0, 3).Draw(rt, label+"_kind") {
	case 0:
		copy(a[:], genBytes(rt, label, 8))
	case 1:
		for _, i := range hlref.DefinedPrivs {
			if rapid.Bool().Draw(rt, fmt.Sprintf("%s_%d", label, i)) {
				a.Set(i)
			}
		}
	case 2:
		n := rapid.IntRange(1, 4).Draw(rt, label+"_n")
		for k := 0; k < n; k++ {
			a.Set(rapid.IntRange(0, 63).Draw(rt, fmt.Sprintf("%s_b%d", label, k)))
		}
	default:
		a = hlref.AllAccess()
		n := rapid.IntRange(1, 4).Draw(rt, label+"_n")
		for k := 0; k < n; k++ {
			a.Clear(rapid.IntRange(0, 63).Draw(rt, fmt.Sprintf("%s_b%d", label, k)))
		}
	}
	return a
}

func TestC16Sampled(t *testing.T) {
	ev := evid.New("C16", "TestC16Sampled")
	defer ev.Flush()
	base := worldBase()
	n := 0
	rapid.Check(t, func(rt *rapid.T) {
		bits := genAccess(rt, "bits")
		if err := c16Storage(bits); err != nil {
			rt.Fatalf("bitmap %x: %v", bits[:], err)
		}
		n++
		if n%8 == 0 {
			if err := c16Migration(filepath.Join(base, fmt.Sprintf("smig%d", n)), bits); err != nil {
				rt.Fatalf("bitmap %x: migration: %v", bits[:], err)
			}
		}
		ev.Case(evid.Hash(bits[:]), len(definedSet(bits)) > 0, "sampled")
	})
}

// TestC16Wire: the privilege bytes sent to the client after login (transaction 354) are
// the account's bitmap with privilege i at bit i from the MSB of byte 0, for accounts
// stored in either form.
func TestC16Wire(t *testing.T) {
	ev := evid.New("C16", "TestC16Wire")
	defer ev.Flush()
	rapid.Check(t, func(rt *rapid.T) {
		var bits hlref.Access
		if rapid.Bool().Draw(rt, "single") {
			bits = hlref.AccessOf(rapid.SampledFrom(hlref.DefinedPrivs).Draw(rt, "bit"))
		} else {
			bits = genAccess(rt, "bits").Defined()
		}
		legacy := rapid.Bool().Draw(rt, "legacy")
		bits2 := genAccess(rt, "bits2").Defined()
		bits3 := genAccess(rt, "bits3").Defined()
		shadow := rapid.SampledFrom([]string{"", "./", "../", "/", "x/../"}).Draw(rt, "shadowSpelling")
		caseEdit := rapid.Bool().Draw(rt, "editSpelledInOtherCase")
		inWorld(rt, hlsim.Options{Accounts: []hlsim.AccountSpec{acct("seed", "Seed", "x", allAccess)}, Agreement: "a"}, func(rt *rapid.T, w *hlsim.World) {
			var data []byte
			if legacy {
				data = legacyYAML("u", bits)
			} else {
				data = hlsim.AccountYAML(hlsim.AccountSpec{Login: "u", Name: "U", Password: "pw", Access: bits})
			}
			if err := os.WriteFile(filepath.Join(w.UsersDir, "u.yaml"), data, 0o644); err != nil {
				rt.Fatalf("harness: %v", err)
			}
			if err := w.Restart(); err != nil {
				rt.Fatalf("restart with account file: %v", err)
			}
			c := w.Connect("10.0.0.1:1")
			if r := c.Login(hlsim.LoginOpts{Login: "u", Password: "pw", Version: hlref.BE16(190)}); r == nil {
				rt.Fatalf("login failed")
			}
			var got []byte
			for _, tr := range c.TakeInbox() {
				if tr.Type == hlref.TranUserAccess {
					got, _ = tr.Get(hlref.FUserAccess)
				}
			}
			if !bytes.Equal(got, bits[:]) {
				rt.Fatalf("user access sent to client %x, account privileges %x (%v), legacy=%v", got, bits[:], definedSet(bits), legacy)
			}
			// the same bytes must follow an edit made while the user is logged in
			admin := loginAs(rt, w, "10.0.0.2:1", "seed", "x", "seed")
			c.TakeInbox()
			// (what the account listing says about "u": asked before and after the edit)
			listed := func(when string) hlref.Access {
				r := admin.Request(hlref.TranListUsers)
				for _, d := range r.GetAll(hlref.FData) {
					fs, err := hlref.DecodeSubFields(d)
					if err != nil {
						rt.Fatalf("%s: list-users record unparseable: %v", when, err)
					}
					e := hlref.Tran{Fields: fs}
					if login, _ := e.Get(hlref.FUserLogin); string(hlref.Obfuscate(login)) == "u" {
						var a hlref.Access
						acc, _ := e.Get(hlref.FUserAccess)
						copy(a[:], acc)
						return a
					}
				}
				rt.Fatalf("%s: account u is not in the account listing", when)
				return hlref.Access{}
			}
			if a := listed("before the edit"); a != bits {
				rt.Fatalf("the account listing shows u with privileges %x, its file and session say %x", a[:], bits[:])
			}
			if r := admin.Request(hlref.TranSetUser, fld(hlref.FUserLogin, hlref.Obfuscate([]byte("u"))), sfld(hlref.FUserName, "U"), fld(hlref.FUserAccess, bits2[:]), fld(hlref.FUserPassword, []byte{0})); !okReply(r) {
				rt.Fatalf("harness: set-user refused")
			}
			got = nil
			for _, tr := range c.TakeInbox() {
				if tr.Type == hlref.TranUserAccess {
					got, _ = tr.Get(hlref.FUserAccess)
				}
			}
			if !bytes.Equal(got, bits2[:]) {
				rt.Fatalf("after an administrator changed the privileges of the logged-in user from %x to %x the client was sent %x", bits[:], bits2[:], got)
			}
			if a := listed("after the edit"); a != bits2 {
				rt.Fatalf("after an administrator changed the privileges of u from %x to %x the account listing shows %x", bits[:], bits2[:], a[:])
			}
			// a further edit that spells the login in another letter case ("U" for "u"): whether the server takes it for the
			// same account or refuses it, the session, the listing and the file end up with one and the same bitmap
			sessionBits := bits2
			if caseEdit {
				c.TakeInbox()
				r3 := admin.Request(hlref.TranSetUser, fld(hlref.FUserLogin, hlref.Obfuscate([]byte("U"))), sfld(hlref.FUserName, "U"), fld(hlref.FUserAccess, bits3[:]), fld(hlref.FUserPassword, []byte{0}))
				for _, tr := range c.TakeInbox() {
					if tr.Type == hlref.TranUserAccess {
						d, _ := tr.Get(hlref.FUserAccess)
						copy(sessionBits[:], d)
					}
				}
				g := admin.Request(hlref.TranGetUser, sfld(hlref.FUserLogin, "u"))
				var listed hlref.Access
				d, _ := g.Get(hlref.FUserAccess)
				copy(listed[:], d)
				if !okReply(g) || listed != sessionBits {
					rt.Fatalf("after a set-user request spelling the login \"U\" (reply %s) the account \"u\" is listed with %x while its logged-in session was last sent %x", replySummary(r3), listed[:], sessionBits[:])
				}
				bits2 = sessionBits
			}
			// ... and the account file says the same, under the privilege names - also after a creation request whose login
			// is another spelling of this account's file name ("./u") with other privileges, whatever the server answers to it
			if shadow != "" {
				admin.Request(hlref.TranNewUser, fld(hlref.FUserLogin, hlref.Obfuscate([]byte(shadow+"u"))), sfld(hlref.FUserName, "S"), fld(hlref.FUserPassword, hlref.Obfuscate([]byte("spw"))), fld(hlref.FUserAccess, bits3[:]))
			}
			fb, err := os.ReadFile(filepath.Join(w.UsersDir, "u.yaml"))
			if err != nil {
				rt.Fatalf("account file of u: %v", err)
			}
			var generic struct {
				Login  string         `yaml:"Login"`
				Access map[string]any `yaml:"Access"`
			}
			if err := yaml.Unmarshal(fb, &generic); err != nil {
				rt.Fatalf("account file of u does not parse: %v", err)
			}
			for i, name := range hlref.PrivilegeNames {
				if v, _ := generic.Access[name].(bool); v != bits2.Has(i) {
					rt.Fatalf("account u holds privileges %x in memory and on the wire, but its file u.yaml (Login %q) says %s=%v (privilege %d; creation request with login %q and privileges %x was sent: %v)", bits2[:], generic.Login, name, v, i, shadow+"u", bits3[:], shadow != "")
				}
			}
		})
		lab := "named"
		if legacy {
			lab = "legacy"
		}
		ev.Case(evid.Hash(bits[:], legacy, bits2[:], bits3[:], shadow, caseEdit), len(definedSet(bits)) > 0, "wire:"+lab)
	})
}

// TestC16Dir: a whole account directory, legacy and named files mixed in every file order:
// each account loads to exactly the privileges of its own file (the load of one file must
// not depend on the files loaded before it), on the migrating start and on the next one.
func TestC16Dir(t *testing.T) {
	ev := evid.New("C16", "TestC16Dir")
	defer ev.Flush()
	rapid.Check(t, func(rt *rapid.T) {
		n := rapid.IntRange(2, 6).Draw(rt, "accounts")
		type ac struct {
			login  string
			bits   hlref.Access
			legacy bool
		}
		var acs []ac
		used := map[string]bool{}
		nLegacy := 0
		for i := 0; i < n; i++ {
			login := rapid.StringMatching("[a-e]{1,3}").Filter(func(s string) bool { return !used[s] }).Draw(rt, fmt.Sprintf("login%d", i))
			used[login] = true
			var bits hlref.Access
			switch rapid.IntRange(0, 3).Draw(rt, fmt.Sprintf("kind%d", i)) {
			case 0:
				bits = hlref.Access{}
			case 1:
				bits = hlref.AccessOf(rapid.SampledFrom(hlref.DefinedPrivs).Draw(rt, fmt.Sprintf("bit%d", i)))
			default:
				bits = genAccess(rt, fmt.Sprintf("bits%d", i)).Defined()
			}
			leg := rapid.Bool().Draw(rt, fmt.Sprintf("legacy%d", i))
			if leg {
				nLegacy++
			}
			acs = append(acs, ac{login, bits, leg})
		}
		dir, err := os.MkdirTemp("", "c16dir")
		if err != nil {
			rt.Fatalf("harness: %v", err)
		}
		defer os.RemoveAll(dir)
		for _, a := range acs {
			data := hlsim.AccountYAML(hlsim.AccountSpec{Login: a.login, Name: "N " + a.login, Password: "pw", Access: a.bits})
			if a.legacy {
				data = legacyYAML(a.login, a.bits)
			}
			if err := os.WriteFile(filepath.Join(dir, a.login+".yaml"), data, 0o644); err != nil {
				rt.Fatalf("harness: %v", err)
			}
		}
		for round := 1; round <= 2; round++ {
			am, err := verifhooks.NewYAMLAccountManager(dir)
			if err != nil {
				rt.Fatalf("start %d on the directory: %v", round, err)
			}
			for _, a := range acs {
				got := am.Get(a.login)
				if got == nil {
					rt.Fatalf("start %d: account %q not loaded", round, a.login)
				}
				if g := hlref.Access(got.Access); g != a.bits.Defined() {
					rt.Fatalf("start %d: account %q (legacy form: %v) loaded with privileges %v, its file names %v; directory: %+v", round, a.login, a.legacy, definedSet(g), definedSet(a.bits.Defined()), acs)
				}
			}
			if len(am.List()) != len(acs) {
				rt.Fatalf("start %d: %d accounts loaded from %d files", round, len(am.List()), len(acs))
			}
		}
		ev.Case(evid.Hash(fmt.Sprint(acs)), nLegacy > 0 && nLegacy < n, fmt.Sprintf("legacy:%d/%d", nLegacy, n))
		if nLegacy > 0 && nLegacy < n && ev.WantSample() {
			ev.Sample(map[string]any{"accounts": fmt.Sprintf("%+v", acs)})
		}
	})
}
