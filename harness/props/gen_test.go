package props

import (
	"flag"
	"fmt"
	"io"
	"os"
	"strconv"
	"testing"
	"time"

	"pgregory.net/rapid"
)

func TestMain(m *testing.M) {
	// The Hotline date type is defined relative to the local zone; pin it.
	time.Local = time.UTC
	os.Exit(m.Run())
}

func tier() string {
	if t := os.Getenv("VERIF_TIER"); t != "" {
		return t
	}
	return "quick"
}

func thorough() bool { return tier() == "thorough" }

// genBytes draws n bytes: byte by byte when short, otherwise a drawn 64-bit seed expanded
// by splitmix64 (a pure function of the drawn value, so shrinking and replay still work).
func genBytes(t *rapid.T, label string, n int) []byte {
	if n <= 24 {
		return rapid.SliceOfN(rapid.Byte(), n, n).Draw(t, label)
	}
	seed := rapid.Uint64().Draw(t, label+"_seed")
	mode := rapid.IntRange(0, 3).Draw(t, label+"_mode")
	b := make([]byte, n)
	x := seed
	for i := range b {
		x += 0x9e3779b97f4a7c15
		z := x
		z = (z ^ (z >> 30)) * 0xbf58476d1ce4e5b9
		z = (z ^ (z >> 27)) * 0x94d049bb133111eb
		z ^= z >> 31
		switch mode {
		case 0:
			b[i] = byte(z)
		case 1:
			b[i] = 'a' + byte(z%26)
		case 2:
			b[i] = byte(i)
		default:
			b[i] = byte(seed)
		}
	}
	return b
}

var sizeBoundaries = []int{0, 1, 2, 3, 254, 255, 256, 511, 512, 513, 1023, 1024, 4095, 4096, 32767, 32768, 65534, 65535}

// genSize draws a size in [0,max] biased to small values and to boundary values.
func genSize(t *rapid.T, label string, max int) int {
	switch rapid.IntRange(0, 9).Draw(t, label+"_k") {
	case 0, 1, 2:
		var c []int
		for _, b := range sizeBoundaries {
			if b <= max {
				c = append(c, b)
			}
		}
		c = append(c, max)
		return rapid.SampledFrom(c).Draw(t, label)
	case 3, 4, 5, 6:
		m := 48
		if m > max {
			m = max
		}
		return rapid.IntRange(0, m).Draw(t, label)
	default:
		return rapid.IntRange(0, max).Draw(t, label)
	}
}

// genScript draws a drain script: buffer sizes >= minBuf for successive Read calls (the
// last entry repeats).
func genScript(t *rapid.T, encLen int, minBuf int) []int {
	if minBuf < 1 {
		minBuf = 1
	}
	pick := func(v int) int {
		if v < minBuf {
			return minBuf
		}
		return v
	}
	switch rapid.IntRange(0, 7).Draw(t, "script_kind") {
	case 0:
		return []int{pick(1)}
	case 1:
		return []int{pick(encLen + 100)}
	case 2:
		return []int{pick(encLen)}
	case 3:
		return []int{pick(encLen - 1), pick(1)}
	case 4:
		return []int{512, 1024, 2048, 4096, 8192, 16384, 32768} // io.ReadAll-like growth
	case 5:
		return []int{pick(rapid.IntRange(2, 64).Draw(t, "script_fixed"))}
	default:
		n := rapid.IntRange(1, 8).Draw(t, "script_n")
		s := make([]int, n)
		for i := range s {
			hi := encLen + 2
			if hi < minBuf {
				hi = minBuf
			}
			s[i] = rapid.IntRange(minBuf, hi).Draw(t, fmt.Sprintf("script_%d", i))
		}
		return s
	}
}

// drain reads r to io.EOF with the scripted buffer sizes.  It fails if the reader does
// not terminate within a bound derived from the expected length.
func drain(r io.Reader, script []int, expectLen int) (out []byte, reads int, err error) {
	maxReads := expectLen + 8
	for i := 0; ; i++ {
		if i >= maxReads {
			return out, i, fmt.Errorf("no EOF after %d reads (%d bytes so far, expected %d)", i, len(out), expectLen)
		}
		sz := script[len(script)-1]
		if i < len(script) {
			sz = script[i]
		}
		buf := make([]byte, sz)
		n, e := r.Read(buf)
		if n < 0 || n > sz {
			return out, i, fmt.Errorf("read returned n=%d for buffer %d", n, sz)
		}
		out = append(out, buf[:n]...)
		if e == io.EOF {
			return out, i + 1, nil
		}
		if e != nil {
			return out, i + 1, e
		}
		if len(out) > 2*expectLen+64 {
			return out, i + 1, fmt.Errorf("emitted %d bytes, expected %d: encoder does not terminate", len(out), expectLen)
		}
	}
}

func hexs(b []byte) string {
	if len(b) > 48 {
		return fmt.Sprintf("%x...(%d bytes)", b[:48], len(b))
	}
	return fmt.Sprintf("%x", b)
}

func firstDiff(a, b []byte) int {
	n := len(a)
	if len(b) < n {
		n = len(b)
	}
	for i := 0; i < n; i++ {
		if a[i] != b[i] {
			return i
		}
	}
	if len(a) != len(b) {
		return n
	}
	return -1
}

// flagSetChecks1 makes every following rapid.Check in this process run its property
// exactly once (used by enumerations that go through rapid only for the SyncTest plumbing).
func flagSetChecks1() error { return flag.Set("rapid.checks", "1") }

func shardInfo() (shard, nsh int) {
	shard, _ = strconv.Atoi(os.Getenv("VERIF_SHARD_INDEX"))
	nsh, _ = strconv.Atoi(os.Getenv("VERIF_NSHARDS"))
	if nsh < 1 {
		nsh = 1
	}
	return
}
