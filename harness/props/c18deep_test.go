package props

// C18 over long news paths: bundles nested d levels deep whose names have up to 255 bytes (the
// encoded path grows to 258 bytes per level; the field that carries it may hold 65 535).  At the
// bottom a category with an article and a reply.  Everything must be created, listed, fetched
// and reproduced by a reload exactly as with short paths.

import (
	"fmt"
	"strings"
	"testing"

	"pgregory.net/rapid"

	"verif/harness/evid"
	"verif/harness/hlref"
	"verif/harness/hlsim"
)

func TestC18DeepPath(t *testing.T) {
	ev := evid.New("C18", "TestC18DeepPath")
	defer ev.Flush()
	rapid.Check(t, func(rt *rapid.T) {
		depth := rapid.SampledFrom([]int{1, 2, 3, 5, 8, 15, 16, 17, 20, 40}).Draw(rt, "depth")
		nlen := rapid.SampledFrom([]int{1, 25, 120, 252, 255}).Draw(rt, "nameLen")
		if depth*nlen > 5200 {
			depth = 5200 / nlen // keeps the news file small enough for the fake-time budget; still beyond every 4 KiB boundary
		}
		reload := rapid.SampledFrom([]string{"none", "reload", "restart"}).Draw(rt, "reload")
		var path []string
		for i := 0; i < depth; i++ {
			path = append(path, fmt.Sprintf("%02d", i)+strings.Repeat(string(rune('a'+i%26)), nlen)[:max(nlen-2, 0)])
			if nlen < 2 {
				path[i] = string(rune('a' + i%26))
			}
		}
		encoded := len(hlref.EncodeNewsPath(append(append([]string{}, path...), "Cat")))
		inWorld(rt, hlsim.Options{Agreement: "a", Accounts: []hlsim.AccountSpec{acct("admin", "Admin", "adminpw", allAccess)}}, func(rt *rapid.T, w *hlsim.World) {
			c := loginAs(rt, w, "10.0.0.1:1", "admin", "adminpw", "admin")
			ctx := func(i int) string {
				return fmt.Sprintf("bundles nested %d deep with names of %d bytes (encoded path of %d bytes)", i, nlen, len(hlref.EncodeNewsPath(path[:i])))
			}
			for i := 0; i < depth; i++ {
				fs := []hlref.Field{sfld(hlref.FFileName, path[i])}
				if i > 0 {
					fs = append(fs, newsPath(path[:i]))
				}
				if r := c.Request(hlref.TranNewNewsFldr, fs...); !okReply(r) {
					rt.Fatalf("creating a bundle below %s: %s", ctx(i), replySummary(r))
				}
			}
			if r := c.Request(hlref.TranNewNewsCat, sfld(hlref.FNewsCatName, "Cat"), newsPath(path)); !okReply(r) {
				rt.Fatalf("creating a category below %s: %s", ctx(depth), replySummary(r))
			}
			cat := append(append([]string{}, path...), "Cat")
			post := func(parent int, title, body string) {
				if r := c.Request(hlref.TranPostNewsArt, newsPath(cat), fld(hlref.FNewsArtID, hlref.BE32(parent)), sfld(hlref.FNewsArtTitle, title),
					sfld(hlref.FNewsArtDataFlav, "text/plain"), sfld(hlref.FNewsArtData, body)); !okReply(r) {
					rt.Fatalf("posting %q to the category below %s: %s", title, ctx(depth), replySummary(r))
				}
			}
			post(0, "first", "body one")
			post(1, "answer", "body two")
			switch reload {
			case "reload":
				if err := w.News.Load(); err != nil {
					rt.Fatalf("reload of the news file with %s: %v", ctx(depth), err)
				}
			case "restart":
				if err := w.Restart(); err != nil {
					rt.Fatalf("restart with %s: %v", ctx(depth), err)
				}
				c = loginAs(rt, w, "10.0.0.1:2", "admin", "adminpw", "admin")
			}
			// every level lists exactly its one child
			for i := 0; i <= depth; i++ {
				fs := []hlref.Field{}
				if i > 0 {
					fs = append(fs, newsPath(path[:i]))
				}
				r := c.Request(hlref.TranGetNewsCatNameList, fs...)
				if !okReply(r) {
					rt.Fatalf("category listing of %s (after %s): %s", ctx(i), reload, replySummary(r))
				}
				ds := r.GetAll(hlref.FNewsCatListData15)
				want := "Cat"
				if i < depth {
					want = path[i]
				}
				if len(ds) != 1 {
					rt.Fatalf("category listing of %s (after %s) shows %d children, it has one", ctx(i), reload, len(ds))
				}
				nc, err := hlref.DecodeNewsCat(ds[0])
				if err != nil || string(nc.Name) != want {
					rt.Fatalf("category listing of %s (after %s) shows %q (%v), the child is %q", ctx(i), reload, nc.Name, err, want)
				}
			}
			r := c.Request(hlref.TranGetNewsArtNameList, newsPath(cat))
			d, _ := r.Get(hlref.FNewsArtListData)
			_, _, _, es, err := hlref.DecodeNewsArtList(d)
			if !okReply(r) || err != nil || len(es) != 2 || es[0].ID != 1 || es[1].ID != 2 || es[1].Parent != 1 || string(es[0].Title) != "first" || string(es[1].Title) != "answer" {
				rt.Fatalf("article list of the category below %s (after %s): %s / %v / %+v", ctx(depth), reload, replySummary(r), err, es)
			}
			for id, want := range map[int][2]string{1: {"first", "body one"}, 2: {"answer", "body two"}} {
				ar := c.Request(hlref.TranGetNewsArtData, newsPath(cat), fld(hlref.FNewsArtID, hlref.BE32(id)), sfld(hlref.FNewsArtDataFlav, "text/plain"))
				ti, _ := ar.Get(hlref.FNewsArtTitle)
				bo, _ := ar.Get(hlref.FNewsArtData)
				if !okReply(ar) || string(ti) != want[0] || string(bo) != want[1] {
					rt.Fatalf("article %d of the category below %s (after %s): %s", id, ctx(depth), reload, replySummary(ar))
				}
			}
			// deleting the innermost bundle removes exactly that item
			if depth >= 2 {
				if r := c.Request(hlref.TranDelNewsItem, newsPath(path)); !okReply(r) {
					rt.Fatalf("deleting the innermost bundle of %s: %s", ctx(depth), replySummary(r))
				}
				r := c.Request(hlref.TranGetNewsCatNameList, newsPath(path[:depth-1]))
				if !okReply(r) || len(r.GetAll(hlref.FNewsCatListData15)) != 0 {
					rt.Fatalf("after deleting the innermost bundle of %s its parent lists: %s", ctx(depth), replySummary(r))
				}
				if depth >= 3 {
					r := c.Request(hlref.TranGetNewsCatNameList, newsPath(path[:depth-2]))
					if !okReply(r) || len(r.GetAll(hlref.FNewsCatListData15)) != 1 {
						rt.Fatalf("after deleting the innermost bundle of %s its grandparent lists: %s", ctx(depth), replySummary(r))
					}
				}
			}
		})
		ev.Case(evid.Hash("deep", depth, nlen, reload), encoded > 512, fmt.Sprintf("encoded>4096:%v", encoded > 4096))
		if ev.WantSample() {
			ev.Sample(map[string]any{"depth": depth, "name_bytes": nlen, "encoded_path_bytes": encoded, "then": reload})
		}
	})
}
