package props

// C20 — a crash never leaves persistent state torn.  Fault enumeration: for generated
// update sequences, the process performing the last update is killed (SIGKILL injected by
// strace) before every file system call it makes, and the stores are reloaded.

import (
	"bytes"
	"encoding/json"
	"fmt"
	"io"
	"os"
	"os/exec"
	"path/filepath"
	"regexp"
	"sort"
	"strings"
	"testing"
	"time"

	"github.com/jhalter/mobius/verifhooks"
	"gopkg.in/yaml.v3"
	"pgregory.net/rapid"

	"verif/harness/evid"
	"verif/harness/hlref"
	"verif/harness/hlsim"
)

type c20op struct {
	Store    string   `json:"store"`
	Op       string   `json:"op"`
	Text     string   `json:"text,omitempty"`
	Path     []string `json:"path,omitempty"`
	Name     string   `json:"name,omitempty"`
	Title    string   `json:"title,omitempty"`
	Body     string   `json:"body,omitempty"`
	Parent   uint32   `json:"parent,omitempty"`
	ID       uint32   `json:"id,omitempty"`
	Login    string   `json:"login,omitempty"`
	NewLogin string   `json:"newlogin,omitempty"`
	Access   []byte   `json:"access,omitempty"`
	Password string   `json:"password,omitempty"`
	IP       string   `json:"ip,omitempty"`
	Perm     bool     `json:"perm,omitempty"`
	Unix     int64    `json:"unix,omitempty"`
	Burst    []c20op  `json:"burst,omitempty"` // op "burst": made at the same time on one store object (never the in-flight update)
}

var c20BanIPs = []string{"1.1.1.1", "2.2.2.2", "10.0.0.7", "10.0.0.8", "10.0.0.9", "172.16.0.1", "172.16.0.2", "192.168.1.1"}

const c20FollowUpIP = "9.9.9.9"

// c20FollowUp is the update made after the restart that follows the crash: small, and independent of every generated
// update of the same store.
func c20FollowUp(store string) c20op {
	switch store {
	case "board":
		return c20op{Store: "board", Text: "From x (after the restart):\r\rq\r"}
	case "ban":
		return c20op{Store: "ban", IP: c20FollowUpIP, Perm: true}
	case "acct":
		return c20op{Store: "acct", Op: "create", Login: "afterwards", Name: "Created after the restart", Access: []byte{0x80, 0, 0, 0, 0, 0, 0, 0}, Password: "$2a$04$abcdefghijklmnopqrstuuJ3TC0X0yZ0yZ0yZ0yZ0yZ0yZ0yZ0yZ0"}
	}
	return c20op{Store: "news", Op: "bundle", Name: "AfterTheRestart"}
}

const c20Syscalls = "openat,open,creat,write,pwrite64,writev,close,rename,renameat,renameat2,unlink,unlinkat,ftruncate,truncate,link,linkat,mkdir,mkdirat,rmdir,fsync,fdatasync"

func helperPath(t interface{ Fatalf(string, ...any) }) string {
	p := filepath.Join(os.Getenv("VERIF_BIN"), "crashhelper")
	if _, err := os.Stat(p); err != nil {
		t.Fatalf("VERIF-INCONCLUSIVE crashhelper binary not found (VERIF_BIN=%q)", os.Getenv("VERIF_BIN"))
	}
	return p
}

// c20dump loads every store with the production constructors and renders its observable value.
func c20dump(dir string) (string, error) {
	var sb strings.Builder
	fn, err := verifhooks.NewFlatNews(filepath.Join(dir, "MessageBoard.txt"))
	if err != nil {
		return "", fmt.Errorf("message board does not load: %w", err)
	}
	_, _ = fn.Seek(0, 0)
	b, _ := io.ReadAll(fn)
	fmt.Fprintf(&sb, "BOARD %q\n", b)
	tn, err := verifhooks.NewThreadedNewsYAML(filepath.Join(dir, "ThreadedNews.yaml"))
	if err != nil {
		return "", fmt.Errorf("threaded news does not load: %w", err)
	}
	nb, _ := yaml.Marshal(&tn.ThreadedNews)
	fmt.Fprintf(&sb, "NEWS %s\n", nb)
	am, err := verifhooks.NewYAMLAccountManager(filepath.Join(dir, "Users"))
	if err != nil {
		return "", fmt.Errorf("accounts do not load: %w", err)
	}
	var as []string
	for _, a := range am.List() {
		as = append(as, fmt.Sprintf("ACCOUNT login=%q name=%q access=%x password=%q", a.Login, a.Name, a.Access[:], a.Password))
	}
	sort.Strings(as)
	sb.WriteString(strings.Join(as, "\n") + "\n")
	bf, err := verifhooks.NewBanFile(filepath.Join(dir, "Banlist.yaml"))
	if err != nil {
		return "", fmt.Errorf("ban list does not load: %w", err)
	}
	for _, ip := range append(append([]string{}, c20BanIPs...), c20FollowUpIP) {
		is, until := bf.IsBanned(ip)
		u := "-"
		if until != nil {
			u = until.UTC().Format(time.RFC3339)
		}
		fmt.Fprintf(&sb, "BAN %s %v %s\n", ip, is, u)
	}
	return sb.String(), nil
}

// c20effect says whether the effect of an acknowledged update is in what a restart would load (an expectation of
// its own, not a comparison of the implementation with itself): "" if it is, else what is missing.
func c20effect(dir string, o c20op) string {
	if o.Op == "burst" {
		for _, sub := range o.Burst {
			if miss := c20effect(dir, sub); miss != "" {
				return fmt.Sprintf("of %d updates made at the same time: %s", len(o.Burst), miss)
			}
		}
		return ""
	}
	switch o.Store {
	case "board":
		fn, err := verifhooks.NewFlatNews(filepath.Join(dir, "MessageBoard.txt"))
		if err != nil {
			return "message board does not load: " + err.Error()
		}
		_, _ = fn.Seek(0, 0)
		b, _ := io.ReadAll(fn)
		if !bytes.HasPrefix(b, []byte(o.Text)) {
			return fmt.Sprintf("the post is not at the top of the message board file (file starts with %q)", b[:min(len(b), 40)])
		}
	case "ban":
		bf, err := verifhooks.NewBanFile(filepath.Join(dir, "Banlist.yaml"))
		if err != nil {
			return "ban list does not load: " + err.Error()
		}
		is, until := bf.IsBanned(o.IP)
		if !is || (o.Perm && until != nil) || (!o.Perm && (until == nil || until.Unix() != o.Unix)) {
			return fmt.Sprintf("ban of %s (permanent=%v until=%d) is not in the ban file (banned=%v until=%v)", o.IP, o.Perm, o.Unix, is, until)
		}
	case "acct":
		am, err := verifhooks.NewYAMLAccountManager(filepath.Join(dir, "Users"))
		if err != nil {
			return "accounts do not load: " + err.Error()
		}
		switch o.Op {
		case "create", "update":
			var want hlref.Access
			copy(want[:], o.Access)
			if a := am.Get(o.Login); a == nil || a.Name != o.Name || hlref.Access(a.Access) != want.Defined() {
				return fmt.Sprintf("account %q after %s: %+v", o.Login, o.Op, a)
			}
		case "rename":
			if a := am.Get(o.NewLogin); a == nil || a.Name != o.Name || am.Get(o.Login) != nil {
				return fmt.Sprintf("after renaming %q to %q: new %+v, old still present: %v", o.Login, o.NewLogin, a, am.Get(o.Login) != nil)
			}
		case "delete":
			if am.Get(o.Login) != nil {
				return fmt.Sprintf("deleted account %q is still loaded", o.Login)
			}
		}
	case "news":
		tn, err := verifhooks.NewThreadedNewsYAML(filepath.Join(dir, "ThreadedNews.yaml"))
		if err != nil {
			return "threaded news does not load: " + err.Error()
		}
		cats := tn.ThreadedNews.Categories
		switch o.Op {
		case "bundle", "category":
			if _, ok := cats[o.Name]; !ok {
				return fmt.Sprintf("new %s %q is not in the news file", o.Op, o.Name)
			}
		case "post":
			found := false
			for _, a := range cats[o.Path[0]].Articles {
				if a.Title == o.Title && a.Data == o.Body {
					found = true
				}
			}
			if !found {
				return fmt.Sprintf("posted article %q is not in category %q of the news file", o.Title, o.Path[0])
			}
		case "delart":
			if _, ok := cats[o.Path[0]].Articles[o.ID]; ok {
				return fmt.Sprintf("deleted article #%d is still in category %q", o.ID, o.Path[0])
			}
		case "delitem":
			if _, ok := cats[o.Path[0]]; ok {
				return fmt.Sprintf("deleted item %q is still in the news file", o.Path[0])
			}
		}
	}
	return ""
}

func copyDir(src, dst string) error {
	return filepath.Walk(src, func(p string, info os.FileInfo, err error) error {
		if err != nil {
			return err
		}
		rel, _ := filepath.Rel(src, p)
		if info.IsDir() {
			return os.MkdirAll(filepath.Join(dst, rel), 0o755)
		}
		b, err := os.ReadFile(p)
		if err != nil {
			return err
		}
		return os.WriteFile(filepath.Join(dst, rel), b, 0o644)
	})
}

func c20fixture(dir string) {
	must(os.MkdirAll(filepath.Join(dir, "Users"), 0o755))
	must(os.WriteFile(filepath.Join(dir, "MessageBoard.txt"), []byte("old board text\r"), 0o644))
	must(os.WriteFile(filepath.Join(dir, "ThreadedNews.yaml"), []byte("Categories: {}\n"), 0o644))
	must(os.WriteFile(filepath.Join(dir, "Users", "admin.yaml"), hlsim.AccountYAML(hlsim.AccountSpec{Login: "admin", Name: "Admin", Password: "pw", Access: hlref.AllAccess()}), 0o644))
	must(os.WriteFile(filepath.Join(dir, "Banlist.yaml"), []byte("1.1.1.1: null\n"), 0o644))
}

var straceLine = regexp.MustCompile(`^(\d+)\s+([a-z0-9_]+)\((.*)$`)

type c20point struct {
	name    string
	ordinal int
	line    string
}

// c20trace runs the helper under strace and returns the file system calls made by its
// main thread, in order.
func c20trace(helper, dir, opJSON, scratch string) ([]c20point, error) {
	trace := filepath.Join(scratch, "trace.log")
	cmd := exec.Command("strace", "-f", "-o", trace, "-e", "trace="+c20Syscalls, helper, dir, opJSON)
	out, err := cmd.CombinedOutput()
	if err != nil {
		return nil, fmt.Errorf("traced helper run failed: %v: %s", err, out)
	}
	b, err := os.ReadFile(trace)
	if err != nil {
		return nil, err
	}
	lines := strings.Split(string(b), "\n")
	if len(lines) == 0 {
		return nil, fmt.Errorf("empty trace")
	}
	mainPID := strings.Fields(lines[0])[0]
	count := map[string]int{}
	var pts []c20point
	for _, l := range lines {
		m := straceLine.FindStringSubmatch(l)
		if m == nil || m[1] != mainPID {
			continue
		}
		// an "<unfinished ...>" call is counted here, when it starts; its "<... resumed>" line does not match the pattern
		count[m[2]]++
		pts = append(pts, c20point{name: m[2], ordinal: count[m[2]], line: l})
	}
	return pts, nil
}

func mutating(p c20point) bool {
	switch p.name {
	case "write", "pwrite64", "writev":
		return !strings.HasPrefix(p.line[strings.Index(p.line, "(")+1:], "1,") && !strings.HasPrefix(p.line[strings.Index(p.line, "(")+1:], "2,")
	case "openat", "open", "creat":
		return strings.Contains(p.line, "O_WRONLY") || strings.Contains(p.line, "O_RDWR") || strings.Contains(p.line, "O_CREAT")
	case "close":
		return false
	}
	return true
}

func c20genOp(rt *rapid.T, label string, store string, st *c20model) c20op {
	switch store {
	case "board":
		n := rapid.SampledFrom([]int{1, 40, 600, 5000}).Draw(rt, label+"_len")
		return c20op{Store: "board", Text: fmt.Sprintf("From x (%s):\r\r%s\r", label, strings.Repeat("p", n))}
	case "ban":
		ip := rapid.SampledFrom(c20BanIPs).Draw(rt, label+"_ip")
		if rapid.Bool().Draw(rt, label+"_perm") {
			return c20op{Store: "ban", IP: ip, Perm: true}
		}
		return c20op{Store: "ban", IP: ip, Unix: int64(1900000000 + rapid.IntRange(0, 100000).Draw(rt, label+"_t"))}
	case "acct":
		kinds := []string{"create"}
		if len(st.logins) > 0 {
			kinds = append(kinds, "update", "update", "rename", "delete")
		}
		k := rapid.SampledFrom(kinds).Draw(rt, label+"_kind")
		acc := genBytes(rt, label+"_acc", 8)
		switch k {
		case "create":
			st.seq++
			l := fmt.Sprintf("user%d", st.seq)
			st.logins = append(st.logins, l)
			return c20op{Store: "acct", Op: "create", Login: l, Name: "Name " + l, Access: acc, Password: "$2a$04$abcdefghijklmnopqrstuuJ3TC0X0yZ0yZ0yZ0yZ0yZ0yZ0yZ0yZ0"}
		case "update":
			l := rapid.SampledFrom(st.logins).Draw(rt, label+"_login")
			return c20op{Store: "acct", Op: "update", Login: l, Name: "Renamed " + label, Access: acc}
		case "rename":
			i := rapid.IntRange(0, len(st.logins)-1).Draw(rt, label+"_login")
			st.seq++
			nl := fmt.Sprintf("user%d", st.seq)
			op := c20op{Store: "acct", Op: "rename", Login: st.logins[i], NewLogin: nl, Name: "Moved " + label, Access: acc}
			st.logins[i] = nl
			return op
		default:
			i := rapid.IntRange(0, len(st.logins)-1).Draw(rt, label+"_login")
			op := c20op{Store: "acct", Op: "delete", Login: st.logins[i]}
			st.logins = append(st.logins[:i], st.logins[i+1:]...)
			return op
		}
	default: // news
		kinds := []string{"bundle", "category"}
		if len(st.cats) > 0 {
			kinds = append(kinds, "post", "post")
		}
		if len(st.arts) > 0 {
			kinds = append(kinds, "delart")
		}
		if len(st.cats)+len(st.bundles) > 0 {
			kinds = append(kinds, "delitem")
		}
		switch rapid.SampledFrom(kinds).Draw(rt, label+"_kind") {
		case "bundle":
			st.seq++
			n := fmt.Sprintf("Bundle%d", st.seq)
			st.bundles = append(st.bundles, n)
			return c20op{Store: "news", Op: "bundle", Name: n}
		case "category":
			st.seq++
			n := fmt.Sprintf("Cat%d", st.seq)
			st.cats = append(st.cats, n)
			return c20op{Store: "news", Op: "category", Name: n}
		case "post":
			c := rapid.SampledFrom(st.cats).Draw(rt, label+"_cat")
			st.artSeq[c]++
			st.arts = append(st.arts, [2]string{c, fmt.Sprint(st.artSeq[c])})
			return c20op{Store: "news", Op: "post", Path: []string{c}, Title: "title " + label, Body: strings.Repeat("b", rapid.SampledFrom([]int{1, 300, 6000}).Draw(rt, label+"_body"))}
		case "delart":
			i := rapid.IntRange(0, len(st.arts)-1).Draw(rt, label+"_art")
			a := st.arts[i]
			st.arts = append(st.arts[:i], st.arts[i+1:]...)
			var id uint32
			fmt.Sscan(a[1], &id)
			return c20op{Store: "news", Op: "delart", Path: []string{a[0]}, ID: id}
		default:
			all := append(append([]string{}, st.cats...), st.bundles...)
			n := rapid.SampledFrom(all).Draw(rt, label+"_item")
			st.cats = remove(st.cats, n)
			st.bundles = remove(st.bundles, n)
			var keep [][2]string
			for _, a := range st.arts {
				if a[0] != n {
					keep = append(keep, a)
				}
			}
			st.arts = keep
			delete(st.artSeq, n)
			return c20op{Store: "news", Op: "delitem", Path: []string{n}}
		}
	}
}

// c20genBurst: 2-6 updates of one store that commute (bans of different addresses, creations of different accounts,
// bundles or categories), to be made at the same time.
func c20genBurst(rt *rapid.T, label string, store string, st *c20model) c20op {
	k := rapid.IntRange(2, 6).Draw(rt, label+"_k")
	b := c20op{Store: store, Op: "burst"}
	switch store {
	case "ban":
		ips := rapid.Permutation(c20BanIPs).Draw(rt, label+"_ips")[:k]
		for _, ip := range ips {
			b.Burst = append(b.Burst, c20op{Store: "ban", IP: ip, Perm: true})
		}
	case "acct":
		for i := 0; i < k; i++ {
			st.seq++
			l := fmt.Sprintf("user%d", st.seq)
			st.logins = append(st.logins, l)
			b.Burst = append(b.Burst, c20op{Store: "acct", Op: "create", Login: l, Name: "Name " + l, Access: []byte{0x80, 0, 0, 0, 0, 0, 0, 0}, Password: "$2a$04$abcdefghijklmnopqrstuuJ3TC0X0yZ0yZ0yZ0yZ0yZ0yZ0yZ0yZ0"})
		}
	default:
		for i := 0; i < k; i++ {
			st.seq++
			if i%2 == 0 {
				n := fmt.Sprintf("Bundle%d", st.seq)
				st.bundles = append(st.bundles, n)
				b.Burst = append(b.Burst, c20op{Store: "news", Op: "bundle", Name: n})
			} else {
				n := fmt.Sprintf("Cat%d", st.seq)
				st.cats = append(st.cats, n)
				b.Burst = append(b.Burst, c20op{Store: "news", Op: "category", Name: n})
			}
		}
	}
	return b
}

func remove(s []string, x string) []string {
	var o []string
	for _, y := range s {
		if y != x {
			o = append(o, y)
		}
	}
	return o
}

type c20model struct {
	seq     int
	logins  []string
	cats    []string
	bundles []string
	arts    [][2]string
	artSeq  map[string]int
}

func c20prop(ev *evid.Rec) func(rt *rapid.T) {
	return func(rt *rapid.T) {
		helper := helperPath(rt)
		if _, err := exec.LookPath("strace"); err != nil {
			rt.Fatalf("VERIF-INCONCLUSIVE strace not available")
		}
		store := rapid.SampledFrom([]string{"board", "news", "acct", "ban"}).Draw(rt, "store")
		n := rapid.IntRange(1, 5).Draw(rt, "nupdates")
		st := &c20model{artSeq: map[string]int{}}
		var ops []c20op
		for i := 0; i < n; i++ {
			if i < n-1 && store != "board" && rapid.IntRange(0, 3).Draw(rt, fmt.Sprintf("burst%d", i)) == 0 {
				ops = append(ops, c20genBurst(rt, fmt.Sprintf("u%d", i), store, st))
				continue
			}
			ops = append(ops, c20genOp(rt, fmt.Sprintf("u%d", i), store, st))
		}
		scratch, err := os.MkdirTemp(worldBase(), "c20-")
		if err != nil {
			rt.Fatalf("harness: %v", err)
		}
		defer os.RemoveAll(scratch)
		d0 := filepath.Join(scratch, "d0")
		c20fixture(d0)
		js := func(o c20op) string { b, _ := json.Marshal(o); return string(b) }
		for i, o := range ops[:n-1] {
			if out, err := exec.Command(helper, d0, js(o)).CombinedOutput(); err != nil || !bytes.Contains(out, []byte("ACK")) {
				if o.Op == "burst" {
					rt.Fatalf("store=%s history=%s: of %d independent updates made at the same time (no fault injected) one failed: %s", store, opsDesc(ops[:i+1]), len(o.Burst), bytes.TrimSpace(out))
				}
				rt.Fatalf("harness: prefix update %s failed: %v %s", js(o), err, out)
			}
			if miss := c20effect(d0, o); miss != "" {
				rt.Fatalf("store=%s history=%s: update %d was acknowledged and the process ended normally, but a restart would not see it: %s", store, opsDesc(ops[:i+1]), i+1, miss)
			}
		}
		last := js(ops[n-1])
		// an account file in the old format (privileges as an array of numbers), dropped into the directory before this
		// start: the starting server itself rewrites it in the current format, and that rewrite is one more update a crash
		// can interrupt - the account must survive it with the same login, name, password and privileges
		legacy := store == "acct" && rapid.IntRange(0, 2).Draw(rt, "legacyAccountFile") == 0
		if legacy {
			var la hlref.Access
			copy(la[:], rapid.SliceOfN(rapid.Byte(), 8, 8).Draw(rt, "legacyAccess"))
			la = la.Defined() // undefined bits are dropped by the rewrite (C16), so the old and the new form would differ in them
			acc := la[:]
			var y strings.Builder
			y.WriteString("Login: legacy\nName: Legacy Account\nPassword: $2a$04$9P/jgLn1fR9TjSoWL.rKxuN6g.1TSpf2o6Hw.aaRuBwrWIJNwsKkS\nAccess:\n")
			for _, x := range acc {
				fmt.Fprintf(&y, "  - %d\n", x)
			}
			must(os.WriteFile(filepath.Join(d0, "Users", "legacy.yaml"), []byte(y.String()), 0o644))
		}
		dd := filepath.Join(scratch, "dump0")
		must(copyDir(d0, dd)) // loading the stores may rewrite files (the migration above): look at a copy
		oldState, err := c20dump(dd)
		os.RemoveAll(dd)
		if err != nil {
			rt.Fatalf("state before the in-flight update does not load: %v", err)
		}
		if legacy && !strings.Contains(oldState, `login="legacy"`) {
			rt.Fatalf("the account file in the old format was not loaded:\n%s", oldState)
		}
		dn := filepath.Join(scratch, "dn")
		must(copyDir(d0, dn))
		if out, err := exec.Command(helper, dn, last).CombinedOutput(); err != nil || !bytes.Contains(out, []byte("ACK")) {
			rt.Fatalf("harness: update %s failed without any fault: %v %s", last, err, out)
		}
		newState, err := c20dump(dn)
		if err != nil {
			rt.Fatalf("state after the complete update does not load: %v", err)
		}
		if miss := c20effect(dn, ops[n-1]); miss != "" {
			rt.Fatalf("store=%s history=%s: the last update was acknowledged and the process ended normally, but a restart would not see it: %s", store, opsDesc(ops), miss)
		}
		dt := filepath.Join(scratch, "dt")
		must(copyDir(d0, dt))
		pts, err := c20trace(helper, dt, last, scratch)
		if err != nil {
			rt.Fatalf("VERIF-INCONCLUSIVE %v", err)
		}
		// what the server must hold after "crash, restart, one more update": that update applied to the old or to the new value
		fu := c20FollowUp(store)
		fuState := map[string]string{}
		for label, src := range map[string]string{oldState: d0, newState: dn} {
			df := filepath.Join(scratch, "fu")
			must(copyDir(src, df))
			if out, err := exec.Command(helper, df, js(fu)).CombinedOutput(); err != nil || !bytes.Contains(out, []byte("ACK")) {
				rt.Fatalf("harness: follow-up update %s failed without any fault: %v %s", js(fu), err, out)
			}
			st, err := c20dump(df)
			if err != nil {
				rt.Fatalf("state after the follow-up update does not load: %v", err)
			}
			fuState[label] = st
			os.RemoveAll(df)
		}
		first, lastMut := -1, -1
		for i, p := range pts {
			if mutating(p) {
				if first < 0 {
					first = i
				}
				lastMut = i
			}
		}
		desc := fmt.Sprintf("store=%s history=%s", store, opsDesc(ops))
		if legacy {
			desc += " (with Users/legacy.yaml in the old format, migrated by the start that makes the last update)"
		}
		for j, p := range pts {
			dj := filepath.Join(scratch, fmt.Sprintf("k%d", j))
			must(copyDir(d0, dj))
			cmd := exec.Command("strace", "-f", "-o", "/dev/null", "-e", "trace="+p.name, "-e", fmt.Sprintf("inject=%s:signal=SIGKILL:when=%d", p.name, p.ordinal), helper, dj, last)
			out, _ := cmd.CombinedOutput()
			acked := bytes.Contains(out, []byte("ACK"))
			got, err := c20dump(dj)
			where := fmt.Sprintf("killed before system call %d/%d of the update (%s #%d: %s)", j+1, len(pts), p.name, p.ordinal, truncLine(p.line))
			if err != nil {
				rt.Fatalf("%s: %s: after restart %v\nfiles: %s", desc, where, err, lsDir(dj))
			}
			if got != oldState && got != newState {
				rt.Fatalf("%s: %s: after restart the stores hold neither the old nor the new value\n--- old\n%s--- new\n%s--- found\n%s", desc, where, clip(oldState), clip(newState), clip(got))
			}
			if acked && got != newState {
				rt.Fatalf("%s: %s: the update was acknowledged but is lost after restart", desc, where)
			}
			// life goes on: the restarted server makes one more update (whatever the crash left lying around must not leak into it)
			if out, err := exec.Command(helper, dj, js(fu)).CombinedOutput(); err != nil || !bytes.Contains(out, []byte("ACK")) {
				rt.Fatalf("%s: %s: after the restart the next update (%s) fails: %v %s\nfiles: %s", desc, where, opsDesc([]c20op{fu}), err, out, lsDir(dj))
			}
			got2, err := c20dump(dj)
			if err != nil {
				rt.Fatalf("%s: %s: after the restart and one more update (%s) %v\nfiles: %s", desc, where, opsDesc([]c20op{fu}), err, lsDir(dj))
			}
			if miss := c20effect(dj, fu); miss != "" {
				rt.Fatalf("%s: %s: the update made after the restart was acknowledged but: %s", desc, where, miss)
			}
			if got2 != fuState[got] {
				rt.Fatalf("%s: %s: after the restart and one more update (%s) the stores do not hold that update applied to what the restart had loaded\n--- expected\n%s--- found\n%s", desc, where, opsDesc([]c20op{fu}), clip(fuState[got]), clip(got2))
			}
			// ... and the accounts the interrupted update was about can be edited in place: an acknowledged edit is what the
			// next restart loads, whatever the crash left lying around; and no other account pays for it
			if store == "acct" {
				seenEd := map[string]bool{}
				for _, l := range []string{ops[n-1].Login, ops[n-1].NewLogin} {
					if l == "" || l == "admin" || seenEd[l] || !strings.Contains(got2, fmt.Sprintf("ACCOUNT login=%q ", l)) {
						continue
					}
					seenEd[l] = true
					before, _ := c20dump(dj)
					ed := c20op{Store: "acct", Op: "update", Login: l, Name: "edited after the crash", Access: []byte{0x20, 0, 0, 0, 0, 0, 0, 0}}
					out, _ := exec.Command(helper, dj, js(ed)).CombinedOutput()
					after, err := c20dump(dj)
					if err != nil {
						rt.Fatalf("%s: %s: after the restart and an edit of %q %v\nfiles: %s", desc, where, l, err, lsDir(dj))
					}
					if !bytes.Contains(out, []byte("ACK")) {
						rt.Fatalf("%s: %s: after the restart the account %q, which the restart had loaded, cannot be edited: %s\nfiles: %s", desc, where, l, bytes.TrimSpace(out), lsDir(dj))
					}
					if !strings.Contains(after, fmt.Sprintf("ACCOUNT login=%q name=%q ", l, "edited after the crash")) {
						rt.Fatalf("%s: %s: after the restart an edit of account %q was acknowledged, but the next restart does not load the edited account\n--- loaded\n%s\nfiles: %s", desc, where, l, clip(after), lsDir(dj))
					}
					for _, line := range strings.Split(before, "\n") {
						if strings.HasPrefix(line, "ACCOUNT ") && !strings.HasPrefix(line, fmt.Sprintf("ACCOUNT login=%q ", l)) && !strings.Contains(after, line) {
							rt.Fatalf("%s: %s: after the restart the edit of account %q changed another account: %s", desc, where, l, line)
						}
					}
				}
			}
			// ... and when the interrupted update was a rename that did not go through, the administrator repeats it, gives the
			// old login to a new account and edits that one - all without another restart: both accounts are what the next
			// restart loads
			if last := ops[n-1]; store == "acct" && last.Op == "rename" && last.Login != "admin" {
				cur, _ := c20dump(dj)
				if strings.Contains(cur, fmt.Sprintf("ACCOUNT login=%q ", last.Login)) && !strings.Contains(cur, fmt.Sprintf("ACCOUNT login=%q ", last.NewLogin)) {
					pwh := "$2a$04$abcdefghijklmnopqrstuuJ3TC0X0yZ0yZ0yZ0yZ0yZ0yZ0yZ0yZ0"
					seq := c20op{Store: "acct", Op: "seq", Burst: []c20op{
						{Store: "acct", Op: "rename", Login: last.Login, NewLogin: last.NewLogin, Name: "renamed at the second attempt", Access: []byte{0x10, 0, 0, 0, 0, 0, 0, 0}},
						{Store: "acct", Op: "create", Login: last.Login, Name: "a new account under the old login", Access: []byte{0x08, 0, 0, 0, 0, 0, 0, 0}, Password: pwh},
						{Store: "acct", Op: "update", Login: last.Login, Name: "the new account, edited", Access: []byte{0x08, 0, 0, 0, 0, 0, 0, 0}},
					}}
					out, _ := exec.Command(helper, dj, js(seq)).CombinedOutput()
					after, err := c20dump(dj)
					if err != nil {
						rt.Fatalf("%s: %s: after the restart, a repeated rename, a new account under the old login and an edit of it: %v\nfiles: %s", desc, where, err, lsDir(dj))
					}
					if bytes.Contains(out, []byte("ACK")) {
						for _, w := range []string{fmt.Sprintf("ACCOUNT login=%q name=%q ", last.NewLogin, "renamed at the second attempt"), fmt.Sprintf("ACCOUNT login=%q name=%q ", last.Login, "the new account, edited")} {
							if !strings.Contains(after, w) {
								rt.Fatalf("%s: %s: after the restart the rename %s->%s was repeated, a new account %q created and edited (all acknowledged, no restart in between), but the next restart does not load: %s\n--- loaded\n%s\nfiles: %s", desc, where, last.Login, last.NewLogin, last.Login, w, clip(after), lsDir(dj))
							}
						}
					}
				}
			}
			// ... and the accounts the interrupted update was about can still be removed: an acknowledged deletion is a change
			// like any other (gone after the next restart), a refused one changes nothing
			if store == "acct" {
				seen := map[string]bool{}
				for _, l := range []string{ops[n-1].Login, ops[n-1].NewLogin} {
					if l == "" || l == "admin" || seen[l] || !strings.Contains(got2, fmt.Sprintf("ACCOUNT login=%q ", l)) {
						continue
					}
					seen[l] = true
					before, _ := c20dump(dj)
					del := c20op{Store: "acct", Op: "delete", Login: l}
					out, _ := exec.Command(helper, dj, js(del)).CombinedOutput()
					after, err := c20dump(dj)
					if err != nil {
						rt.Fatalf("%s: %s: after the restart and a deletion of %q %v\nfiles: %s", desc, where, l, err, lsDir(dj))
					}
					if bytes.Contains(out, []byte("ACK")) {
						if strings.Contains(after, fmt.Sprintf("ACCOUNT login=%q ", l)) {
							rt.Fatalf("%s: %s: after the restart the deletion of account %q was acknowledged, but the next restart loads the account again\nfiles: %s", desc, where, l, lsDir(dj))
						}
					} else if after != before {
						rt.Fatalf("%s: %s: after the restart the deletion of account %q was refused (%s) but changed what a restart loads\n--- before\n%s--- after\n%s", desc, where, l, bytes.TrimSpace(out), clip(before), clip(after))
					}
				}
			}
			// ... and a login the interrupted update was about to introduce can be created afresh (the administrator's natural
			// next step when a rename did not go through) without costing any other account its file
			if nl := ops[n-1].NewLogin; store == "acct" && nl != "" {
				before, _ := c20dump(dj)
				if !strings.Contains(before, fmt.Sprintf("ACCOUNT login=%q ", nl)) {
					mk := c20op{Store: "acct", Op: "create", Login: nl, Name: "created after the crash", Access: []byte{0x40, 0, 0, 0, 0, 0, 0, 0}, Password: "$2a$04$abcdefghijklmnopqrstuuJ3TC0X0yZ0yZ0yZ0yZ0yZ0yZ0yZ0yZ0"}
					out, _ := exec.Command(helper, dj, js(mk)).CombinedOutput()
					after, err := c20dump(dj)
					if err != nil {
						rt.Fatalf("%s: %s: after the restart and a creation of %q %v\nfiles: %s", desc, where, nl, err, lsDir(dj))
					}
					for _, line := range strings.Split(before, "\n") {
						if strings.HasPrefix(line, "ACCOUNT ") && !strings.Contains(after, line) {
							rt.Fatalf("%s: %s: after the restart the creation of account %q (acknowledged: %v) made another account disappear from what the next restart loads: %s\nfiles: %s", desc, where, nl, bytes.Contains(out, []byte("ACK")), line, lsDir(dj))
						}
					}
					if bytes.Contains(out, []byte("ACK")) && !strings.Contains(after, fmt.Sprintf("ACCOUNT login=%q ", nl)) {
						rt.Fatalf("%s: %s: after the restart the creation of account %q was acknowledged but the next restart does not load it", desc, where, nl)
					}
				}
			}
			nt := first >= 0 && j > first && j <= lastMut
			ev.Case(evid.Hash(desc, j, legacy), nt, "store:"+store, "op:"+ops[n-1].Op, fmt.Sprintf("in-window:%v", nt), fmt.Sprintf("legacy-account-migration:%v", legacy))
			os.RemoveAll(dj)
		}
		if ev.WantSample() {
			var calls []string
			for _, p := range pts {
				calls = append(calls, fmt.Sprintf("%s#%d", p.name, p.ordinal))
			}
			ev.Sample(map[string]any{"store": store, "update_sequence": opsDesc(ops), "crash_points(before each)": calls, "first_mutating": first + 1, "last_mutating": lastMut + 1})
		}
		ev.SetExtra("exhaustive", true)
		ev.SetExtra("exhaustive_note", "per generated update: a kill before every file system call of the main thread, plus the complete run")
	}
}

func truncLine(l string) string {
	if len(l) > 110 {
		return l[:110] + "..."
	}
	return l
}

func clip(s string) string {
	if len(s) > 1500 {
		return s[:1500] + "...\n"
	}
	return s
}

func lsDir(d string) string {
	var out []string
	_ = filepath.Walk(d, func(p string, info os.FileInfo, err error) error {
		if err == nil && !info.IsDir() {
			rel, _ := filepath.Rel(d, p)
			out = append(out, fmt.Sprintf("%s(%d)", rel, info.Size()))
		}
		return nil
	})
	return strings.Join(out, " ")
}

func opsDesc(ops []c20op) string {
	var s []string
	for _, o := range ops {
		if o.Op == "burst" {
			s = append(s, "at-the-same-time{"+opsDesc(o.Burst)+"}")
			continue
		}
		switch o.Store {
		case "board":
			s = append(s, fmt.Sprintf("post(%d bytes)", len(o.Text)))
		case "ban":
			s = append(s, fmt.Sprintf("ban(%s perm=%v)", o.IP, o.Perm))
		case "acct":
			s = append(s, fmt.Sprintf("%s(%s%s)", o.Op, o.Login, map[bool]string{true: "->" + o.NewLogin, false: ""}[o.NewLogin != ""]))
		default:
			s = append(s, fmt.Sprintf("%s(%v %s id=%d body=%d)", o.Op, o.Path, o.Name, o.ID, len(o.Body)))
		}
	}
	return strings.Join(s, ", ")
}

func TestC20(t *testing.T) {
	ev := evid.New("C20", "TestC20")
	defer ev.Flush()
	rapid.Check(t, c20prop(ev))
}

// TestC20Acked: the other half of "never the loss of a change that had already been acknowledged to
// a client".  Changes are made through the protocol; at the instant the client holds the reply
// (quiescence, no time has passed since) the files are copied, as a crash at that instant would
// leave them, and fresh stores loaded from the copy must hold the change.
func TestC20Acked(t *testing.T) {
	ev := evid.New("C20", "TestC20Acked")
	defer ev.Flush()
	rapid.Check(t, func(rt *rapid.T) {
		n := rapid.IntRange(1, 6).Draw(rt, "nchanges")
		kinds := rapid.SliceOfN(rapid.SampledFrom([]string{"post-board", "ban-temp", "ban-perm", "new-user", "set-user", "update-user-rename", "delete-user", "news-category", "news-post", "news-post", "news-reply", "news-reply", "news-delete-article"}), n, n).Draw(rt, "kinds")
		inWorld(rt, hlsim.Options{Agreement: "a", Board: "old board\r", Accounts: []hlsim.AccountSpec{acct("admin", "Admin", "adminpw", allAccess), acct("victim", "Victim", "vpw", hlref.Access{}), acct("spare", "Spare", "spw", hlref.Access{})}}, func(rt *rapid.T, w *hlsim.World) {
			admin := loginAs(rt, w, "10.20.0.1:1", "admin", "adminpw", "admin")
			crashCopy := func() string {
				d, err := os.MkdirTemp(worldBase(), "c20acked-")
				must(err)
				must(copyDir(w.Cfg, d))
				return d
			}
			cats, posted, victims := 0, 0, 0
			for i, k := range kinds {
				var r *hlref.Tran
				var missing func(dir string) string
				switch k {
				case "post-board":
					text := fmt.Sprintf("acknowledged post %d", i)
					r = admin.Request(hlref.TranOldPostNews, sfld(hlref.FData, text))
					missing = func(dir string) string {
						b, _ := os.ReadFile(filepath.Join(dir, "MessageBoard.txt"))
						if !bytes.Contains(b, []byte(text)) {
							return "the post is not in MessageBoard.txt"
						}
						return ""
					}
				case "ban-temp", "ban-perm":
					victims++
					addr := fmt.Sprintf("10.20.1.%d", victims)
					v := loginAs(rt, w, addr+":7", "victim", "vpw", "victim")
					us, _ := admin.UserList()
					id := 0
					for _, u := range us {
						if u.ID > id {
							id = u.ID
						}
					}
					_ = v
					opt := map[string]int{"ban-temp": 1, "ban-perm": 2}[k]
					r = admin.Request(hlref.TranDisconnectUser, fld(hlref.FUserID, hlref.BE16(id)), fld(hlref.FOptions, hlref.BE16(opt)))
					missing = func(dir string) string {
						bf, err := verifhooks.NewBanFile(filepath.Join(dir, "Banlist.yaml"))
						if err != nil {
							return "the ban list does not load: " + err.Error()
						}
						if is, _ := bf.IsBanned(addr); !is {
							return "the ban of " + addr + " is not in Banlist.yaml"
						}
						return ""
					}
				case "new-user":
					login := fmt.Sprintf("made%d", i)
					r = admin.Request(hlref.TranNewUser, fld(hlref.FUserLogin, hlref.Obfuscate([]byte(login))), sfld(hlref.FUserName, "Made"), fld(hlref.FUserPassword, hlref.Obfuscate([]byte("p"))), fld(hlref.FUserAccess, make([]byte, 8)))
					missing = func(dir string) string {
						am, err := verifhooks.NewYAMLAccountManager(filepath.Join(dir, "Users"))
						if err != nil {
							return "accounts do not load: " + err.Error()
						}
						if am.Get(login) == nil {
							return "the new account " + login + " is not on disk"
						}
						return ""
					}
				case "set-user":
					name := fmt.Sprintf("Renamed %d", i)
					r = admin.Request(hlref.TranSetUser, fld(hlref.FUserLogin, hlref.Obfuscate([]byte("spare"))), sfld(hlref.FUserName, name), fld(hlref.FUserAccess, make([]byte, 8)), fld(hlref.FUserPassword, []byte{0}))
					missing = func(dir string) string {
						am, err := verifhooks.NewYAMLAccountManager(filepath.Join(dir, "Users"))
						if err != nil {
							return "accounts do not load: " + err.Error()
						}
						if a := am.Get("spare"); a == nil || a.Name != name {
							return "the edited account does not carry its new name on disk"
						}
						return ""
					}
				case "update-user-rename", "delete-user":
					login := fmt.Sprintf("tmp%d", i)
					if !okReply(admin.Request(hlref.TranNewUser, fld(hlref.FUserLogin, hlref.Obfuscate([]byte(login))), sfld(hlref.FUserName, "T"), fld(hlref.FUserPassword, hlref.Obfuscate([]byte("p"))), fld(hlref.FUserAccess, make([]byte, 8)))) {
						rt.Fatalf("harness: new-user")
					}
					if k == "delete-user" {
						r = admin.Request(hlref.TranDeleteUser, fld(hlref.FUserLogin, hlref.Obfuscate([]byte(login))))
						missing = func(dir string) string {
							am, err := verifhooks.NewYAMLAccountManager(filepath.Join(dir, "Users"))
							if err != nil {
								return "accounts do not load: " + err.Error()
							}
							if am.Get(login) != nil {
								return "the deleted account " + login + " is still on disk"
							}
							return ""
						}
					} else {
						nl := login + "x"
						r = admin.Request(hlref.TranUpdateUser, fld(hlref.FData, subFields(fld(hlref.FData, hlref.Obfuscate([]byte(login))), fld(hlref.FUserLogin, hlref.Obfuscate([]byte(nl))), sfld(hlref.FUserName, "T"), fld(hlref.FUserAccess, make([]byte, 8)), fld(hlref.FUserPassword, []byte{0}))))
						missing = func(dir string) string {
							am, err := verifhooks.NewYAMLAccountManager(filepath.Join(dir, "Users"))
							if err != nil {
								return "accounts do not load: " + err.Error()
							}
							if am.Get(nl) == nil || am.Get(login) != nil {
								return fmt.Sprintf("after the acknowledged rename %s -> %s the disk has new=%v old=%v", login, nl, am.Get(nl) != nil, am.Get(login) != nil)
							}
							return ""
						}
					}
				case "news-category", "news-post", "news-reply", "news-delete-article":
					if cats == 0 || k == "news-category" {
						cats++
						name := fmt.Sprintf("Cat%d", cats)
						r = admin.Request(hlref.TranNewNewsCat, sfld(hlref.FNewsCatName, name))
						missing = func(dir string) string {
							tn, err := verifhooks.NewThreadedNewsYAML(filepath.Join(dir, "ThreadedNews.yaml"))
							if err != nil {
								return "news does not load: " + err.Error()
							}
							if _, ok := tn.ThreadedNews.Categories[name]; !ok {
								return "the new category is not in the news file"
							}
							return ""
						}
						break
					}
					if k == "news-post" || k == "news-reply" || posted == 0 {
						parent := 0
						if k == "news-reply" && posted > 0 {
							parent = rapid.IntRange(1, posted).Draw(rt, fmt.Sprintf("parent%d", i)) // a reply (the first one links the parent to it)
						}
						posted++
						title := fmt.Sprintf("acknowledged article %d", i)
						r = admin.Request(hlref.TranPostNewsArt, newsPath([]string{"Cat1"}), fld(hlref.FNewsArtID, hlref.BE32(parent)), sfld(hlref.FNewsArtTitle, title), sfld(hlref.FNewsArtDataFlav, "text/plain"), sfld(hlref.FNewsArtData, "body"))
						missing = func(dir string) string {
							tn, err := verifhooks.NewThreadedNewsYAML(filepath.Join(dir, "ThreadedNews.yaml"))
							if err != nil {
								return "news does not load: " + err.Error()
							}
							found := false
							for _, a := range tn.ThreadedNews.Categories["Cat1"].Articles {
								if a.Title == title {
									found = true
								}
							}
							if !found {
								return "the posted article is not in the news file"
							}
							// the whole change: what the running server holds for the category (links included) is what the file holds
							mem, _ := yaml.Marshal(w.News.ThreadedNews.Categories["Cat1"])
							disk, _ := yaml.Marshal(tn.ThreadedNews.Categories["Cat1"])
							if string(mem) != string(disk) {
								return fmt.Sprintf("the category as the server holds it differs from the news file\n--- server\n%s--- file\n%s", mem, disk)
							}
							return ""
						}
						break
					}
					id := posted
					posted = 0
					r = admin.Request(hlref.TranDelNewsArt, newsPath([]string{"Cat1"}), fld(hlref.FNewsArtID, hlref.BE32(id)))
					missing = func(dir string) string {
						tn, err := verifhooks.NewThreadedNewsYAML(filepath.Join(dir, "ThreadedNews.yaml"))
						if err != nil {
							return "news does not load: " + err.Error()
						}
						if _, ok := tn.ThreadedNews.Categories["Cat1"].Articles[uint32(id)]; ok {
							return "the deleted article is still in the news file"
						}
						return ""
					}
				}
				if !okReply(r) {
					rt.Fatalf("harness: change %d (%s) refused: %s", i, k, replySummary(r))
				}
				// the client holds the acknowledgement; this is what a crash right now leaves on disk
				d := crashCopy()
				miss := missing(d)
				os.RemoveAll(d)
				if miss != "" {
					rt.Fatalf("change %d (%s of %v) was acknowledged to the client, but a crash at that instant loses it: %s", i, k, kinds, miss)
				}
				settle(3 * time.Second)
				admin.TakeInbox()
			}
		})
		ev.Case(evid.Hash("acked", fmt.Sprint(kinds)), true, "acknowledged-then-crash", fmt.Sprintf("changes:%d", n))
	})
}
