package props

// C03 with many peers that do nothing wrong except not reading: 64 to 200 logged-in
// connections stop reading while the server has something to send to each of them.  However
// many they are, the well-behaved client is answered; when they are gone, the user list is
// back to what the well-behaved clients account for.

import (
	"bytes"
	"fmt"
	"testing"
	"time"

	"pgregory.net/rapid"

	"verif/harness/evid"
	"verif/harness/hlref"
	"verif/harness/hlsim"
)

func TestC03Stalled(t *testing.T) {
	ev := evid.New("C03", "TestC03Stalled")
	defer ev.Flush()
	rapid.Check(t, func(rt *rapid.T) {
		n := rapid.SampledFrom([]int{100, 64, 65, 63, 128, 200}).Draw(rt, "peersNotReading")
		size := rapid.SampledFrom([]int{10, 5000}).Draw(rt, "broadcastSize")
		inWorld(rt, hlsim.Options{Agreement: "a", Board: "board", Accounts: []hlsim.AccountSpec{acct("good", "Good", "gpw", allAccess), acct("hostile", "Hostile", "hpw", hlref.AccessOf(hlref.PrivReadChat))}}, func(rt *rapid.T, w *hlsim.World) {
			sentinel := loginAs(rt, w, "10.3.9.1:1", "good", "gpw", "sentinel")
			var hs []*hlsim.Conn
			for i := 0; i < n; i++ {
				hs = append(hs, loginAs(rt, w, fmt.Sprintf("10.3.%d.%d:1", 10+i/200, 1+i%200), "hostile", "hpw", fmt.Sprintf("h%d", i)))
			}
			settle(time.Second)
			for _, h := range hs {
				h.TakeInbox()
			}
			sentinel.TakeInbox()
			for _, h := range hs {
				h.SetSlow(1, 1000*time.Hour) // reads one more byte, then nothing
			}
			// something for everybody: broadcasts queue up for each of the peers that do not read (the read a peer had pending
			// when it stopped still takes the first one)
			for b := 0; b < 3; b++ {
				if r := sentinel.Request(hlref.TranUserBroadcast, fld(hlref.FData, bytes.Repeat([]byte{byte('A' + b)}, size))); !okReply(r) {
					rt.Fatalf("with %d logged-in peers that do not read: broadcast request %d of the well-behaved client got no reply", n, b+1)
				}
			}
			for k, typ := range []int{hlref.TranKeepAlive, hlref.TranGetUserNameList, hlref.TranGetMsgs, hlref.TranKeepAlive} {
				if r := sentinel.Request(typ); r == nil || r.IsReply != 1 {
					rt.Fatalf("with %d logged-in peers that do not read (a %d-byte broadcast is waiting for each of them): request %d (type %d) of the well-behaved client got no reply", n, size, k, typ)
				}
			}
			// a newcomer is served as well
			nc := w.Connect("10.3.9.2:1")
			if r := nc.Login(hlsim.LoginOpts{Login: "good", Password: "gpw", Name: []byte("newcomer"), Icon: 1}); r == nil || r.Err != 0 {
				rt.Fatalf("with %d logged-in peers that do not read: a well-behaved newcomer cannot log in (%s)", n, replySummary(r))
			}
			for _, h := range hs {
				h.Close()
			}
			settle(8 * time.Second)
			us, err := sentinel.UserList()
			if err != nil || len(us) != 2 {
				rt.Fatalf("after the %d peers that did not read are gone the user list has %d entries (%v); the two well-behaved clients account for 2", n, len(us), err)
			}
		})
		ev.Case(evid.Hash("stalled", n, size), n >= 64, fmt.Sprintf("peers:%d", n))
		if ev.WantSample() {
			ev.Sample(map[string]any{"logged_in_peers_that_stop_reading": n, "broadcast_bytes": size})
		}
	})
}
