package props

// C15 — accounts: what can log in = what is listed = what is on disk.

import (
	"bytes"
	"fmt"
	"os"
	"path/filepath"
	"sort"
	"strings"
	"testing"
	"unicode/utf8"

	"github.com/jhalter/mobius/verifhooks"
	"golang.org/x/crypto/bcrypt"
	"gopkg.in/yaml.v3"
	"pgregory.net/rapid"

	"verif/harness/evid"
	"verif/harness/hlref"
	"verif/harness/hlsim"
)

type c15acct struct {
	name   string
	access hlref.Access
	pw     string
}

type c15state struct {
	rt          *rapid.T
	w           *hlsim.World
	admin       *hlsim.Conn
	model       map[string]*c15acct
	logins      []string // every login ever used (pool)
	pws         []string // every password ever used
	history     []string
	edits       int
	nt          bool
	ev          *evid.Rec
	addr        int
	pendingOld  []string // logins renamed away / deleted, not yet probed
	refused     int
	adminEdited bool
	adminName   string
}

var c15LoginPool = []string{"alice", "bob", "Bob", "al ice", "a.b", "..a", "*", "x\ny", "caf\xe9", "\xff\xfe", "-", "~", "#1", "a b c", "guest2", strings.Repeat("L", 200), "q:r", "tab\there", "yaml: {x}", "'quoted'"}
var c15PwPool = []string{"", "pw", "secret", "p w", "\x01", "\xfe", strings.Repeat("k", 72), "abc", "abd", "\xffa", strings.Repeat("Q", 73), strings.Repeat("m", 100), strings.Repeat("N", 255)} // \xff is 0x00 on the wire: only the single byte 0x00 means "unchanged" (all-zero wire passwords are left out: bcrypt cannot tell them from the empty password)

func (s *c15state) genLogin(label string, wantExisting, wantFresh bool) (string, bool) {
	var ex, fresh []string
	for _, l := range c15LoginPool {
		if _, ok := s.model[l]; ok {
			ex = append(ex, l)
		} else {
			fresh = append(fresh, l)
		}
	}
	if wantExisting {
		if len(ex) == 0 {
			return "", false
		}
		return rapid.SampledFrom(ex).Draw(s.rt, label), true
	}
	if wantFresh {
		if len(fresh) == 0 {
			return "", false
		}
		return rapid.SampledFrom(fresh).Draw(s.rt, label), true
	}
	return rapid.SampledFrom(c15LoginPool).Draw(s.rt, label), true
}

func (s *c15state) genPw(label string) string {
	p := rapid.SampledFrom(c15PwPool).Draw(s.rt, label)
	s.usePw(p)
	return p
}

func (s *c15state) usePw(p string) {
	for _, q := range s.pws {
		if q == p {
			return
		}
	}
	s.pws = append(s.pws, p)
}

// adminAcct: the administrator's own account, whose name the administrator may edit while logged in
func (s *c15state) adminAcct() *c15acct {
	if !s.adminEdited {
		return &c15acct{name: "Admin", access: allAccess, pw: "adminpw"}
	}
	return &c15acct{name: s.adminName, access: allAccess, pw: "adminpw"}
}

func (s *c15state) genName(label string) string {
	var n string
	switch rapid.IntRange(0, 3).Draw(s.rt, label+"_k") {
	case 0:
		n = rapid.SampledFrom([]string{"", "Name", "Na\nme", "N: {y}", "caf\xe9 \xff", strings.Repeat("n", 200), strings.Repeat("w", 300), strings.Repeat("W", 500), strings.Repeat("v", 2000), "\nlead", "\ttab\nline", "\t\n", "\n", "\u2028x\ny", " sp\nline"}).Draw(s.rt, label)
	default:
		n = string(genBytes(s.rt, label, rapid.IntRange(0, 24).Draw(s.rt, label+"_len")))
	}
	return n
}

func (s *c15state) genAccess(label string) hlref.Access { return genAccess(s.rt, label) }

func (s *c15state) reconnectAdmin() {
	s.addr++
	s.admin = loginAs(s.rt, s.w, fmt.Sprintf("10.1.0.%d:%d", s.addr%250+1, 1000+s.addr), "admin", "adminpw", "admin")
}

// tryLogin reports whether (login, pw) authenticates.
func (s *c15state) tryLogin(login, pw string) bool {
	s.addr++
	c := s.w.Connect(fmt.Sprintf("10.2.%d.%d:%d", s.addr/250%250, s.addr%250+1, 2000+s.addr))
	r := c.Login(hlsim.LoginOpts{Login: login, Password: pw, Name: []byte("probe"), Icon: 0})
	c.Close()
	settle(0)
	s.admin.TakeInbox()
	return r != nil
}

func (s *c15state) expectLogin(login, pw string, ctx string) {
	a, ok := s.model[login]
	want := ok && a.pw == pw
	if login == "" {
		want = false // empty login means guest; no guest account exists in this world
	}
	if got := s.tryLogin(login, pw); got != want {
		s.rt.Fatalf("%s: login %q with password %q: accepted=%v, model says %v (account in model: %v)\nhistory: %s", ctx, login, pw, got, want, ok, strings.Join(s.history, " | "))
	}
}

func subFields(fs ...hlref.Field) []byte { return hlref.EncodeFields(fs) }

func pwField(kind string, pw string) (hlref.Field, bool) {
	switch kind {
	case "set":
		return hlref.F(hlref.FUserPassword, hlref.Obfuscate([]byte(pw))), true
	case "keep":
		return hlref.F(hlref.FUserPassword, []byte{0}), true
	}
	return hlref.Field{}, false // absent: clears the password
}

func (s *c15state) applyPw(a *c15acct, kind, pw string) {
	switch kind {
	case "set":
		a.pw = pw
	case "absent":
		a.pw = ""
	}
}

func (s *c15state) mustReply(r *hlref.Tran, what string) {
	if r == nil {
		s.rt.Fatalf("%s: no reply\nhistory: %s", what, strings.Join(s.history, " | "))
	}
	if r.Err != 0 {
		d, _ := r.Get(hlref.FError)
		s.rt.Fatalf("%s: refused: %q\nhistory: %s", what, d, strings.Join(s.history, " | "))
	}
}

// ---- views

func (s *c15state) checkList(ctx string) {
	r := s.admin.Request(hlref.TranListUsers)
	s.mustReply(r, ctx+": list-users")
	got := map[string]*c15acct{}
	hasPw := map[string]bool{}
	for _, d := range r.GetAll(hlref.FData) {
		fs, err := hlref.DecodeSubFields(d)
		if err != nil {
			s.rt.Fatalf("%s: list-users record unparseable: %v (%x)", ctx, err, d)
		}
		t := hlref.Tran{Fields: fs}
		name, _ := t.Get(hlref.FUserName)
		login, _ := t.Get(hlref.FUserLogin)
		acc, _ := t.Get(hlref.FUserAccess)
		_, pw := t.Get(hlref.FUserPassword)
		l := string(hlref.Obfuscate(login))
		if _, dup := got[l]; dup {
			s.rt.Fatalf("%s: login %q listed twice", ctx, l)
		}
		var a hlref.Access
		copy(a[:], acc)
		got[l] = &c15acct{name: string(name), access: a}
		hasPw[l] = pw
	}
	want := map[string]*c15acct{"admin": s.adminAcct()}
	for l, a := range s.model {
		want[l] = a
	}
	for l, a := range want {
		g, ok := got[l]
		if !ok {
			s.rt.Fatalf("%s: account %q missing from list-users (listed: %v)\nhistory: %s", ctx, l, keys(got), strings.Join(s.history, " | "))
		}
		if g.name != a.name || g.access.Defined() != a.access.Defined() || hasPw[l] != (a.pw != "") {
			s.rt.Fatalf("%s: account %q listed as name=%q access=%x haspw=%v, model name=%q access=%x haspw=%v\nhistory: %s", ctx, l, g.name, g.access.Defined(), hasPw[l], a.name, a.access.Defined(), a.pw != "", strings.Join(s.history, " | "))
		}
	}
	for l := range got {
		if _, ok := want[l]; !ok {
			s.rt.Fatalf("%s: list-users shows %q which the model does not have\nhistory: %s", ctx, l, strings.Join(s.history, " | "))
		}
	}
}

func keys[T any](m map[string]T) []string {
	var k []string
	for x := range m {
		k = append(k, x)
	}
	sort.Strings(k)
	return k
}

type c15file struct {
	Login    string          `yaml:"Login"`
	Name     string          `yaml:"Name"`
	Password string          `yaml:"Password"`
	Access   map[string]bool `yaml:"Access"`
}

func (s *c15state) checkDisk(ctx string) {
	want := map[string]*c15acct{"admin": s.adminAcct()}
	for l, a := range s.model {
		want[l] = a
	}
	ents, err := os.ReadDir(s.w.UsersDir)
	if err != nil {
		s.rt.Fatalf("harness: %v", err)
	}
	seen := map[string]bool{}
	hashOf := map[string]string{} // stored hash -> login: equal passwords of two accounts must not show as equal stored values
	for _, e := range ents {
		n := e.Name()
		if !strings.HasSuffix(n, ".yaml") {
			s.rt.Fatalf("%s: stray file %q in accounts directory\nhistory: %s", ctx, n, strings.Join(s.history, " | "))
		}
		l := strings.TrimSuffix(n, ".yaml")
		a, ok := want[l]
		if !ok {
			s.rt.Fatalf("%s: account file %q on disk but not in model\nhistory: %s", ctx, n, strings.Join(s.history, " | "))
		}
		seen[l] = true
		b, _ := os.ReadFile(filepath.Join(s.w.UsersDir, n))
		var f c15file
		if err := yaml.Unmarshal(b, &f); err != nil {
			s.rt.Fatalf("%s: account file %q does not parse: %v", ctx, n, err)
		}
		if f.Login != l || f.Name != a.name {
			s.rt.Fatalf("%s: file %q has Login=%q Name=%q, model login=%q name=%q\nhistory: %s", ctx, n, f.Login, f.Name, l, a.name, strings.Join(s.history, " | "))
		}
		for i, pn := range hlref.PrivilegeNames {
			if f.Access[pn] != a.access.Has(i) {
				s.rt.Fatalf("%s: file %q privilege %s=%v, model %v\nhistory: %s", ctx, n, pn, f.Access[pn], a.access.Has(i), strings.Join(s.history, " | "))
			}
		}
		if !strings.HasPrefix(f.Password, "$2") || f.Password == a.pw {
			s.rt.Fatalf("%s: file %q stores password as %q (not a salted hash)", ctx, n, f.Password)
		}
		if bcrypt.CompareHashAndPassword([]byte(f.Password), hlref.Obfuscate([]byte(a.pw))) != nil {
			s.rt.Fatalf("%s: stored hash of %q does not verify against the model password %q\nhistory: %s", ctx, l, a.pw, strings.Join(s.history, " | "))
		}
		if other, dup := hashOf[f.Password]; dup {
			s.rt.Fatalf("%s: accounts %q and %q are stored with the very same password hash %q: the hashes are not salted\nhistory: %s", ctx, other, l, f.Password, strings.Join(s.history, " | "))
		}
		hashOf[f.Password] = l
		if a.pw != "" && bytes.Contains(b, []byte(a.pw)) && len(a.pw) > 3 {
			s.rt.Fatalf("%s: file %q contains the clear-text password", ctx, n)
		}
	}
	for l := range want {
		if !seen[l] {
			s.rt.Fatalf("%s: no account file for %q\nhistory: %s", ctx, l, strings.Join(s.history, " | "))
		}
	}
}

func (s *c15state) checkFreshManager(ctx string) {
	am, err := verifhooks.NewYAMLAccountManager(s.w.UsersDir)
	if err != nil {
		s.rt.Fatalf("%s: a fresh account manager cannot load the directory: %v\nhistory: %s", ctx, err, strings.Join(s.history, " | "))
	}
	list := am.List()
	if len(list) != len(s.model)+1 {
		s.rt.Fatalf("%s: fresh manager has %d accounts, model %d\nhistory: %s", ctx, len(list), len(s.model)+1, strings.Join(s.history, " | "))
	}
	for l, a := range s.model {
		g := am.Get(l)
		if g == nil || g.Name != a.name || hlref.Access(g.Access) != a.access.Defined() || g.Login != l {
			s.rt.Fatalf("%s: fresh manager loads %q as %+v, model name=%q access=%x\nhistory: %s", ctx, l, g, a.name, a.access.Defined(), strings.Join(s.history, " | "))
		}
	}
}

func (s *c15state) invariant(ctx string) {
	s.checkList(ctx)
	s.checkDisk(ctx)
	for _, l := range s.pendingOld {
		for _, p := range s.pws {
			s.expectLogin(l, p, ctx+" (old login)")
		}
		s.nt = true
	}
	s.pendingOld = nil
}

func c15prop(ev *evid.Rec) func(rt *rapid.T) {
	return func(rt *rapid.T) {
		inWorld(rt, hlsim.Options{Accounts: []hlsim.AccountSpec{acct("admin", "Admin", "adminpw", allAccess)}, Agreement: "a"}, func(rt *rapid.T, w *hlsim.World) {
			s := &c15state{rt: rt, w: w, model: map[string]*c15acct{}, ev: ev, pws: []string{"adminpw"}}
			s.reconnectAdmin()
			rec := func(f string, a ...any) { s.history = append(s.history, fmt.Sprintf(f, a...)) }
			rt.Repeat(map[string]func(*rapid.T){
				"newUser": func(rt *rapid.T) {
					s.rt = rt
					l, _ := s.genLogin("login", false, false)
					if rapid.IntRange(0, 5).Draw(rt, "longlogin") == 0 {
						// logins at the edge of what a file name can hold: <login>.yaml fits, the temporary name used while writing may not
						l = strings.Repeat("M", rapid.SampledFrom([]int{245, 246, 247, 248, 250}).Draw(rt, "loginlen"))
					}
					pw, name, acc := s.genPw("pw"), s.genName("name"), s.genAccess("acc").Defined() // creation must stay within the creator's (defined) privileges: C06
					rec("new-user %q pw=%q", l, pw)
					r := s.admin.Request(hlref.TranNewUser, hlref.F(hlref.FUserLogin, hlref.Obfuscate([]byte(l))), hlref.F(hlref.FUserName, []byte(name)),
						hlref.F(hlref.FUserPassword, hlref.Obfuscate([]byte(pw))), hlref.F(hlref.FUserAccess, acc[:]))
					if _, exists := s.model[l]; !exists && len(l) > 240 && (r == nil || r.Err != 0) {
						// refused (the account file cannot be written): then the account must not exist in any view - the invariant
						// and the login attempt check exactly that, the model stays as it was
						rec("  (refused)")
						s.expectLogin(l, pw, "after a refused new-user")
						s.refused++
						return
					}
					if _, exists := s.model[l]; exists {
						if r == nil || r.Err == 0 {
							rt.Fatalf("new-user for existing login %q was not refused", l)
						}
					} else {
						s.mustReply(r, "new-user "+l)
						s.model[l] = &c15acct{name: name, access: acc, pw: pw}
						s.edits++
						s.expectLogin(l, pw, "after new-user")
					}
				},
				"newUserOverTakenFile": func(rt *rapid.T) {
					// a creation whose login is not a file name but resolves to the account file of an existing account
					// ("./ops" next to "ops"): whatever the server answers, the existing account stays what it is in all three
					// views, and the odd login opens no door
					s.rt = rt
					l, ok := s.genLogin("login", true, false)
					if !ok || strings.ContainsAny(l, "\x00") {
						rt.Skip("no account")
					}
					sp := rapid.SampledFrom([]string{"./", "../", "/", "x/../", ".//"}).Draw(rt, "spelling") + l
					via := rapid.SampledFrom([]string{"new-user", "update-user"}).Draw(rt, "via")
					acc := s.genAccess("acc").Defined()
					rec("%s %q (the file of %q)", via, sp, l)
					var r *hlref.Tran
					if via == "new-user" {
						r = s.admin.Request(hlref.TranNewUser, hlref.F(hlref.FUserLogin, hlref.Obfuscate([]byte(sp))), hlref.F(hlref.FUserName, []byte("shadow")),
							hlref.F(hlref.FUserPassword, hlref.Obfuscate([]byte("shadowpw"))), hlref.F(hlref.FUserAccess, acc[:]))
					} else {
						r = s.admin.Request(hlref.TranUpdateUser, hlref.F(hlref.FData, subFields(hlref.F(hlref.FUserLogin, hlref.Obfuscate([]byte(sp))), hlref.F(hlref.FUserName, []byte("shadow")),
							hlref.F(hlref.FUserPassword, hlref.Obfuscate([]byte("shadowpw"))), hlref.F(hlref.FUserAccess, acc[:]))))
					}
					if r != nil && r.Err == 0 {
						rt.Fatalf("%s with login %q, which resolves to the account file of the existing account %q, was accepted\nhistory: %s", via, sp, l, strings.Join(s.history, " | "))
					}
					s.usePw("shadowpw")
					if s.tryLogin(sp, "shadowpw") {
						rt.Fatalf("after the refused %s, login %q is accepted\nhistory: %s", via, sp, strings.Join(s.history, " | "))
					}
					s.expectLogin(l, s.model[l].pw, "after a refused creation over the account's file")
				},
				"setUser": func(rt *rapid.T) {
					s.rt = rt
					l, ok := s.genLogin("login", true, false)
					if !ok {
						rt.Skip("no account")
					}
					kind := rapid.SampledFrom([]string{"set", "keep", "absent"}).Draw(rt, "pwkind")
					pw, name, acc := s.genPw("pw"), s.genName("name"), s.genAccess("acc")
					rec("set-user %q pw:%s=%q", l, kind, pw)
					fs := []hlref.Field{hlref.F(hlref.FUserLogin, hlref.Obfuscate([]byte(l))), hlref.F(hlref.FUserName, []byte(name)), hlref.F(hlref.FUserAccess, acc[:])}
					if f, ok := pwField(kind, pw); ok {
						fs = append(fs, f)
					}
					s.mustReply(s.admin.Request(hlref.TranSetUser, fs...), "set-user "+l)
					a := s.model[l]
					a.name, a.access = name, acc
					s.applyPw(a, kind, pw)
					s.edits++
					s.expectLogin(l, a.pw, "after set-user")
				},
				"updateUser": func(rt *rapid.T) {
					s.rt = rt
					n := rapid.IntRange(1, 4).Draw(rt, "nops")
					var fields []hlref.Field
					var post []func()
					for i := 0; i < n; i++ {
						op := rapid.SampledFrom([]string{"create", "modify", "rename", "delete"}).Draw(rt, fmt.Sprintf("op%d", i))
						switch op {
						case "create":
							l, ok := s.genLogin(fmt.Sprintf("l%d", i), false, true)
							if !ok {
								continue
							}
							pw, name, acc := s.genPw(fmt.Sprintf("pw%d", i)), s.genName(fmt.Sprintf("n%d", i)), s.genAccess(fmt.Sprintf("a%d", i)).Defined()
							rec("update-user create %q pw=%q", l, pw)
							fields = append(fields, hlref.F(hlref.FData, subFields(hlref.F(hlref.FUserLogin, hlref.Obfuscate([]byte(l))), hlref.F(hlref.FUserName, []byte(name)),
								hlref.F(hlref.FUserPassword, hlref.Obfuscate([]byte(pw))), hlref.F(hlref.FUserAccess, acc[:]))))
							s.model[l] = &c15acct{name: name, access: acc, pw: pw}
							post = append(post, func() { s.expectLogin(l, pw, "after batched create") })
						case "modify", "rename":
							l, ok := s.genLogin(fmt.Sprintf("l%d", i), true, false)
							if !ok {
								continue
							}
							kind := rapid.SampledFrom([]string{"set", "keep", "absent"}).Draw(rt, fmt.Sprintf("pk%d", i))
							pw, name, acc := s.genPw(fmt.Sprintf("pw%d", i)), s.genName(fmt.Sprintf("n%d", i)), s.genAccess(fmt.Sprintf("a%d", i))
							newL := l
							sub := []hlref.Field{}
							if op == "rename" {
								nl, ok := s.genLogin(fmt.Sprintf("nl%d", i), false, true)
								if !ok {
									continue
								}
								newL = nl
								sub = append(sub, hlref.F(hlref.FData, hlref.Obfuscate([]byte(l))))
							}
							rec("update-user %s %q->%q pw:%s=%q", op, l, newL, kind, pw)
							sub = append(sub, hlref.F(hlref.FUserLogin, hlref.Obfuscate([]byte(newL))), hlref.F(hlref.FUserName, []byte(name)), hlref.F(hlref.FUserAccess, acc[:]))
							if f, ok := pwField(kind, pw); ok {
								sub = append(sub, f)
							}
							fields = append(fields, hlref.F(hlref.FData, subFields(sub...)))
							a := s.model[l]
							a.name, a.access = name, acc
							s.applyPw(a, kind, pw)
							if newL != l {
								delete(s.model, l)
								s.model[newL] = a
								s.pendingOld = append(s.pendingOld, l)
							}
							fp := a.pw
							post = append(post, func() {
								if _, still := s.model[newL]; still && s.model[newL].pw == fp {
									s.expectLogin(newL, fp, "after batched "+op)
								}
							})
						case "delete":
							l, ok := s.genLogin(fmt.Sprintf("l%d", i), true, false)
							if !ok {
								ev.Exclude("batched delete of a non-existent login (aborts the batch without reply; outside the statement)")
								continue
							}
							rec("update-user delete %q", l)
							fields = append(fields, hlref.F(hlref.FData, subFields(hlref.F(hlref.FData, hlref.Obfuscate([]byte(l))))))
							delete(s.model, l)
							s.pendingOld = append(s.pendingOld, l)
						}
					}
					if len(fields) == 0 {
						rt.Skip("empty batch")
					}
					s.mustReply(s.admin.Request(hlref.TranUpdateUser, fields...), "update-user")
					s.edits += len(fields)
					for _, f := range post {
						f()
					}
				},
				"deleteUser": func(rt *rapid.T) {
					s.rt = rt
					l, ok := s.genLogin("login", true, false)
					if !ok {
						rt.Skip("no account")
					}
					rec("delete-user %q", l)
					s.mustReply(s.admin.Request(hlref.TranDeleteUser, hlref.F(hlref.FUserLogin, hlref.Obfuscate([]byte(l)))), "delete-user "+l)
					delete(s.model, l)
					s.pendingOld = append(s.pendingOld, l)
					s.edits++
				},
				"editOwnAccount": func(rt *rapid.T) {
					// the administrator edits the account it is logged in with (the name only: privileges and password stay) and asks
					// for it straight away: what administrators are shown is the account as it is now
					s.rt = rt
					name := s.genName("ownName")
					rec("admin edits its own account: name %q", name)
					aa := allAccess
					s.mustReply(s.admin.Request(hlref.TranSetUser, fld(hlref.FUserLogin, hlref.Obfuscate([]byte("admin"))), fld(hlref.FUserName, []byte(name)), fld(hlref.FUserAccess, aa[:]), fld(hlref.FUserPassword, []byte{0})), "set-user admin")
					s.adminEdited, s.adminName = true, name
					s.edits++
					r := s.admin.Request(hlref.TranGetUser, hlref.F(hlref.FUserLogin, []byte("admin")))
					s.mustReply(r, "get-user admin")
					if got, _ := r.Get(hlref.FUserName); string(got) != name {
						rt.Fatalf("get-user for the administrator's own account shows the name %q after it was set to %q\nhistory: %s", got, name, strings.Join(s.history, " | "))
					}
				},
				"getUser": func(rt *rapid.T) {
					s.rt = rt
					l, _ := s.genLogin("login", false, false)
					r := s.admin.Request(hlref.TranGetUser, hlref.F(hlref.FUserLogin, []byte(l)))
					a, ok := s.model[l]
					if !ok {
						if r == nil || r.Err == 0 {
							rt.Fatalf("get-user for unknown login %q not refused\nhistory: %s", l, strings.Join(s.history, " | "))
						}
						return
					}
					s.mustReply(r, "get-user "+l)
					name, _ := r.Get(hlref.FUserName)
					login, _ := r.Get(hlref.FUserLogin)
					acc, _ := r.Get(hlref.FUserAccess)
					var ga hlref.Access
					copy(ga[:], acc)
					if string(name) != a.name || string(hlref.Obfuscate(login)) != l || ga.Defined() != a.access.Defined() {
						rt.Fatalf("get-user %q: name=%q login=%q access=%x, model name=%q access=%x\nhistory: %s", l, name, hlref.Obfuscate(login), ga, a.name, a.access, strings.Join(s.history, " | "))
					}
				},
				"loginAttempt": func(rt *rapid.T) {
					s.rt = rt
					l, _ := s.genLogin("login", false, false)
					p := rapid.SampledFrom(s.pws).Draw(rt, "pw")
					s.expectLogin(l, p, "login attempt")
				},
				"restart": func(rt *rapid.T) {
					s.rt = rt
					rec("restart")
					s.checkFreshManager("before restart")
					if err := w.Restart(); err != nil {
						rt.Fatalf("restart: %v\nhistory: %s", err, strings.Join(s.history, " | "))
					}
					s.reconnectAdmin()
					if s.edits >= 3 {
						s.nt = true
					}
					// after a restart undefined privilege bits are gone from the files; the model compares defined bits only
					for l, a := range s.model {
						s.expectLogin(l, a.pw, "after restart")
					}
				},
				"": func(rt *rapid.T) {
					s.rt = rt
					s.invariant("invariant")
				},
			})
			// final full cross-check of everything ever used
			s.checkFreshManager("final")
			for _, l := range c15LoginPool {
				if _, ok := s.model[l]; !ok && rapid.IntRange(0, 3).Draw(rt, "probe_"+l) != 0 {
					continue
				}
				for _, p := range s.pws {
					s.expectLogin(l, p, "final cross-check")
				}
			}
			ev.Case(evid.Hash(strings.Join(s.history, "|")), s.nt, fmt.Sprintf("edits:%d", min(s.edits/5*5, 30)))
			if s.nt && ev.WantSample() {
				ev.Sample(map[string]any{"history": s.history, "final_accounts": keys(s.model)})
			}
		})
	}
}

func TestC15(t *testing.T) {
	ev := evid.New("C15", "TestC15")
	defer ev.Flush()
	rapid.Check(t, c15prop(ev))
}

// TestC15LeadingNewline decides the one class the generator above excludes: an account
// whose name begins with a newline must survive a restart unchanged.
func TestC15LeadingNewline(t *testing.T) {
	ev := evid.New("C15", "TestC15LeadingNewline")
	defer ev.Flush()
	rapid.Check(t, func(rt *rapid.T) {
		name := rapid.SampledFrom([]string{"\n", "\t\n", "\u2028\n", "\t", " \n", "\r\n"}).Draw(rt, "lead") + string(genBytes(rt, "rest", rapid.IntRange(0, 12).Draw(rt, "len")))
		name = strings.ReplaceAll(name, "\x00", "0")
		inLogin := rapid.Bool().Draw(rt, "inLogin") && utf8.ValidString(name)
		inWorld(rt, hlsim.Options{Accounts: []hlsim.AccountSpec{acct("admin", "Admin", "adminpw", allAccess)}, Agreement: "a"}, func(rt *rapid.T, w *hlsim.World) {
			admin := loginAs(rt, w, "10.1.0.1:1", "admin", "adminpw", "admin")
			acc := hlref.AccessOf(hlref.PrivDownloadFile)
			login := "nl"
			if inLogin {
				login, name = strings.ReplaceAll(name, "/", "_"), "plain"
			}
			r := admin.Request(hlref.TranNewUser, hlref.F(hlref.FUserLogin, hlref.Obfuscate([]byte(login))), hlref.F(hlref.FUserName, []byte(name)),
				hlref.F(hlref.FUserPassword, hlref.Obfuscate([]byte("pw"))), hlref.F(hlref.FUserAccess, acc[:]))
			if r == nil || r.Err != 0 {
				rt.Fatalf("new-user refused")
			}
			am, err := verifhooks.NewYAMLAccountManager(w.UsersDir)
			if err != nil {
				rt.Fatalf("after creating the account login=%q name=%q the accounts directory cannot be loaded any more: %v", login, name, err)
			}
			g := am.Get(login)
			if g == nil {
				rt.Fatalf("account login=%q name=%q is missing after reloading the accounts directory (loaded: %d accounts)", login, name, len(am.List()))
			}
			if g.Name != name || g.Login != login {
				rt.Fatalf("account login=%q name=%q is login=%q name=%q after reloading the accounts directory", login, name, g.Login, g.Name)
			}
		})
		ev.Case(evid.Hash(name), true, "leading-newline-name")
	})
}

// TestC15Burst: several administrators create, edit and delete the same logins at the same
// instant.  Which request wins is not constrained; afterwards the three views must still be
// one set: the listing is taken as the reference, and the files, a fresh manager and the
// logins that authenticate must equal it.
func TestC15Burst(t *testing.T) {
	ev := evid.New("C15", "TestC15Burst")
	defer ev.Flush()
	pool := []string{"bob", "al ice", "a.b"}
	rapid.Check(t, func(rt *rapid.T) {
		nAdmins := rapid.IntRange(2, 5).Draw(rt, "admins")
		rounds := rapid.IntRange(4, 12).Draw(rt, "rounds")
		type op struct {
			kind, login string
		}
		var plan [][]op
		for r := 0; r < rounds; r++ {
			focus := rapid.SampledFrom(pool).Draw(rt, fmt.Sprintf("focus%d", r))
			var ops []op
			for a := 0; a < nAdmins; a++ {
				l := focus
				if rapid.IntRange(0, 4).Draw(rt, fmt.Sprintf("other%d_%d", r, a)) == 0 {
					l = rapid.SampledFrom(pool).Draw(rt, fmt.Sprintf("l%d_%d", r, a))
				}
				ops = append(ops, op{rapid.SampledFrom([]string{"create", "delete", "set", "delete", "create"}).Draw(rt, fmt.Sprintf("k%d_%d", r, a)), l})
			}
			plan = append(plan, ops)
		}
		inWorld(rt, hlsim.Options{Accounts: []hlsim.AccountSpec{acct("admin", "Admin", "adminpw", allAccess)}, Agreement: "a"}, func(rt *rapid.T, w *hlsim.World) {
			s := &c15state{rt: rt, w: w, model: map[string]*c15acct{}, ev: ev, pws: []string{"adminpw"}}
			s.reconnectAdmin()
			var admins []*hlsim.Conn
			for a := 0; a < nAdmins; a++ {
				admins = append(admins, loginAs(rt, w, fmt.Sprintf("10.15.9.%d:1", a+1), "admin", "adminpw", fmt.Sprintf("admin%d", a)))
			}
			for r, ops := range plan {
				var desc []string
				for a, o := range ops {
					c := admins[a]
					id := c.NewID()
					lf := hlref.F(hlref.FUserLogin, hlref.Obfuscate([]byte(o.login)))
					name := fmt.Sprintf("%s-r%d-a%d", o.kind, r, a)
					acc := hlref.AccessOf(a+1, 20+r%10).Defined()
					var t hlref.Tran
					switch o.kind {
					case "create":
						t = hlref.Tran{Type: hlref.TranNewUser, ID: id, Fields: []hlref.Field{lf, sfld(hlref.FUserName, name), hlref.F(hlref.FUserPassword, hlref.Obfuscate([]byte("pw"))), hlref.F(hlref.FUserAccess, acc[:])}}
					case "set":
						t = hlref.Tran{Type: hlref.TranSetUser, ID: id, Fields: []hlref.Field{lf, sfld(hlref.FUserName, name), hlref.F(hlref.FUserPassword, hlref.Obfuscate([]byte("pw"))), hlref.F(hlref.FUserAccess, acc[:])}}
					default:
						t = hlref.Tran{Type: hlref.TranDeleteUser, ID: id, Fields: []hlref.Field{lf}}
					}
					desc = append(desc, o.kind+" "+o.login)
					c.SendAsync(t.Encode())
				}
				settle(0)
				s.history = append(s.history, fmt.Sprintf("round %d at one instant: %s", r, strings.Join(desc, ", ")))
				for _, c := range admins {
					c.TakeInbox() // which request wins, is refused or stays unanswered is not constrained here
				}
				// the listing is the reference view
				lr := s.admin.Request(hlref.TranListUsers)
				s.mustReply(lr, "list-users")
				s.model = map[string]*c15acct{}
				for _, d := range lr.GetAll(hlref.FData) {
					fs, err := hlref.DecodeSubFields(d)
					if err != nil {
						rt.Fatalf("list-users record unparseable: %v", err)
					}
					tr := hlref.Tran{Fields: fs}
					name, _ := tr.Get(hlref.FUserName)
					login, _ := tr.Get(hlref.FUserLogin)
					accb, _ := tr.Get(hlref.FUserAccess)
					var a hlref.Access
					copy(a[:], accb)
					if l := string(hlref.Obfuscate(login)); l != "admin" {
						s.model[l] = &c15acct{name: string(name), access: a, pw: "pw"}
					}
				}
				ctx := fmt.Sprintf("after round %d (listing: %v)", r, keys(s.model))
				s.checkList(ctx)
				s.checkDisk(ctx)
				s.checkFreshManager(ctx)
				for _, l := range pool {
					s.expectLogin(l, "pw", ctx)
				}
			}
			// nobody edits any more; all administrators ask for the account listing at the same instant, three times.  Each
			// of them is shown every account exactly once.
			for i := 0; i < 12; i++ {
				l := fmt.Sprintf("extra%02d", i)
				s.mustReply(s.admin.Request(hlref.TranNewUser, hlref.F(hlref.FUserLogin, hlref.Obfuscate([]byte(l))), sfld(hlref.FUserName, "Extra"), hlref.F(hlref.FUserPassword, hlref.Obfuscate([]byte("pw"))), hlref.F(hlref.FUserAccess, make([]byte, 8))), "new-user "+l)
				s.model[l] = &c15acct{name: "Extra", pw: "pw"}
			}
			for rep := 0; rep < 3; rep++ {
				ids := make([]uint32, len(admins))
				for _, c := range admins {
					c.TakeInbox() // (waits for quiescence: done for all before the first request goes out)
				}
				for a, c := range admins {
					ids[a] = c.NewID()
					c.SendAsync(hlref.Tran{Type: hlref.TranListUsers, ID: ids[a]}.Encode())
				}
				settle(0)
				for a, c := range admins {
					var lr *hlref.Tran
					for _, tr := range c.TakeInbox() {
						if tr.IsReply == 1 && tr.ID == ids[a] {
							x := tr
							lr = &x
						}
					}
					if lr == nil || lr.Err != 0 {
						rt.Fatalf("%d administrators asked for the account listing at the same instant: administrator %d got no listing", len(admins), a)
					}
					seen := map[string]int{}
					for _, d := range lr.GetAll(hlref.FData) {
						fs, err := hlref.DecodeSubFields(d)
						if err != nil {
							rt.Fatalf("list-users record unparseable: %v", err)
						}
						rec := hlref.Tran{Fields: fs}
						login, _ := rec.Get(hlref.FUserLogin)
						seen[string(hlref.Obfuscate(login))]++
					}
					for l := range s.model {
						if seen[l] != 1 {
							rt.Fatalf("%d administrators asked for the account listing at the same instant (nobody was editing): administrator %d is shown account %q %d times (listing: %v)", len(admins), a, l, seen[l], seen)
						}
					}
					if len(seen) != len(s.model)+1 {
						rt.Fatalf("%d administrators asked for the account listing at the same instant: administrator %d is shown %d accounts, there are %d", len(admins), a, len(seen), len(s.model)+1)
					}
				}
			}
		})
		ev.Case(evid.Hash("c15burst", fmt.Sprint(plan)), true, "burst", fmt.Sprintf("admins:%d", nAdmins))
		ev.Label("burst_rounds", rounds)
		if ev.WantSample() {
			ev.Sample(map[string]any{"engine": "bubble, concurrent handlers", "administrators": nAdmins, "first_rounds": fmt.Sprint(plan[:min(3, len(plan))])})
		}
	})
}

// TestC15Unwritable: an account whose file can be read but not rewritten (a login of 247-250
// bytes: <login>.yaml is a legal file name, the temporary name used while writing is not).  An edit
// of such an account cannot be saved; whatever the server answers, the three views must stay one:
// either all show the edit or none does.
func TestC15Unwritable(t *testing.T) {
	ev := evid.New("C15", "TestC15Unwritable")
	defer ev.Flush()
	rapid.Check(t, func(rt *rapid.T) {
		login := strings.Repeat("M", rapid.SampledFrom([]int{247, 248, 250}).Draw(rt, "loginlen"))
		newName := string(genBytes(rt, "name", rapid.IntRange(1, 12).Draw(rt, "namelen")))
		if strings.ContainsAny(newName, "\n\r\x00") || !utf8.ValidString(newName) {
			newName = "Edited"
		}
		newAcc := genAccess(rt, "acc").Defined()
		pwKind := rapid.SampledFrom([]string{"set", "keep", "absent"}).Draw(rt, "pwkind")
		via := rapid.SampledFrom([]string{"set-user", "update-user"}).Draw(rt, "via")
		old := hlsim.AccountSpec{Login: login, Name: "Original", Password: "oldpw", Access: hlref.AccessOf(hlref.PrivDownloadFile)}
		inWorld(rt, hlsim.Options{Accounts: []hlsim.AccountSpec{acct("admin", "Admin", "adminpw", allAccess), old}, Agreement: "a"}, func(rt *rapid.T, w *hlsim.World) {
			s := &c15state{rt: rt, w: w, model: map[string]*c15acct{}, ev: ev, pws: []string{"adminpw"}}
			s.reconnectAdmin()
			fs := []hlref.Field{hlref.F(hlref.FUserLogin, hlref.Obfuscate([]byte(login))), hlref.F(hlref.FUserName, []byte(newName)), hlref.F(hlref.FUserAccess, newAcc[:])}
			if f, ok := pwField(pwKind, "newpw"); ok {
				fs = append(fs, f)
			}
			if via == "set-user" {
				s.admin.Request(hlref.TranSetUser, fs...)
			} else {
				s.admin.Request(hlref.TranUpdateUser, hlref.F(hlref.FData, subFields(fs...)))
			}
			settle(0)
			// the listing decides which of the two states the server is in
			r := s.admin.Request(hlref.TranGetUser, sfld(hlref.FUserLogin, login))
			if !okReply(r) {
				rt.Fatalf("the account is gone after an edit that could not be saved")
			}
			gotName, _ := r.Get(hlref.FUserName)
			acc, _ := r.Get(hlref.FUserAccess)
			var listed hlref.Access
			copy(listed[:], acc)
			edited := string(gotName) == newName && newName != "Original"
			pw := "oldpw"
			if edited {
				switch pwKind {
				case "set":
					pw = "newpw"
				case "absent":
					pw = ""
				}
			}
			s.model[login] = &c15acct{name: string(gotName), access: listed, pw: pw}
			ctx := fmt.Sprintf("after an edit (%s, password %s) of an account whose file cannot be rewritten; the server shows name %q", via, pwKind, gotName)
			s.checkList(ctx)
			s.checkDisk(ctx)
			s.checkFreshManager(ctx)
			s.expectLogin(login, pw, ctx)
			if pw != "oldpw" {
				s.expectLogin(login, "oldpw", ctx)
			}
		})
		ev.Case(evid.Hash("unwritable", len(login), newName, newAcc[:], pwKind, via), true, "unwritable-account-file", "via:"+via)
	})
}

// TestC15OperatorFile: an account whose file is not named after its login (the operator wrote "imported-staff.yaml"
// holding Login: staff - the repository's own test configuration has such a file; a crash in the middle of a rename
// leaves one too).  Edits, password changes, renames and deletions made through the protocol must be what the
// restarted server loads, exactly as for any other account.
func TestC15OperatorFile(t *testing.T) {
	ev := evid.New("C15", "TestC15OperatorFile")
	defer ev.Flush()
	rapid.Check(t, func(rt *rapid.T) {
		login := rapid.SampledFrom([]string{"staff", "bob", "m"}).Draw(rt, "login")
		file := rapid.SampledFrom([]string{"imported-%s.yaml", "zz-%s.yaml", "0-%s.yaml", "%s-old.yaml", "zed.yaml", "aaa.yaml"}).Draw(rt, "file")
		if strings.Contains(file, "%s") {
			file = fmt.Sprintf(file, login)
		}
		ops := rapid.SliceOfN(rapid.SampledFrom([]string{"delete", "create-again", "create-duplicate", "password", "edit", "rename", "restart"}), 1, 5).Draw(rt, "ops")
		legacyForm := rapid.IntRange(0, 2).Draw(rt, "operatorFileInTheOlderNumericForm") == 0
		old := hlsim.AccountSpec{Login: login, Name: "Original", Password: "oldpw", Access: hlref.AccessOf(hlref.PrivDownloadFile)}
		var done []string
		inWorld(rt, hlsim.Options{Accounts: []hlsim.AccountSpec{acct("admin", "Admin", "adminpw", allAccess), old}, Agreement: "a"}, func(rt *rapid.T, w *hlsim.World) {
			must(os.Rename(filepath.Join(w.UsersDir, login+".yaml"), filepath.Join(w.UsersDir, file)))
			if legacyForm {
				// the operator's file is in the older numeric form: the server rewrites such an account in the named form when it starts
				acc := hlref.AccessOf(hlref.PrivDownloadFile)
				parts := make([]string, 8)
				for i, b := range acc {
					parts[i] = fmt.Sprint(int(b))
				}
				must(os.WriteFile(filepath.Join(w.UsersDir, file), []byte(fmt.Sprintf("Login: %s\nName: Original\nPassword: %q\nAccess: [%s]\n", login, hlsim.HashPassword("oldpw"), strings.Join(parts, ", "))), 0o644))
			}
			if err := w.Restart(); err != nil {
				rt.Fatalf("the server does not start with the account %q in the file %q: %v", login, file, err)
			}
			s := &c15state{rt: rt, w: w, model: map[string]*c15acct{}, ev: ev, pws: []string{"adminpw", "oldpw", "newpw"}}
			s.reconnectAdmin()
			cur := login
			s.model[cur] = &c15acct{name: "Original", access: hlref.AccessOf(hlref.PrivDownloadFile), pw: "oldpw"}
			check := func() {
				ctx := fmt.Sprintf("account %q stored by the operator in %q, after [%s]", login, file, strings.Join(done, ", "))
				s.history = done
				s.checkList(ctx)
				s.checkFreshManager(ctx)
				for _, l := range []string{login, login + "2", login + "22", login + "222", login + "2222"} {
					for _, p := range []string{"oldpw", "newpw"} {
						s.expectLogin(l, p, ctx)
					}
				}
			}
			check()
			for i, op := range ops {
				a := s.model[cur]
				switch op {
				case "edit":
					if a == nil {
						continue
					}
					a.name = fmt.Sprintf("Edited %d", i)
					a.access = hlref.AccessOf(hlref.PrivDownloadFile, hlref.PrivReadChat)
					s.mustReply(s.admin.Request(hlref.TranSetUser, hlref.F(hlref.FUserLogin, hlref.Obfuscate([]byte(cur))), sfld(hlref.FUserName, a.name), hlref.F(hlref.FUserAccess, a.access[:]), hlref.F(hlref.FUserPassword, []byte{0})), "set-user")
				case "password":
					if a == nil {
						continue
					}
					a.pw = "newpw"
					s.mustReply(s.admin.Request(hlref.TranSetUser, hlref.F(hlref.FUserLogin, hlref.Obfuscate([]byte(cur))), sfld(hlref.FUserName, a.name), hlref.F(hlref.FUserAccess, a.access[:]), hlref.F(hlref.FUserPassword, hlref.Obfuscate([]byte("newpw")))), "set-user")
				case "rename":
					if a == nil {
						continue
					}
					nl := cur + "2"
					s.mustReply(s.admin.Request(hlref.TranUpdateUser, hlref.F(hlref.FData, subFields(hlref.F(hlref.FData, hlref.Obfuscate([]byte(cur))), hlref.F(hlref.FUserLogin, hlref.Obfuscate([]byte(nl))),
						sfld(hlref.FUserName, a.name), hlref.F(hlref.FUserAccess, a.access[:]), hlref.F(hlref.FUserPassword, []byte{0})))), "update-user (rename)")
					delete(s.model, cur)
					s.model[nl] = a
					cur = nl
				case "delete":
					if a == nil {
						continue
					}
					s.mustReply(s.admin.Request(hlref.TranDeleteUser, hlref.F(hlref.FUserLogin, hlref.Obfuscate([]byte(cur)))), "delete-user")
					delete(s.model, cur)
				case "create-duplicate":
					// a new-user request for the login the account already has: refused, and nothing about the account changes
					if a == nil {
						continue
					}
					if r := s.admin.Request(hlref.TranNewUser, hlref.F(hlref.FUserLogin, hlref.Obfuscate([]byte(cur))), sfld(hlref.FUserName, "Impostor"), hlref.F(hlref.FUserPassword, hlref.Obfuscate([]byte("newpw"))), hlref.F(hlref.FUserAccess, make([]byte, 8))); r == nil || r.Err == 0 {
						rt.Fatalf("account %q stored by the operator in %q, after [%s]: a new-user request for the same login was not refused (%s)", login, file, strings.Join(done, ", "), replySummary(r))
					}
				case "create-again":
					// after a deletion the login is given to a new account
					if a != nil {
						continue
					}
					cur = login
					s.mustReply(s.admin.Request(hlref.TranNewUser, hlref.F(hlref.FUserLogin, hlref.Obfuscate([]byte(cur))), sfld(hlref.FUserName, "Created again"), hlref.F(hlref.FUserPassword, hlref.Obfuscate([]byte("oldpw"))), hlref.F(hlref.FUserAccess, make([]byte, 8))), "new-user")
					s.model[cur] = &c15acct{name: "Created again", pw: "oldpw"}
				case "restart":
					if err := w.Restart(); err != nil {
						rt.Fatalf("restart after [%s]: %v", strings.Join(done, ", "), err)
					}
					s.reconnectAdmin()
				}
				done = append(done, op)
				check()
			}
			if err := w.Restart(); err != nil {
				rt.Fatalf("restart after [%s]: %v", strings.Join(done, ", "), err)
			}
			s.reconnectAdmin()
			done = append(done, "restart")
			check()
		})
		ev.Case(evid.Hash("opfile", login, file, strings.Join(ops, ",")), len(done) > 1, "operator-named-file", fmt.Sprintf("ops:%d", len(done)))
		if ev.WantSample() {
			ev.Sample(map[string]any{"login": login, "file": file, "operations": done})
		}
	})
}

// TestC15ManyAccounts: the three views agree for any number of accounts - also for more than fit one byte of a count.
// The accounts exist as files when the server starts (what an operator's provisioning script leaves), some more are made
// through the protocol; the listing must show each of them once.
func TestC15ManyAccounts(t *testing.T) {
	ev := evid.New("C15", "TestC15ManyAccounts")
	defer ev.Flush()
	rapid.Check(t, func(rt *rapid.T) {
		n := rapid.SampledFrom([]int{300, 254, 255, 256, 257, 513}).Draw(rt, "accounts")
		extra := rapid.IntRange(0, 3).Draw(rt, "createdThroughTheProtocol")
		accounts := []hlsim.AccountSpec{acct("admin", "Admin", "adminpw", allAccess)}
		for i := 0; i < n; i++ {
			pw := ""
			if i%7 == 0 {
				pw = "pw"
			}
			accounts = append(accounts, hlsim.AccountSpec{Login: fmt.Sprintf("user%04d", i), Name: fmt.Sprintf("User %d", i), Password: pw, Access: hlref.AccessOf(hlref.PrivReadChat)})
		}
		inWorld(rt, hlsim.Options{Accounts: accounts, Agreement: "a"}, func(rt *rapid.T, w *hlsim.World) {
			admin := loginAs(rt, w, "10.15.3.1:1", "admin", "adminpw", "admin")
			want := map[string]bool{"admin": true}
			for i := 0; i < n; i++ {
				want[fmt.Sprintf("user%04d", i)] = true
			}
			for i := 0; i < extra; i++ {
				l := fmt.Sprintf("made%d", i)
				if r := admin.Request(hlref.TranNewUser, hlref.F(hlref.FUserLogin, hlref.Obfuscate([]byte(l))), sfld(hlref.FUserName, "Made"), hlref.F(hlref.FUserPassword, hlref.Obfuscate([]byte("pw"))), hlref.F(hlref.FUserAccess, make([]byte, 8))); !okReply(r) {
					rt.Fatalf("with %d accounts: new-user %q refused: %s", n, l, replySummary(r))
				}
				want[l] = true
			}
			lr := admin.Request(hlref.TranListUsers)
			if !okReply(lr) {
				rt.Fatalf("with %d accounts the account listing is refused / not answered: %s", len(want), replySummary(lr))
			}
			seen := map[string]int{}
			for _, d := range lr.GetAll(hlref.FData) {
				fs, err := hlref.DecodeSubFields(d)
				if err != nil {
					rt.Fatalf("list-users record unparseable: %v", err)
				}
				rec := hlref.Tran{Fields: fs}
				login, _ := rec.Get(hlref.FUserLogin)
				seen[string(hlref.Obfuscate(login))]++
			}
			missing, twice := 0, 0
			for l := range want {
				switch seen[l] {
				case 0:
					missing++
				case 1:
				default:
					twice++
				}
			}
			if missing != 0 || twice != 0 || len(seen) != len(want) {
				rt.Fatalf("%d accounts have files and can log in; the account listing shows %d different logins: %d missing, %d more than once", len(want), len(seen), missing, twice)
			}
			// a sample of them logs in
			for _, i := range []int{0, n / 2, n - 1} {
				l, pw := fmt.Sprintf("user%04d", i), ""
				if i%7 == 0 {
					pw = "pw"
				}
				c := w.Connect(fmt.Sprintf("10.15.3.%d:9", 2+i%200))
				if r := c.Login(hlsim.LoginOpts{Login: l, Password: pw, Name: []byte("x"), Icon: 1}); r == nil || r.Err != 0 {
					rt.Fatalf("with %d accounts: %q cannot log in", len(want), l)
				}
				c.Close()
			}
		})
		ev.Case(evid.Hash("many", n, extra), n > 255, fmt.Sprintf("accounts:%d", n))
	})
}
