package props

// C04 — nothing is served before a successful login.

import (
	"bytes"
	"encoding/binary"
	"fmt"
	"strings"
	"testing"
	"time"

	"pgregory.net/rapid"

	"verif/harness/evid"
	"verif/harness/hlref"
	"verif/harness/hlsim"
)

var c04Passwords = []string{"", "a", "pw", "secret123", "p\x00q", "\xff\xfe", strings.Repeat("x", 71), strings.Repeat("Z", 72), "\xffq"}

// effectful requests an unauthenticated peer may append; each would be visible in the
// snapshot or in an observer's inbox if it were executed.
func c04Appended(rt *rapid.T, i int) (hlref.Tran, string) {
	k := rapid.SampledFrom([]string{"newfolder", "delete", "postboard", "chat", "broadcast", "newuser", "upload", "postnews", "kick", "setinfo"}).Draw(rt, fmt.Sprintf("app%d", i))
	id := uint32(100 + i)
	switch k {
	case "newfolder":
		return hlref.Tran{Type: hlref.TranNewFolder, ID: id, Fields: []hlref.Field{hlref.F(hlref.FFileName, []byte("pwned"))}}, k
	case "delete":
		return hlref.Tran{Type: hlref.TranDeleteFile, ID: id, Fields: []hlref.Field{hlref.F(hlref.FFileName, []byte("keep.txt"))}}, k
	case "postboard":
		return hlref.Tran{Type: hlref.TranOldPostNews, ID: id, Fields: []hlref.Field{hlref.F(hlref.FData, []byte("owned"))}}, k
	case "chat":
		return hlref.Tran{Type: hlref.TranChatSend, ID: id, Fields: []hlref.Field{hlref.F(hlref.FData, []byte("hello"))}}, k
	case "broadcast":
		return hlref.Tran{Type: hlref.TranUserBroadcast, ID: id, Fields: []hlref.Field{hlref.F(hlref.FData, []byte("bcast"))}}, k
	case "newuser":
		a := hlref.AllAccess()
		return hlref.Tran{Type: hlref.TranNewUser, ID: id, Fields: []hlref.Field{hlref.F(hlref.FUserLogin, hlref.Obfuscate([]byte("evil"))), hlref.F(hlref.FUserName, []byte("evil")), hlref.F(hlref.FUserPassword, []byte("x")), hlref.F(hlref.FUserAccess, a[:])}}, k
	case "upload":
		return hlref.Tran{Type: hlref.TranUploadFile, ID: id, Fields: []hlref.Field{hlref.F(hlref.FFileName, []byte("up.bin")), hlref.F(hlref.FTransferSize, hlref.BE32(10))}}, k
	case "postnews":
		return hlref.Tran{Type: hlref.TranNewNewsFldr, ID: id, Fields: []hlref.Field{hlref.F(hlref.FFileName, []byte("bundle"))}}, k
	case "kick":
		return hlref.Tran{Type: hlref.TranDisconnectUser, ID: id, Fields: []hlref.Field{hlref.F(hlref.FUserID, hlref.BE16(1)), hlref.F(hlref.FOptions, hlref.BE16(2))}}, k
	default:
		return hlref.Tran{Type: hlref.TranSetFileInfo, ID: id, Fields: []hlref.Field{hlref.F(hlref.FFileName, []byte("keep.txt")), hlref.F(hlref.FFileComment, []byte("c"))}}, k
	}
}

func c04prop(ev *evid.Rec) func(rt *rapid.T) {
	return func(rt *rapid.T) {
		// ---- account database
		pool := []string{"alice", "bob", "Carol", "dave x", "ali", ".ops", "a.b", "x.yaml", "-dash", "~t", "#h"} // any legal file name is a login
		nacc := rapid.IntRange(0, 3).Draw(rt, "naccounts")
		logins := rapid.Permutation(pool).Draw(rt, "logins")[:nacc]
		withGuest := rapid.Bool().Draw(rt, "withGuest")
		accounts := []hlsim.AccountSpec{acct("obs", "Observer", "obspw", allAccess)}
		pw := map[string]string{}
		broken := map[string]bool{}
		for _, l := range logins {
			p := rapid.SampledFrom(c04Passwords).Draw(rt, "pw_"+l)
			pw[l] = p
			a := acct(l, "N-"+l, p, allAccess)
			// some account files do not hold a usable salted hash (empty - what mobius itself stores for a password longer
			// than 72 bytes -, plain text, truncated): such an account has no password that could be presented
			if rapid.IntRange(0, 4).Draw(rt, "broken_"+l) == 0 {
				raw := rapid.SampledFrom([]string{"", "x", p, "$2a$04$short", "not-a-hash"}).Draw(rt, "raw_"+l)
				a.RawPassword = &raw
				broken[l] = true
			}
			accounts = append(accounts, a)
		}
		if withGuest {
			p := rapid.SampledFrom([]string{"", "", "gpw"}).Draw(rt, "pw_guest")
			pw["guest"] = p
			accounts = append(accounts, acct("guest", "Guest", p, allAccess))
		}
		// ---- edits an administrator makes through the protocol before the attempt: "existing account" and "current
		// password" are meant at the time of the login, in the same server lifetime
		type c04edit struct{ kind, login, newLogin, newPw string }
		var edits []c04edit
		oldPw := map[string]string{} // what used to be valid for a login before an edit
		var editedNames []string
		for i, n := 0, rapid.SampledFrom([]int{0, 0, 1, 2}).Draw(rt, "nedits"); i < n; i++ {
			var live []string
			for _, l := range pool {
				if _, ok := pw[l]; ok && !broken[l] {
					live = append(live, l)
				}
			}
			if rapid.IntRange(0, 5).Draw(rt, fmt.Sprintf("refusedCreate%d", i)) == 0 {
				// an administrator tries to create an account whose file cannot be written; the request is refused, so no
				// such account exists - whatever password the refused request carried
				e := c04edit{kind: "create-refused", login: rapid.SampledFrom([]string{"ops/bob", strings.Repeat("M", 250)}).Draw(rt, fmt.Sprintf("refusedLogin%d", i)), newPw: rapid.SampledFrom(c04Passwords).Draw(rt, fmt.Sprintf("refusedPw%d", i))}
				if _, ok := pw[e.login]; !ok {
					oldPw[e.login] = e.newPw
					editedNames = append(editedNames, e.login)
					edits = append(edits, e)
				}
				continue
			}
			if len(live) == 0 {
				break
			}
			e := c04edit{kind: rapid.SampledFrom([]string{"rename", "rename", "password", "password-batch", "clear-password", "clear-password-batch", "delete"}).Draw(rt, fmt.Sprintf("edit%d", i)), login: rapid.SampledFrom(live).Draw(rt, fmt.Sprintf("editlogin%d", i))}
			oldPw[e.login] = pw[e.login]
			editedNames = append(editedNames, e.login)
			switch e.kind {
			case "rename":
				var free []string
				for _, l := range append([]string{"renamed"}, pool...) {
					if _, ok := pw[l]; !ok {
						free = append(free, l)
					}
				}
				e.newLogin = rapid.SampledFrom(free).Draw(rt, fmt.Sprintf("editnew%d", i))
				pw[e.newLogin] = pw[e.login]
				delete(pw, e.login)
				delete(oldPw, e.newLogin)
				editedNames = append(editedNames, e.newLogin)
			case "password", "password-batch":
				e.newPw = rapid.SampledFrom(c04Passwords).Draw(rt, fmt.Sprintf("editpw%d", i))
				pw[e.login] = e.newPw
			case "clear-password", "clear-password-batch":
				// the editor sends no password field at all: the password is removed, only the empty password logs in
				pw[e.login] = ""
			case "delete":
				delete(pw, e.login)
			}
			edits = append(edits, e)
		}
		// ---- the attempt
		hsKind := rapid.SampledFrom([]string{"valid", "valid", "valid", "valid", "valid", "valid", "version", "mutated", "random", "truncated"}).Draw(rt, "handshake")
		hs := hlref.Handshake(1, 2)
		switch hsKind {
		case "version":
			hs = hlref.Handshake(rapid.IntRange(0, 65535).Draw(rt, "hsv"), rapid.IntRange(0, 65535).Draw(rt, "hssv"))
		case "mutated":
			i := rapid.IntRange(0, 7).Draw(rt, "hsmut")
			hs[i] ^= byte(rapid.IntRange(1, 255).Draw(rt, "hsxor"))
		case "random":
			hs = genBytes(rt, "hsrand", 12)
		case "truncated":
			hs = hs[:rapid.IntRange(0, 11).Draw(rt, "hslen")]
		}
		hsValid := len(hs) == 12 && string(hs[0:8]) == "TRTPHOTL"

		cands := append([]string{"", "nobody", "guest", "OBS", "Alice", "renamed"}, pool...)
		login := rapid.SampledFrom(cands).Draw(rt, "login")
		if len(editedNames) > 0 && rapid.Bool().Draw(rt, "aimAtEdited") {
			login = rapid.SampledFrom(editedNames).Draw(rt, "editedLogin")
		}
		// now and then the login is an existing one (or the empty one, which means guest) followed by NUL bytes: that is
		// another byte string, it names no account
		baseLogin := login
		if baseLogin == "" {
			baseLogin = "guest"
		}
		nulTail := rapid.IntRange(0, 7).Draw(rt, "loginWithNulTail") == 0
		if nulTail {
			login += strings.Repeat("\x00", rapid.IntRange(1, 2).Draw(rt, "nuls"))
		}
		loginAbsent := login == "" && rapid.Bool().Draw(rt, "loginAbsent")
		effLogin := login
		if effLogin == "" {
			effLogin = "guest"
		}
		truePw, exists := pw[effLogin]
		pwKind := rapid.SampledFrom([]string{"correct", "correct", "empty", "absent", "wrong", "prefix", "bitoff", "cleartext", "other", "longer", "previous"}).Draw(rt, "pwkind")
		var wirePw []byte
		basis := truePw
		if !exists {
			if op, ok := oldPw[effLogin]; ok {
				basis = op // "correct" for a login that was renamed away or deleted means: what used to be right
			} else {
				basis = rapid.SampledFrom(c04Passwords).Draw(rt, "basis")
			}
			if p, ok := pw[baseLogin]; ok && nulTail {
				basis = p // the password of the account whose login it resembles
			}
		}
		switch pwKind {
		case "previous":
			if op, ok := oldPw[effLogin]; ok {
				wirePw = hlref.Obfuscate([]byte(op))
			} else {
				wirePw = hlref.Obfuscate([]byte("previous-" + basis[:min(len(basis), 8)]))
			}
		case "correct":
			wirePw = hlref.Obfuscate([]byte(basis))
		case "empty":
			wirePw = []byte{}
		case "absent":
			wirePw = nil
		case "wrong":
			wirePw = hlref.Obfuscate([]byte("wrong-" + basis[:min(len(basis), 8)]))
		case "prefix":
			if len(basis) > 0 {
				wirePw = hlref.Obfuscate([]byte(basis[:len(basis)-1]))
			} else {
				wirePw = hlref.Obfuscate([]byte("x"))
			}
		case "bitoff":
			b := hlref.Obfuscate([]byte(basis))
			if len(b) == 0 {
				b = []byte{0x7f}
			} else {
				i := rapid.IntRange(0, len(b)-1).Draw(rt, "bitpos")
				b[i] ^= 1 << uint(rapid.IntRange(0, 7).Draw(rt, "bit"))
			}
			wirePw = b
		case "cleartext":
			wirePw = []byte(basis)
		case "other":
			wirePw = hlref.Obfuscate([]byte("obspw"))
		case "longer":
			if len(basis) < 72 {
				wirePw = hlref.Obfuscate([]byte(basis + "x"))
			} else {
				wirePw = hlref.Obfuscate([]byte(basis[:71] + "y"))
			}
		}
		credsOK := exists && bytes.Equal(wirePw, hlref.Obfuscate([]byte(truePw)))
		if wirePw == nil {
			credsOK = exists && truePw == ""
		}
		if broken[effLogin] {
			credsOK = false
		}
		tranType := hlref.TranLogin
		if rapid.IntRange(0, 5).Draw(rt, "oddtype") == 0 {
			tranType = rapid.IntRange(0, 65535).Draw(rt, "trantype")
		}
		firstID := rapid.Uint32Range(1, 1<<31).Draw(rt, "firstid")
		var fs []hlref.Field
		if !loginAbsent {
			fs = append(fs, hlref.F(hlref.FUserLogin, hlref.Obfuscate([]byte(login))))
		}
		if wirePw != nil {
			fs = append(fs, hlref.F(hlref.FUserPassword, wirePw))
		}
		flow := rapid.SampledFrom([]string{"123", "15", "bare"}).Draw(rt, "flow")
		switch flow {
		case "123":
			fs = append(fs, hlref.F(hlref.FUserName, []byte("intruder")), hlref.F(hlref.FUserIconID, hlref.BE16(7)))
		case "15":
			fs = append(fs, hlref.F(hlref.FVersion, hlref.BE16(190)))
		}
		first := hlref.Tran{Type: tranType, ID: firstID, Fields: fs}.Encode()
		// the header carries two size words: the total size frames the transaction; the size of "this part" equals it for
		// every single-part transaction, but it is not what delimits the bytes - a login is a login whatever it says
		if sw := rapid.SampledFrom([]string{"equal", "equal", "equal", "zero", "minus1", "plus16"}).Draw(rt, "dataSizeWord"); sw != "equal" && len(first) >= 20 {
			total := int(binary.BigEndian.Uint32(first[12:16]))
			v := map[string]int{"zero": 0, "minus1": total - 1, "plus16": total + 16}[sw]
			if v < 0 {
				v = 0
			}
			binary.BigEndian.PutUint32(first[16:20], uint32(v))
		}
		truncFirst := rapid.IntRange(0, 9).Draw(rt, "truncFirst") == 0
		if truncFirst {
			first = first[:rapid.IntRange(0, len(first)-1).Draw(rt, "firstlen")]
		}
		napp := rapid.IntRange(0, 5).Draw(rt, "nappended")
		if truncFirst {
			napp = 0 // the stream ends inside the first transaction; anything appended would become part of it
		}
		var appended [][]byte
		var appKinds []string
		for i := 0; i < napp; i++ {
			t, k := c04Appended(rt, i)
			appended = append(appended, t.Encode())
			appKinds = append(appKinds, k)
		}
		sameWrite := rapid.Bool().Draw(rt, "sameWrite")
		banKind := rapid.SampledFrom([]string{"none", "none", "none", "none", "none", "none", "perm", "temp", "expired", "otherip"}).Draw(rt, "ban")
		banYAML := ""
		switch banKind {
		case "perm":
			banYAML = "10.9.9.9: null\n"
		case "temp":
			banYAML = "10.9.9.9: 2000-01-01T00:20:00Z\n" // bubble time starts at 2000-01-01T00:00:00Z
		case "expired":
			banYAML = "10.9.9.9: 1999-12-31T23:59:59Z\n"
		case "otherip":
			banYAML = "10.9.9.90: null\n110.9.9.9: null\n"
		}
		banned := banKind == "perm" || banKind == "temp"
		nobs := rapid.IntRange(1, 2).Draw(rt, "nobservers")

		wantLoggedIn := hsValid && !banned && !truncFirst && credsOK

		inWorld(rt, hlsim.Options{Accounts: accounts, Agreement: "agree", Board: "board text", BanYAML: banYAML}, func(rt *rapid.T, w *hlsim.World) {
			if err := writeFile(w.FileRoot, "keep.txt", []byte("keep")); err != nil {
				rt.Fatalf("harness: %v", err)
			}
			var obs []*hlsim.Conn
			for i := 0; i < nobs; i++ {
				obs = append(obs, loginAs(rt, w, fmt.Sprintf("10.0.0.%d:4000", i+1), "obs", "obspw", fmt.Sprintf("obs%d", i)))
			}
			for _, e := range edits {
				var r *hlref.Tran
				switch e.kind {
				case "rename":
					r = obs[0].Request(hlref.TranUpdateUser, hlref.F(hlref.FData, hlref.EncodeFields([]hlref.Field{hlref.F(hlref.FData, hlref.Obfuscate([]byte(e.login))),
						hlref.F(hlref.FUserLogin, hlref.Obfuscate([]byte(e.newLogin))), sfld(hlref.FUserName, "N-"+e.login), hlref.F(hlref.FUserAccess, allAccess[:]), hlref.F(hlref.FUserPassword, []byte{0})})))
				case "password":
					r = obs[0].Request(hlref.TranSetUser, hlref.F(hlref.FUserLogin, hlref.Obfuscate([]byte(e.login))), sfld(hlref.FUserName, "N-"+e.login), hlref.F(hlref.FUserAccess, allAccess[:]), hlref.F(hlref.FUserPassword, hlref.Obfuscate([]byte(e.newPw))))
				case "clear-password":
					r = obs[0].Request(hlref.TranSetUser, hlref.F(hlref.FUserLogin, hlref.Obfuscate([]byte(e.login))), sfld(hlref.FUserName, "N-"+e.login), hlref.F(hlref.FUserAccess, allAccess[:]))
				case "password-batch":
					r = obs[0].Request(hlref.TranUpdateUser, hlref.F(hlref.FData, hlref.EncodeFields([]hlref.Field{hlref.F(hlref.FUserLogin, hlref.Obfuscate([]byte(e.login))),
						sfld(hlref.FUserName, "N-"+e.login), hlref.F(hlref.FUserAccess, allAccess[:]), hlref.F(hlref.FUserPassword, hlref.Obfuscate([]byte(e.newPw)))})))
				case "clear-password-batch":
					r = obs[0].Request(hlref.TranUpdateUser, hlref.F(hlref.FData, hlref.EncodeFields([]hlref.Field{hlref.F(hlref.FUserLogin, hlref.Obfuscate([]byte(e.login))),
						sfld(hlref.FUserName, "N-"+e.login), hlref.F(hlref.FUserAccess, allAccess[:])})))
				case "delete":
					r = obs[0].Request(hlref.TranDeleteUser, hlref.F(hlref.FUserLogin, hlref.Obfuscate([]byte(e.login))))
				case "create-refused":
					r = obs[0].Request(hlref.TranNewUser, hlref.F(hlref.FUserLogin, hlref.Obfuscate([]byte(e.login))), sfld(hlref.FUserName, "Refused"),
						hlref.F(hlref.FUserPassword, hlref.Obfuscate([]byte(e.newPw))), hlref.F(hlref.FUserAccess, func() []byte { a := hlref.AccessOf(hlref.PrivDownloadFile, hlref.PrivReadChat); return a[:] }()))
					if okReply(r) {
						rt.Fatalf("harness: creation of an account whose file cannot be written (%q) was not refused", e.login)
					}
					continue
				}
				if !okReply(r) {
					rt.Fatalf("harness: account edit %+v refused: %s", e, replySummary(r))
				}
			}
			for _, o := range obs {
				o.TakeInbox()
			}
			before := hlsim.Snap(w.Sandbox)

			c := w.Connect("10.9.9.9:1234")
			c.Send(hs)
			if len(hs) == 12 {
				if sameWrite {
					c.Send(bytes.Join(append([][]byte{first}, appended...), nil))
				} else {
					c.Send(first)
					for _, a := range appended {
						c.Send(a)
					}
				}
			}
			settle(3 * time.Second) // the ban notice path sleeps 1 s before closing
			rx := c.Bytes()
			// ---- handshake reply
			if hsValid {
				if len(rx) < 8 || string(rx[:8]) != "TRTP\x00\x00\x00\x00" {
					rt.Fatalf("valid handshake not acknowledged: got %x", rx[:min(len(rx), 16)])
				}
				rx = rx[8:]
			} else if len(rx) != 0 {
				rt.Fatalf("invalid handshake %x was answered with %x", hs, rx[:min(len(rx), 32)])
			}
			ts, rest, err := hlref.DecodeStream(rx)
			if err != nil || len(rest) != 0 {
				rt.Fatalf("bytes after the handshake reply are not whole transactions: err=%v rest=%d bytes", err, len(rest))
			}
			if wantLoggedIn {
				ok := false
				for _, t := range ts {
					if t.IsReply == 1 && t.ID == firstID && t.Err == 0 {
						ok = true
					}
				}
				if !ok {
					rt.Fatalf("correct credentials for %q were not accepted: received %s", effLogin, tranSummary(ts))
				}
			} else {
				// not logged in: at most one transaction, an error reply to the first transaction or a ban notice
				if len(ts) > 1 {
					rt.Fatalf("unauthenticated peer received %d transactions: %s", len(ts), tranSummary(ts))
				}
				if len(ts) == 1 {
					t := ts[0]
					isErr := t.IsReply == 1 && t.Err != 0 && t.ID == firstID
					isBan := banned && t.IsReply == 0 && t.Type == hlref.TranServerMsg
					if !isErr && !isBan {
						rt.Fatalf("unauthenticated peer (handshake=%s login=%q pw=%s banned=%v) received %s", hsKind, login, pwKind, banned, tranSummary(ts))
					}
				}
				if banned && hsValid && len(ts) != 1 {
					rt.Fatalf("banned address got %d transactions instead of one ban notice", len(ts))
				}
				// connection is closed by the server once it has a complete first transaction (or an invalid handshake)
				if len(hs) == 12 && (!hsValid || banned || !truncFirst) && !c.EOF() {
					rt.Fatalf("connection of unauthenticated peer still open (handshake=%s pw=%s)", hsKind, pwKind)
				}
				c.Close()
				settle(4 * time.Second)
				if done, _ := c.ServerDone(); !done {
					rt.Fatalf("server still serving the unauthenticated connection after the peer closed it")
				}
				if d := before.Diff(hlsim.Snap(w.Sandbox)); len(d) != 0 {
					rt.Fatalf("unauthenticated peer changed server files: %v", d)
				}
				for i, o := range obs {
					if in := o.TakeInbox(); len(in) != 0 {
						rt.Fatalf("observer %d received %s because of an unauthenticated connection (handshake=%s login=%q pw=%s appended=%v)", i, tranSummary(in), hsKind, login, pwKind, appKinds)
					}
				}
				// and the user list still shows only the observers
				us, err := obs[0].UserList()
				if err != nil || len(us) != nobs {
					rt.Fatalf("user list after failed login has %d entries (want %d), err=%v", len(us), nobs, err)
				}
			}
		})
		near := pwKind == "prefix" || pwKind == "bitoff" || pwKind == "cleartext" || pwKind == "other" || pwKind == "longer" || pwKind == "empty" || pwKind == "absent"
		nt := hsValid && !truncFirst && !wantLoggedIn && ((exists && near) || napp > 0)
		lab := "rejected"
		if wantLoggedIn {
			lab = "accepted"
		}
		if broken[effLogin] {
			ev.Label("login names an account with an unusable stored hash", 1)
		}
		ev.Case(evid.Hash(hs, first, fmt.Sprint(appKinds), banKind, fmt.Sprint(logins), withGuest, fmt.Sprint(broken), fmt.Sprint(edits)), nt, lab, "hs:"+hsKind, "pw:"+pwKind, "ban:"+banKind, fmt.Sprintf("edits:%d", len(edits)))
		if _, was := oldPw[effLogin]; was {
			ev.Label("login names an account edited (renamed, re-passworded, deleted) since the server started", 1)
		}
		if nt && ev.WantSample() {
			ev.Sample(map[string]any{"accounts": logins, "guest": withGuest, "handshake": hsKind, "login": login, "password_variant": pwKind,
				"first_type": tranType, "appended": appKinds, "same_write": sameWrite, "ban": banKind, "expected": lab})
		}
	}
}

func TestC04(t *testing.T) {
	ev := evid.New("C04", "TestC04")
	defer ev.Flush()
	rapid.Check(t, c04prop(ev))
}
