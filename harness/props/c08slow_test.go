package props

// C08 through the production listeners (engine E4): a download whose reader is slow.  The
// bubble engine hands connections to the handlers directly; whatever the accept loop of the
// transfer port does to a connection (deadlines, wrappers) is only visible here.  The client
// reads 1 MiB of a 24 MiB file, pauses for 33 s of real time, then reads the rest: it must get
// exactly the file's bytes.

import (
	"bytes"
	"crypto/sha256"
	"fmt"
	"io"
	"net"
	"os"
	"os/exec"
	"path/filepath"
	"testing"
	"time"

	"verif/harness/evid"
	"verif/harness/hlref"
	"verif/harness/hlsim"
)

// startChildServer starts srvchild on a fresh configuration directory; files are created below it first.
func startChildServer(t *testing.T, portOffset int, files map[string][]byte) (port int, cfg string, childLog func() string, stop func()) {
	bin := filepath.Join(os.Getenv("VERIF_BIN"), "srvchild")
	if _, err := os.Stat(bin); err != nil {
		t.Fatalf("VERIF-INCONCLUSIVE %s not built", bin)
	}
	cfg, err := os.MkdirTemp(worldBase(), "child-")
	if err != nil {
		t.Fatal(err)
	}
	must(os.MkdirAll(filepath.Join(cfg, "Users"), 0o755))
	must(os.MkdirAll(filepath.Join(cfg, "Files"), 0o755))
	must(os.WriteFile(filepath.Join(cfg, "config.yaml"), []byte("Name: verif\nDescription: d\nBannerFile: banner.jpg\nFileRoot: Files\nEnableTrackerRegistration: false\nIgnoreFiles:\n  - '^\\.'\n"), 0o644))
	for n, c := range map[string]string{"banner.jpg": "jpg", "Agreement.txt": "agreement", "MessageBoard.txt": "board", "ThreadedNews.yaml": "Categories: {}\n"} {
		must(os.WriteFile(filepath.Join(cfg, n), []byte(c), 0o644))
	}
	must(os.WriteFile(filepath.Join(cfg, "Users", "good.yaml"), hlsim.AccountYAML(hlsim.AccountSpec{Login: "good", Name: "Good", Password: "gpw", Access: hlref.AllAccess()}), 0o644))
	for n, c := range files {
		must(os.MkdirAll(filepath.Dir(filepath.Join(cfg, n)), 0o755))
		must(os.WriteFile(filepath.Join(cfg, n), c, 0o644))
	}
	shard, _ := shardInfo()
	port = freePortPair() + portOffset + shard*2
	logPath := filepath.Join(cfg, "child.log")
	logf, _ := os.Create(logPath)
	cmd := exec.Command(bin, "-config", cfg, "-bind", fmt.Sprint(port), "-interface", "127.0.0.1", "-log-file", filepath.Join(cfg, "server.log"))
	cmd.Stdout, cmd.Stderr = logf, logf
	if err := cmd.Start(); err != nil {
		t.Fatalf("VERIF-INCONCLUSIVE cannot start child: %v", err)
	}
	exited := make(chan error, 1)
	go func() { exited <- cmd.Wait() }()
	childLog = func() string {
		b, _ := os.ReadFile(logPath)
		if len(b) > 6000 {
			b = append([]byte("...\n"), b[len(b)-6000:]...)
		}
		return string(b)
	}
	stop = func() {
		cmd.Process.Kill()
		<-exited
		logf.Close()
		os.RemoveAll(cfg)
	}
	for i := 0; i < 400; i++ {
		if c, err := net.DialTimeout("tcp", fmt.Sprintf("127.0.0.1:%d", port), 200*time.Millisecond); err == nil {
			c.Close()
			return
		}
		select {
		case err := <-exited:
			exited <- err
			stop()
			t.Fatalf("VERIF-INCONCLUSIVE child ended: %v\n%s", err, childLog())
		default:
		}
		time.Sleep(25 * time.Millisecond)
	}
	stop()
	t.Fatalf("VERIF-INCONCLUSIVE child server did not come up: %s", childLog())
	return
}

func TestC08Slow(t *testing.T) {
	ev := evid.New("C08", "TestC08Slow")
	defer ev.Flush()
	seed := uint64(1)
	fmt.Sscan(os.Getenv("VERIF_SEED"), &seed)
	size := 24<<20 + int(seed%7)*4099
	content := make([]byte, size)
	x := seed*2654435761 + 12345
	for i := range content {
		x = x*6364136223846793005 + 1442695040888963407
		content[i] = byte(x >> 56)
	}
	port, _, childLog, stop := startChildServer(t, 8, map[string][]byte{"Files/slow.bin": content})
	defer stop()
	time.Sleep(2100 * time.Millisecond) // the probe connection used 127.0.0.1's rate-limit token; the client comes from 127.0.0.2 anyway
	c, err := tcpLogin("127.0.0.2", port, "good", "gpw", "slow reader")
	if err != nil {
		t.Fatalf("VERIF-INCONCLUSIVE client cannot log in: %v\n%s", err, childLog())
	}
	defer c.c.Close()
	c.startReader()
	r, err := c.request(hlref.TranDownloadFile, 60*time.Second, hlref.F(hlref.FFileName, []byte("slow.bin")))
	if err != nil || r.Err != 0 {
		t.Fatalf("VERIF-INCONCLUSIVE download request not granted: %v", err)
	}
	ref, _ := r.Get(hlref.FRefNum)
	fsz, _ := r.Get(hlref.FFileSize)
	if hlref.U32(fsz) != size {
		t.Fatalf("VERIF-VIOLATION C08 download reply announces file size %d, the file has %d bytes", hlref.U32(fsz), size)
	}
	var r4 [4]byte
	copy(r4[:], ref)
	x2, err := dialFrom("127.0.0.2", port+1, 10*time.Second)
	if err != nil {
		t.Fatalf("VERIF-INCONCLUSIVE transfer port: %v", err)
	}
	defer x2.Close()
	if tc, ok := x2.(*net.TCPConn); ok {
		tc.SetReadBuffer(64 << 10) // keep the kernel from swallowing the whole file while the client pauses
	}
	x2.Write(hlref.Preamble(r4, 0))
	var got bytes.Buffer
	if _, err := io.CopyN(&got, x2, 1<<20); err != nil {
		t.Fatalf("VERIF-INCONCLUSIVE first MiB of the download: %v (%d bytes)", err, got.Len())
	}
	pause := 33 * time.Second
	time.Sleep(pause)
	x2.SetReadDeadline(time.Now().Add(5 * time.Minute))
	_, rerr := io.Copy(&got, x2)
	b := got.Bytes()
	p, perr := hlref.ParseFlatHeader(b)
	if perr != nil {
		t.Fatalf("VERIF-VIOLATION C08 slow download: the stream does not start with a flattened file header: %v", perr)
	}
	if p.DataSize != size {
		t.Fatalf("VERIF-VIOLATION C08 slow download: header announces a data fork of %d bytes, the file has %d", p.DataSize, size)
	}
	data := b[p.HeaderLen:]
	if len(data) < size || !bytes.Equal(data[:size], content) {
		n := min(len(data), size)
		t.Fatalf("VERIF-VIOLATION C08 a download whose reader paused for %s after the first MiB delivered %d of the file's %d data bytes (first difference at %d; read ended with: %v)", pause, len(data), size, firstDiff(data[:n], content[:n]), rerr)
	}
	ev.Case(evid.Hash("slow", size, sha256.Sum256(content)), true, "slow-reader")
	ev.Sample(map[string]any{"engine": "child process over loopback", "file_size": size, "pause_after_first_MiB_seconds": int(pause.Seconds())})
}
