package props

// C08 over the server's lifetime: a granted download that has not been collected yet is still that
// file when more than 65,536 further transfers were granted in the meantime (reference numbers are
// what ties a transfer connection to its grant).

import (
	"bytes"
	"fmt"
	"os"
	"path/filepath"
	"testing"

	"github.com/jhalter/mobius/hotline"
	"pgregory.net/rapid"

	"verif/harness/evid"
	"verif/harness/hlref"
	"verif/harness/hlsim"
)

func TestC08ManyGrants(t *testing.T) {
	ev := evid.New("C08", "TestC08ManyGrants")
	defer ev.Flush()
	rapid.Check(t, func(rt *rapid.T) {
		n := rapid.SampledFrom([]int{300, 65535, 65536, 65537, 70000, 131073}).Draw(rt, "grantsInBetween")
		sizeA := rapid.IntRange(1, 5000).Draw(rt, "sizeA")
		sizeB := rapid.IntRange(1, 5000).Draw(rt, "sizeB")
		a, b := genBytes(rt, "a", sizeA), genBytes(rt, "b", sizeB)
		inWorld(rt, hlsim.Options{Agreement: "a", Accounts: []hlsim.AccountSpec{acct("admin", "Admin", "adminpw", allAccess)}}, func(rt *rapid.T, w *hlsim.World) {
			must(os.WriteFile(filepath.Join(w.FileRoot, "alpha.bin"), a, 0o644))
			must(os.WriteFile(filepath.Join(w.FileRoot, "beta.bin"), b, 0o644))
			c := loginAs(rt, w, "10.0.0.1:1", "admin", "adminpw", "admin")
			ra := c.Request(hlref.TranDownloadFile, sfld(hlref.FFileName, "alpha.bin"))
			if !okReply(ra) {
				rt.Fatalf("download of alpha.bin not granted: %s", replySummary(ra))
			}
			refA, _ := ra.Get(hlref.FRefNum)
			// the grants in between, made the way the handlers make them (on the connection of the same user)
			ccs := w.Srv.ClientMgr.List()
			if len(ccs) != 1 {
				rt.Fatalf("harness: %d clients", len(ccs))
			}
			for i := 0; i < n; i++ {
				ccs[0].NewFileTransfer(hotline.BannerDownload, "", nil, nil, make([]byte, 4))
			}
			rb := c.Request(hlref.TranDownloadFile, sfld(hlref.FFileName, "beta.bin"))
			if !okReply(rb) {
				rt.Fatalf("download of beta.bin not granted after %d grants: %s", n, replySummary(rb))
			}
			refB, _ := rb.Get(hlref.FRefNum)
			check := func(what string, ref, content []byte) {
				rx, _ := w.Transfer("10.0.0.1:2", ref, 0, nil, -1)
				p, err := hlref.ParseFlatHeader(rx)
				if err != nil {
					rt.Fatalf("%s (granted, then %d further grants): the transfer connection does not carry a flattened file: %v (%d bytes)", what, n, err, len(rx))
				}
				if p.DataSize != len(content) || len(rx) < p.HeaderLen+len(content) || !bytes.Equal(rx[p.HeaderLen:p.HeaderLen+len(content)], content) {
					rt.Fatalf("%s (granted, then %d further grants): the transfer carries a file named %q with a data fork of %d bytes, not the %d bytes of the file that was granted", what, n, p.Info.Name, p.DataSize, len(content))
				}
			}
			check("beta.bin", refB, b)
			check("alpha.bin", refA, a)
		})
		ev.Case(evid.Hash("manygrants", n, a, b), n > 65535, fmt.Sprintf("grants:%d", n))
	})
}
