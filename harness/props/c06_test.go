package props

// C06 — no privilege amplification; protected users cannot be kicked.

import (
	"fmt"
	"os"
	"path/filepath"
	"testing"
	"time"

	"github.com/jhalter/mobius/hotline"
	"github.com/jhalter/mobius/verifhooks"
	"gopkg.in/yaml.v3"
	"pgregory.net/rapid"

	"verif/harness/evid"
	"verif/harness/hlref"
	"verif/harness/hlsim"
)

func subset(a, b hlref.Access) bool {
	for i := 0; i < 64; i++ {
		if a.Has(i) && !b.Has(i) {
			return false
		}
	}
	return true
}

func bitsOf(a hlref.Access) []int {
	var out []int
	for i := 0; i < 64; i++ {
		if a.Has(i) {
			out = append(out, i)
		}
	}
	return out
}

// c06create runs one creation attempt and applies the oracle.
// via "setuser": the creator's account starts out holding everything the request asks for, is logged in twice, and an
// administrator's set-user then reduces it to creator while both sessions are connected; the later session creates.
func c06create(rt *rapid.T, creator, requested hlref.Access, path string, via ...string) (created bool) {
	setuser := len(via) > 0 && via[0] == "setuser"
	if !setuser {
		creator = creator.Defined() // what an account file can hold
	}
	// (privileges given by an administrator's set-user are the 64 bits as sent: also bits that name no privilege)
	creator.Set(hlref.PrivCreateUser)
	initial := creator.Defined()
	if setuser {
		for _, b := range bitsOf(requested.Defined()) {
			initial.Set(b)
		}
	}
	opt := hlsim.Options{Agreement: "a", Accounts: []hlsim.AccountSpec{acct("admin", "Admin", "adminpw", allAccess), {Login: "creator", Name: "Creator", Password: "cpw", Access: initial}, acct("other", "Other", "opw", hlref.Access{})}}
	inWorld(rt, opt, func(rt *rapid.T, w *hlsim.World) {
		admin := loginAs(rt, w, "10.0.0.1:1", "admin", "adminpw", "admin")
		if setuser {
			loginAs(rt, w, "10.0.0.3:1", "creator", "cpw", "creator-first-session")
		}
		c := loginAs(rt, w, "10.0.0.2:1", "creator", "cpw", "creator")
		if setuser {
			if r := admin.Request(hlref.TranSetUser, fld(hlref.FUserLogin, hlref.Obfuscate([]byte("creator"))), sfld(hlref.FUserName, "Creator"), fld(hlref.FUserAccess, creator[:]), fld(hlref.FUserPassword, []byte{0})); !okReply(r) {
				rt.Fatalf("harness: set-user refused")
			}
			settle(0)
		}
		var r *hlref.Tran
		switch path {
		case "new-user":
			r = c.Request(hlref.TranNewUser, fld(hlref.FUserLogin, hlref.Obfuscate([]byte("made"))), sfld(hlref.FUserName, "Made"),
				fld(hlref.FUserPassword, hlref.Obfuscate([]byte("mpw"))), fld(hlref.FUserAccess, requested[:]))
		case "update-user-after-edit":
			// one batch request with two entries: an edit of another account that keeps its login (allowed or not), then the
			// creation.  Each entry is judged on its own.
			none := hlref.Access{}
			r = c.Request(hlref.TranUpdateUser,
				fld(hlref.FData, subFields(fld(hlref.FData, hlref.Obfuscate([]byte("other"))), fld(hlref.FUserLogin, hlref.Obfuscate([]byte("other"))), sfld(hlref.FUserName, "Other"), fld(hlref.FUserAccess, none[:]), fld(hlref.FUserPassword, []byte{0}))),
				fld(hlref.FData, subFields(fld(hlref.FUserLogin, hlref.Obfuscate([]byte("made"))), sfld(hlref.FUserName, "Made"),
					fld(hlref.FUserPassword, hlref.Obfuscate([]byte("mpw"))), fld(hlref.FUserAccess, requested[:]))))
			if g := admin.Request(hlref.TranGetUser, sfld(hlref.FUserLogin, "other")); !okReply(g) {
				rt.Fatalf("%s: creator %v requested %v for a new account: the account \"other\", edited in the same request, is gone", path, bitsOf(creator), bitsOf(requested))
			}
		default:
			r = c.Request(hlref.TranUpdateUser, fld(hlref.FData, subFields(fld(hlref.FUserLogin, hlref.Obfuscate([]byte("made"))), sfld(hlref.FUserName, "Made"),
				fld(hlref.FUserPassword, hlref.Obfuscate([]byte("mpw"))), fld(hlref.FUserAccess, requested[:]))))
		}
		ctx := fmt.Sprintf("%s: creator %v requested %v", path, bitsOf(creator), bitsOf(requested))
		// view 1: memory, through an administrator's get-user
		g := admin.Request(hlref.TranGetUser, sfld(hlref.FUserLogin, "made"))
		inMem := okReply(g)
		// view 2: disk
		onDisk := exists(w.UsersDir, "made.yaml")
		if inMem != onDisk {
			rt.Fatalf("%s: account in memory=%v, on disk=%v", ctx, inMem, onDisk)
		}
		created = inMem
		want := subset(requested, creator)
		if path == "update-user-after-edit" && !creator.Has(hlref.PrivModifyUser) {
			want = false // the edit entry may stop the whole request; a creation that happens is still checked below
		}
		if want && !created {
			rt.Fatalf("%s: requested privileges are a subset of the creator's but the account was not created (reply %s)", ctx, replySummary(r))
		}
		if !created {
			if r == nil || r.Err == 0 {
				rt.Fatalf("%s: refused creation without an error reply", ctx)
			}
			return
		}
		var mem hlref.Access
		d, _ := g.Get(hlref.FUserAccess)
		copy(mem[:], d)
		if !subset(mem, creator) {
			rt.Fatalf("%s: created account holds %v in memory - privileges the creator lacks", ctx, bitsOf(mem))
		}
		if mem != requested {
			rt.Fatalf("%s: created account holds %v in memory, requested %v", ctx, bitsOf(mem), bitsOf(requested))
		}
		var f c15file
		b, _ := os.ReadFile(filepath.Join(w.UsersDir, "made.yaml"))
		if err := yaml.Unmarshal(b, &f); err != nil {
			rt.Fatalf("%s: account file unparseable: %v", ctx, err)
		}
		for i, n := range hlref.PrivilegeNames {
			if f.Access[n] && !creator.Has(i) {
				rt.Fatalf("%s: account file grants %s (privilege %d) which the creator lacks", ctx, n, i)
			}
			if f.Access[n] != requested.Has(i) {
				rt.Fatalf("%s: account file %s=%v, requested %v", ctx, n, f.Access[n], requested.Has(i))
			}
		}
		am, err := verifhooks.NewYAMLAccountManager(w.UsersDir)
		if err != nil {
			rt.Fatalf("%s: fresh manager: %v", ctx, err)
		}
		fa := am.Get("made")
		if fa == nil || !subset(hlref.Access(fa.Access), creator) || hlref.Access(fa.Access) != requested.Defined() {
			rt.Fatalf("%s: after reload the account holds %v", ctx, fa)
		}
		// and the new account really has only those privileges when it logs in
		n := w.Connect("10.0.0.9:9")
		if n.Login(hlsim.LoginOpts{Login: "made", Password: "mpw", Version: hlref.BE16(190)}) == nil {
			rt.Fatalf("%s: created account cannot log in", ctx)
		}
		for _, tr := range n.TakeInbox() {
			if tr.Type == hlref.TranUserAccess {
				d, _ := tr.Get(hlref.FUserAccess)
				var wa hlref.Access
				copy(wa[:], d)
				if !subset(wa, creator) {
					rt.Fatalf("%s: created account is told it holds %v", ctx, bitsOf(wa))
				}
			}
		}
	})
	return created
}

// TestC06RenameForm: the batch editor's request has a third form - an entry that names an existing login and a
// new one - which also brings a login into existence.  A creator who may create but not modify accounts makes an
// account within its own privileges and then sends that form with privileges of its choice: no login holding a
// privilege the creator lacks may exist afterwards, in memory or on disk.
func TestC06RenameForm(t *testing.T) {
	ev := evid.New("C06", "TestC06RenameForm")
	defer ev.Flush()
	rapid.Check(t, func(rt *rapid.T) {
		creator := genAccess(rt, "creator").Defined()
		creator.Set(hlref.PrivCreateUser)
		creator.Clear(hlref.PrivModifyUser)
		requested := genAccess(rt, "requested").Defined()
		if rapid.Bool().Draw(rt, "full") {
			requested = hlref.AllAccess().Defined()
		}
		amplifies := !subset(requested, creator)
		opt := hlsim.Options{Agreement: "a", Accounts: []hlsim.AccountSpec{acct("admin", "Admin", "adminpw", allAccess), {Login: "creator", Name: "Creator", Password: "cpw", Access: creator}}}
		inWorld(rt, opt, func(rt *rapid.T, w *hlsim.World) {
			admin := loginAs(rt, w, "10.0.0.1:1", "admin", "adminpw", "admin")
			c := loginAs(rt, w, "10.0.0.2:1", "creator", "cpw", "creator")
			var none hlref.Access
			if r := c.Request(hlref.TranUpdateUser, fld(hlref.FData, subFields(fld(hlref.FUserLogin, hlref.Obfuscate([]byte("tmp"))), sfld(hlref.FUserName, "Tmp"),
				fld(hlref.FUserPassword, hlref.Obfuscate([]byte("tpw"))), fld(hlref.FUserAccess, none[:])))); !okReply(r) {
				rt.Fatalf("harness: creation of an account without privileges refused: %s", replySummary(r))
			}
			c.Request(hlref.TranUpdateUser, fld(hlref.FData, subFields(fld(hlref.FData, hlref.Obfuscate([]byte("tmp"))), fld(hlref.FUserLogin, hlref.Obfuscate([]byte("made"))), sfld(hlref.FUserName, "Made"),
				fld(hlref.FUserPassword, hlref.Obfuscate([]byte("mpw"))), fld(hlref.FUserAccess, requested[:]))))
			for _, login := range []string{"made", "tmp"} {
				var mem hlref.Access
				if g := admin.Request(hlref.TranGetUser, sfld(hlref.FUserLogin, login)); okReply(g) {
					d, _ := g.Get(hlref.FUserAccess)
					copy(mem[:], d)
					if !subset(mem, creator) {
						rt.Fatalf("creator %v (may create, may not modify accounts) made an account and sent the rename form of update-user with privileges %v: login %q now holds %v in memory - privileges the creator lacks", bitsOf(creator), bitsOf(requested), login, bitsOf(mem))
					}
				}
				if b, err := os.ReadFile(filepath.Join(w.UsersDir, login+".yaml")); err == nil {
					var a hotline.Account
					if yaml.Unmarshal(b, &a) == nil && !subset(hlref.Access(a.Access), creator) {
						rt.Fatalf("creator %v sent the rename form of update-user with privileges %v: the account file of %q holds %v - privileges the creator lacks", bitsOf(creator), bitsOf(requested), login, bitsOf(hlref.Access(a.Access)))
					}
				}
			}
		})
		ev.Case(evid.Hash("renameform", creator[:], requested[:]), amplifies, "rename-form")
	})
}

func TestC06Create(t *testing.T) {
	ev := evid.New("C06", "TestC06Create")
	defer ev.Flush()
	rapid.Check(t, func(rt *rapid.T) {
		creator := genAccess(rt, "creator")
		path := rapid.SampledFrom([]string{"new-user", "update-user", "update-user-after-edit"}).Draw(rt, "path")
		via := rapid.SampledFrom([]string{"", "", "setuser"}).Draw(rt, "via")
		var req hlref.Access
		cd := creator.Defined()
		if via == "setuser" {
			cd = creator
		}
		cd.Set(hlref.PrivCreateUser)
		mode := rapid.SampledFrom([]string{"random", "subset", "subset+1", "equal", "empty", "full", "superset-undefined"}).Draw(rt, "mode")
		switch mode {
		case "random":
			req = genAccess(rt, "req")
		case "subset", "subset+1":
			for _, i := range bitsOf(cd) {
				if rapid.Bool().Draw(rt, fmt.Sprintf("keep%d", i)) {
					req.Set(i)
				}
			}
			if mode == "subset+1" {
				req.Set(rapid.IntRange(0, 63).Draw(rt, "extra"))
			}
		case "equal":
			req = cd
		case "full":
			req = hlref.AllAccess()
		case "superset-undefined":
			req = cd
			req.Set(rapid.SampledFrom([]int{19, 41, 42, 47, 48, 55, 56, 63}).Draw(rt, "undef"))
		}
		created := c06create(rt, creator, req, path, via)
		lab := "refused"
		if created {
			lab = "created"
		}
		ev.Case(evid.Hash(cd[:], req[:], path, via), !subset(req, cd), "create:"+lab, "mode:"+mode, "path:"+path, "creator-privileges-via:"+via)
		if ev.WantSample() && !subset(req, cd) {
			ev.Sample(map[string]any{"creator": bitsOf(cd), "requested": bitsOf(req), "path": path, "outcome": lab})
		}
	})
}

// TestC06ExtraBit enumerates, for both creation requests, every position of one extra bit
// beyond a creator bitmap (exhaustive over the 64 positions for several backgrounds).
func TestC06ExtraBit(t *testing.T) {
	ev := evid.New("C06", "TestC06ExtraBit")
	defer ev.Flush()
	_ = flagSetChecks1()
	shard, nsh := shardInfo()
	backgrounds := []hlref.Access{{}, hlref.AccessOf(2, 9, 10, 20), hlref.AllAccess().Defined()}
	n := 0
	for _, bg := range backgrounds {
		for extra := 0; extra < 64; extra++ {
			for _, path := range []string{"new-user", "update-user"} {
				n++
				if n%nsh != shard {
					continue
				}
				creator := bg.Defined()
				creator.Set(hlref.PrivCreateUser)
				creator.Clear(extra)
				if extra == hlref.PrivCreateUser {
					continue // the creator must be able to create accounts at all
				}
				req := creator
				req.Set(extra)
				bg, extra, path := bg, extra, path
				rapid.Check(t, func(rt *rapid.T) {
					if c06create(rt, creator, req, path) {
						rt.Fatalf("%s: account created with extra privilege %d the creator (background %v) lacks", path, extra, bitsOf(bg))
					}
				})
				ev.Case(evid.Hash(creator[:], extra, path), true, "extra-bit:"+path)
				if ev.WantSample() {
					ev.Sample(map[string]any{"creator": bitsOf(creator), "extra_bit": extra, "path": path, "outcome": "refused"})
				}
			}
		}
	}
	ev.SetExtra("exhaustive_extra_bit_positions", 64)
}

func TestC06Kick(t *testing.T) {
	ev := evid.New("C06", "TestC06Kick")
	defer ev.Flush()
	rapid.Check(t, func(rt *rapid.T) {
		nt := rapid.IntRange(1, 4).Draw(rt, "ntargets")
		type target struct {
			bits      hlref.Access
			protected bool
			option    int
			conn      *hlsim.Conn
			addr      string
		}
		var ts []*target
		accounts := []hlsim.AccountSpec{acct("admin", "Admin", "adminpw", hlref.AccessOf(hlref.PrivDisconUser, hlref.PrivReadChat))}
		for i := 0; i < nt; i++ {
			b := genAccess(rt, fmt.Sprintf("t%d", i)).Defined()
			prot := rapid.Bool().Draw(rt, fmt.Sprintf("prot%d", i))
			if prot {
				b.Set(hlref.PrivCannotBeDiscon)
			} else {
				b.Clear(hlref.PrivCannotBeDiscon)
			}
			ts = append(ts, &target{bits: b, protected: prot, option: rapid.IntRange(0, 2).Draw(rt, fmt.Sprintf("opt%d", i)), addr: fmt.Sprintf("10.6.0.%d", i+1)})
			accounts = append(accounts, hlsim.AccountSpec{Login: fmt.Sprintf("t%d", i), Name: fmt.Sprintf("T%d", i), Password: "tpw", Access: b})
		}
		anyProtBan := false
		// in a third of the cases the protection bit reaches the targets through an administrator's set-user while each
		// target account is logged in twice and the disconnect request is aimed at the later session
		flip := rapid.IntRange(0, 2).Draw(rt, "protectionViaSetUser") == 0
		if flip {
			accounts = append(accounts, acct("super", "Super", "spw", allAccess))
			for i := range ts {
				b := ts[i].bits
				if ts[i].protected {
					b.Clear(hlref.PrivCannotBeDiscon)
				} else {
					b.Set(hlref.PrivCannotBeDiscon)
				}
				accounts[1+i].Access = b // the opposite of what the set-user will establish
			}
		}
		inWorld(rt, hlsim.Options{Agreement: "a", Accounts: accounts}, func(rt *rapid.T, w *hlsim.World) {
			admin := loginAs(rt, w, "10.0.0.1:1", "admin", "adminpw", "admin")
			for i, tg := range ts {
				tg.conn = loginAs(rt, w, tg.addr+":5000", fmt.Sprintf("t%d", i), "tpw", fmt.Sprintf("t%d", i))
			}
			if flip {
				// ids so far: admin 1, targets 2..nt+1; now the second sessions nt+2..2nt+1, then the editor
				for i, tg := range ts {
					tg.addr = fmt.Sprintf("10.6.1.%d", i+1)
					tg.conn = loginAs(rt, w, tg.addr+":5000", fmt.Sprintf("t%d", i), "tpw", fmt.Sprintf("t%d-second", i))
				}
				super := loginAs(rt, w, "10.0.0.2:1", "super", "spw", "super")
				for i, tg := range ts {
					if r := super.Request(hlref.TranSetUser, fld(hlref.FUserLogin, hlref.Obfuscate([]byte(fmt.Sprintf("t%d", i)))), sfld(hlref.FUserName, fmt.Sprintf("T%d", i)), fld(hlref.FUserAccess, tg.bits[:]), fld(hlref.FUserPassword, []byte{0})); !okReply(r) {
						rt.Fatalf("harness: set-user refused")
					}
				}
				settle(0)
			}
			for i, tg := range ts {
				id := i + 2
				if flip {
					id = nt + 2 + i
				}
				fs := []hlref.Field{fld(hlref.FUserID, hlref.BE16(id))}
				if tg.option != 0 {
					fs = append(fs, fld(hlref.FOptions, hlref.BE16(tg.option)))
				}
				if tg.protected && rapid.IntRange(0, 2).Draw(rt, fmt.Sprintf("wideUserID%d", i)) == 0 {
					// some clients send integers four bytes wide: however the server takes such a user id, the protected user stays.
					// (The request comes from an administrator connection of its own: what happens to the requester is its own business.)
					fs[0] = fld(hlref.FUserID, hlref.BE32(id))
					wide := loginAs(rt, w, fmt.Sprintf("10.0.9.%d:1", i+1), "admin", "adminpw", "admin-wide")
					wide.Request(hlref.TranDisconnectUser, fs...)
					continue
				}
				r := admin.Request(hlref.TranDisconnectUser, fs...)
				if !tg.protected && !okReply(r) {
					rt.Fatalf("disconnect of unprotected user t%d refused", i)
				}
			}
			settle(5 * time.Second)
			fresh, err := verifhooks.NewBanFile(filepath.Join(w.Cfg, "Banlist.yaml"))
			if err != nil {
				rt.Fatalf("ban file does not load: %v", err)
			}
			for i, tg := range ts {
				if tg.protected {
					if tg.option != 0 {
						anyProtBan = true
					}
					if tg.conn.EOF() {
						rt.Fatalf("protected user t%d (privileges %v) was disconnected by a disconnect request with option %d", i, definedSet(tg.bits), tg.option)
					}
					if b, _ := w.Bans.IsBanned(tg.addr); b {
						rt.Fatalf("address of protected user t%d is banned in memory", i)
					}
					if b, _ := fresh.IsBanned(tg.addr); b {
						rt.Fatalf("address of protected user t%d is banned on disk", i)
					}
					if fileHas(filepath.Join(w.Cfg, "Banlist.yaml"), tg.addr+":") {
						rt.Fatalf("address of protected user t%d appears in Banlist.yaml", i)
					}
					if k := tg.conn.Request(hlref.TranKeepAlive); !okReply(k) {
						rt.Fatalf("protected user t%d no longer gets replies", i)
					}
					c := w.Connect(tg.addr + ":5001")
					if c.Login(hlsim.LoginOpts{Login: fmt.Sprintf("t%d", i), Password: "tpw", Name: []byte("again")}) == nil {
						rt.Fatalf("protected user t%d cannot reconnect from its address after the disconnect request", i)
					}
				} else if !tg.conn.EOF() {
					rt.Fatalf("unprotected user t%d still connected 5 s after the disconnect request", i)
				}
			}
		})
		h := ""
		for _, tg := range ts {
			h += fmt.Sprintf("%x/%v/%d;", tg.bits[:], tg.protected, tg.option)
		}
		ev.Case(evid.Hash(h), anyProtBan, "kick")
		if ev.WantSample() && anyProtBan {
			var s []map[string]any
			for _, tg := range ts {
				s = append(s, map[string]any{"privileges": definedSet(tg.bits), "protected": tg.protected, "ban_option": tg.option})
			}
			ev.Sample(map[string]any{"kick_targets": s})
		}
	})
}

// TestC06LoginWindow: a disconnect request that is handled while the protected user's login is
// still in progress - at the instant its connection enters the registry (harness-owned schedule
// point) - must not drop or ban it either.
func TestC06LoginWindow(t *testing.T) {
	ev := evid.New("C06", "TestC06LoginWindow")
	defer ev.Flush()
	rapid.Check(t, func(rt *rapid.T) {
		option := rapid.IntRange(0, 2).Draw(rt, "option")
		when := rapid.SampledFrom([]string{"before-add", "after-add", "before-delete"}).Draw(rt, "when")
		flow := rapid.SampledFrom([]string{"123", "15"}).Draw(rt, "flow")
		prot := hlref.AccessOf(hlref.PrivCannotBeDiscon, hlref.PrivReadChat)
		inWorld(rt, hlsim.Options{Agreement: "a", Accounts: []hlsim.AccountSpec{acct("admin", "Admin", "adminpw", hlref.AccessOf(hlref.PrivDisconUser)), {Login: "vip", Name: "Vip", Password: "vpw", Access: prot}}}, func(rt *rapid.T, w *hlsim.World) {
			pm := &pointMgr{ClientManager: w.Srv.ClientMgr}
			w.Srv.ClientMgr = pm
			admin := loginAs(rt, w, "10.6.9.1:1", "admin", "adminpw", "admin")
			done := make(chan struct{})
			realQuiesce := hlsim.Quiesce
			defer func() { hlsim.Quiesce = realQuiesce }()
			var v *hlsim.Conn
			if when == "before-delete" {
				// the other end of the session: the protected user is fully logged in and then hangs up; the request is
				// handled while its connection is being taken out of the registry (its own lock is held there)
				v = loginAs(rt, w, "10.6.9.2:1", "vip", "vpw", "vip")
			}
			pm.arm(when, func() {
				hlsim.Quiesce = func() { time.Sleep(time.Millisecond) }
				fs := []hlref.Field{fld(hlref.FUserID, hlref.BE16(2))} // the id the new connection gets
				if option != 0 {
					fs = append(fs, fld(hlref.FOptions, hlref.BE16(option)))
				}
				admin.Request(hlref.TranDisconnectUser, fs...)
				close(done)
			})
			if when == "before-delete" {
				v.Close()
				select {
				case <-done:
				case <-time.After(time.Minute):
					rt.Fatalf("harness: the hang-up never reached the registry")
				}
				hlsim.Quiesce = realQuiesce
				settle(5 * time.Second)
				if b, _ := w.Bans.IsBanned("10.6.9.2"); b {
					rt.Fatalf("the protected user's address was banned by a disconnect request (option %d) handled while it was hanging up", option)
				}
				if fileHas(filepath.Join(w.Cfg, "Banlist.yaml"), "10.6.9.2") {
					rt.Fatalf("the protected user's address is in the ban file (disconnect request with option %d handled while it was hanging up)", option)
				}
				return
			}
			v = w.Connect("10.6.9.2:1")
			if !v.Handshake() {
				rt.Fatalf("harness: handshake")
			}
			lo := hlsim.LoginOpts{Login: "vip", Password: "vpw"}
			if flow == "123" {
				lo.Name, lo.Icon = []byte("vip"), 1
			} else {
				lo.Version = hlref.BE16(190)
			}
			v.SendAsync(hlref.Tran{Type: hlref.TranLogin, ID: v.NewID(), Fields: lo.Fields()}.Encode())
			select {
			case <-done:
			case <-time.After(time.Minute):
				rt.Fatalf("harness: the login never reached the registry")
			}
			hlsim.Quiesce = realQuiesce
			settle(5 * time.Second)
			if v.EOF() {
				rt.Fatalf("a disconnect request (option %d) handled %s the protected user's connection entered the registry dropped it", option, when)
			}
			if r := v.Request(hlref.TranKeepAlive); !okReply(r) {
				rt.Fatalf("the protected user is no longer served after a disconnect request (option %d) handled during its login", option)
			}
			if b, _ := w.Bans.IsBanned("10.6.9.2"); b {
				rt.Fatalf("the protected user's address was banned by a disconnect request (option %d) handled during its login", option)
			}
			if fileHas(filepath.Join(w.Cfg, "Banlist.yaml"), "10.6.9.2") {
				rt.Fatalf("the protected user's address is in the ban file")
			}
		})
		ev.Case(evid.Hash("lw", option, when, flow), true, "login-window:"+when)
	})
}

// TestC06GraceWindow: a disconnect request gives its target one second; if the target leaves by itself in that second
// and a protected user logs in meanwhile, the delayed disconnect must not hit the protected user (whatever user id it
// was given): it stays connected, listed and served, and its address is not banned.
func TestC06GraceWindow(t *testing.T) {
	ev := evid.New("C06", "TestC06GraceWindow")
	defer ev.Flush()
	rapid.Check(t, func(rt *rapid.T) {
		option := rapid.IntRange(0, 2).Draw(rt, "option")
		others := rapid.IntRange(0, 2).Draw(rt, "othersBefore")
		flow := rapid.SampledFrom([]string{"123", "15"}).Draw(rt, "flow")
		gap := rapid.SampledFrom([]time.Duration{0, time.Millisecond, 500 * time.Millisecond, 999 * time.Millisecond}).Draw(rt, "gap")
		prot := hlref.AccessOf(hlref.PrivCannotBeDiscon, hlref.PrivReadChat)
		inWorld(rt, hlsim.Options{Agreement: "a", Accounts: []hlsim.AccountSpec{acct("admin", "Admin", "adminpw", hlref.AccessOf(hlref.PrivDisconUser)), acct("plain", "Plain", "ppw", hlref.AccessOf(hlref.PrivReadChat)), {Login: "vip", Name: "Vip", Password: "vpw", Access: prot}}}, func(rt *rapid.T, w *hlsim.World) {
			admin := loginAs(rt, w, "10.6.8.1:1", "admin", "adminpw", "admin")
			for i := 0; i < others; i++ {
				loginAs(rt, w, fmt.Sprintf("10.6.8.%d:1", 10+i), "plain", "ppw", fmt.Sprintf("other%d", i))
			}
			victim := loginAs(rt, w, "10.6.8.3:1", "plain", "ppw", "victim") // the newest arrival
			vid := 2 + others
			fs := []hlref.Field{fld(hlref.FUserID, hlref.BE16(vid))}
			if option != 0 {
				fs = append(fs, fld(hlref.FOptions, hlref.BE16(option)))
			}
			if !okReply(admin.Request(hlref.TranDisconnectUser, fs...)) {
				rt.Fatalf("harness: disconnect request against an unprotected user refused")
			}
			victim.Close()
			settle(gap)
			v := w.Connect("10.6.8.2:1")
			lo := hlsim.LoginOpts{Login: "vip", Password: "vpw"}
			if flow == "123" {
				lo.Name, lo.Icon = []byte("vip"), 1
			} else {
				lo.Version = hlref.BE16(190)
			}
			if v.Login(lo) == nil {
				rt.Fatalf("harness: login of the protected user failed")
			}
			if flow == "15" && !okReply(v.Agreed([]byte("vip"), 1, 0, nil)) {
				rt.Fatalf("harness: agreed refused")
			}
			settle(3 * time.Second)
			if v.EOF() {
				rt.Fatalf("the protected user, who logged in while a kicked user (option %d) was leaving, was disconnected", option)
			}
			if r := v.Request(hlref.TranKeepAlive); !okReply(r) {
				rt.Fatalf("the protected user, who logged in while a kicked user (option %d) was leaving, is no longer served", option)
			}
			us, err := admin.UserList()
			if err != nil {
				rt.Fatalf("user list: %v", err)
			}
			found := false
			for _, u := range us {
				if string(u.Name) == "vip" || string(u.Name) == "Vip" {
					found = true
				}
			}
			if !found {
				rt.Fatalf("the protected user, who logged in %s after a kicked user (option %d) hung up by itself, is no longer in the user list: %v", gap, option, us)
			}
			if b, _ := w.Bans.IsBanned("10.6.8.2"); b {
				rt.Fatalf("the protected user's address was banned")
			}
		})
		ev.Case(evid.Hash("grace", option, others, flow, gap), true, "grace-window")
	})
}

// TestC06TwoCreators: two creators whose privileges are incomparable ask for the same new login at the same instant,
// each with privileges of its own.  At most one of them may be told "created", and the account that exists afterwards
// holds no privilege that a creator who was told "created" lacks - in memory and in the account file.
func TestC06TwoCreators(t *testing.T) {
	ev := evid.New("C06", "TestC06TwoCreators")
	defer ev.Flush()
	rapid.Check(t, func(rt *rapid.T) {
		rounds := rapid.IntRange(10, 40).Draw(rt, "rounds")
		paths := [2]string{rapid.SampledFrom([]string{"new-user", "update-user"}).Draw(rt, "pathA"), rapid.SampledFrom([]string{"new-user", "update-user"}).Draw(rt, "pathB")}
		privA := hlref.AccessOf(hlref.PrivCreateUser, hlref.PrivDownloadFile, hlref.PrivReadChat)
		privB := hlref.AccessOf(hlref.PrivCreateUser, hlref.PrivUploadFile, hlref.PrivSendChat)
		reqA := hlref.AccessOf(hlref.PrivDownloadFile, hlref.PrivReadChat)
		reqB := hlref.AccessOf(hlref.PrivUploadFile, hlref.PrivSendChat)
		opt := hlsim.Options{Agreement: "a", Accounts: []hlsim.AccountSpec{acct("admin", "Admin", "adminpw", allAccess), {Login: "ca", Name: "CA", Password: "pw", Access: privA}, {Login: "cb", Name: "CB", Password: "pw", Access: privB}}}
		both := 0
		inWorld(rt, opt, func(rt *rapid.T, w *hlsim.World) {
			admin := loginAs(rt, w, "10.6.7.1:1", "admin", "adminpw", "admin")
			cs := [2]*hlsim.Conn{loginAs(rt, w, "10.6.7.2:1", "ca", "pw", "ca"), loginAs(rt, w, "10.6.7.3:1", "cb", "pw", "cb")}
			privs, reqs := [2]hlref.Access{privA, privB}, [2]hlref.Access{reqA, reqB}
			for r := 0; r < rounds; r++ {
				login := fmt.Sprintf("acct%03d", r)
				var ids [2]uint32
				for i, c := range cs {
					ids[i] = c.NewID()
					var tr hlref.Tran
					if paths[i] == "new-user" {
						tr = hlref.Tran{Type: hlref.TranNewUser, ID: ids[i], Fields: []hlref.Field{fld(hlref.FUserLogin, hlref.Obfuscate([]byte(login))), sfld(hlref.FUserName, "Made"), fld(hlref.FUserPassword, hlref.Obfuscate([]byte("mpw"))), fld(hlref.FUserAccess, reqs[i][:])}}
					} else {
						tr = hlref.Tran{Type: hlref.TranUpdateUser, ID: ids[i], Fields: []hlref.Field{fld(hlref.FData, subFields(fld(hlref.FUserLogin, hlref.Obfuscate([]byte(login))), sfld(hlref.FUserName, "Made"), fld(hlref.FUserPassword, hlref.Obfuscate([]byte("mpw"))), fld(hlref.FUserAccess, reqs[i][:])))}}
					}
					c.SendAsync(tr.Encode())
				}
				settle(0)
				var told [2]bool
				for i, c := range cs {
					for _, t := range c.TakeInbox() {
						if t.IsReply == 1 && t.ID == ids[i] && t.Err == 0 {
							told[i] = true
						}
					}
				}
				if told[0] && told[1] {
					both++
				}
				g := admin.Request(hlref.TranGetUser, sfld(hlref.FUserLogin, login))
				if !okReply(g) {
					if told[0] || told[1] {
						rt.Fatalf("round %d: a creator was told %q was created, but no such account exists", r, login)
					}
					continue
				}
				var mem, disk hlref.Access
				d, _ := g.Get(hlref.FUserAccess)
				copy(mem[:], d)
				if b, err := os.ReadFile(filepath.Join(w.UsersDir, login+".yaml")); err == nil {
					var a hotline.Account
					if yaml.Unmarshal(b, &a) == nil {
						disk = hlref.Access(a.Access)
					}
				}
				for i := range cs {
					if told[i] && (!subset(mem, privs[i]) || !subset(disk, privs[i])) {
						rt.Fatalf("round %d: two creators asked for %q at the same instant; creator %d (privileges %v, asked for %v) was told the account was created, but it holds %v in memory and %v in its file - privileges that creator lacks (the other creator was told created: %v)", r, login, i, bitsOf(privs[i]), bitsOf(reqs[i]), bitsOf(mem), bitsOf(disk), told[1-i])
					}
				}
			}
		})
		ev.Case(evid.Hash("twocreators", rounds, paths[0], paths[1]), true, "two-creators")
		_ = both
	})
}

// TestC06Bystander: a protected user connected from the same address as an unprotected user who is kicked and banned
// stays connected and served - through the idle checks that follow (the production keep-alive loop runs in this world).
func TestC06Bystander(t *testing.T) {
	ev := evid.New("C06", "TestC06Bystander")
	defer ev.Flush()
	rapid.Check(t, func(rt *rapid.T) {
		option := rapid.IntRange(0, 2).Draw(rt, "option")
		wait := rapid.SampledFrom([]time.Duration{2 * time.Second, 11 * time.Second, 25 * time.Second, 6 * time.Minute}).Draw(rt, "wait")
		vipFirst := rapid.Bool().Draw(rt, "vipConnectsFirst")
		// the protected user's address: the kicked user's own, or another one that merely begins or ends with the same text
		vipAddr := rapid.SampledFrom([]string{"10.6.4.9", "10.6.4.91", "10.6.4.9", "110.6.4.9", "10.6.4.90"}).Draw(rt, "vipAddress")
		prot := hlref.AccessOf(hlref.PrivCannotBeDiscon, hlref.PrivReadChat)
		opt := hlsim.Options{Agreement: "a", Keepalive: true, Accounts: []hlsim.AccountSpec{acct("admin", "Admin", "adminpw", hlref.AccessOf(hlref.PrivDisconUser)), acct("plain", "Plain", "ppw", hlref.AccessOf(hlref.PrivReadChat)), {Login: "vip", Name: "Vip", Password: "vpw", Access: prot}}}
		inWorld(rt, opt, func(rt *rapid.T, w *hlsim.World) {
			admin := loginAs(rt, w, "10.6.4.1:1", "admin", "adminpw", "admin")
			var vip, victim *hlsim.Conn
			vid := 3
			if vipFirst {
				vip = loginAs(rt, w, vipAddr+":1001", "vip", "vpw", "vip")
				victim = loginAs(rt, w, "10.6.4.9:1002", "plain", "ppw", "victim")
			} else {
				victim = loginAs(rt, w, "10.6.4.9:1002", "plain", "ppw", "victim")
				vip = loginAs(rt, w, vipAddr+":1001", "vip", "vpw", "vip")
				vid = 2
			}
			fs := []hlref.Field{fld(hlref.FUserID, hlref.BE16(vid))}
			if option != 0 {
				fs = append(fs, fld(hlref.FOptions, hlref.BE16(option)))
			}
			if !okReply(admin.Request(hlref.TranDisconnectUser, fs...)) {
				rt.Fatalf("harness: disconnect request against the unprotected user refused")
			}
			settle(wait)
			if !victim.EOF() && wait > time.Second {
				rt.Fatalf("harness: the kicked user is still connected after %s", wait)
			}
			if vip.EOF() {
				rt.Fatalf("the protected user, connected from the same address as a user who was kicked (option %d), lost its connection within %s", option, wait)
			}
			if r := vip.Request(hlref.TranKeepAlive); !okReply(r) {
				rt.Fatalf("the protected user, connected from the same address as a user who was kicked (option %d), is no longer served after %s", option, wait)
			}
			if vipAddr != "10.6.4.9" {
				// its own address was never banned: the protected user can come and go as before
				vip.Close()
				settle(time.Second)
				c := w.Connect(vipAddr + ":1003")
				if r := c.Login(hlsim.LoginOpts{Login: "vip", Password: "vpw", Name: []byte("vip again"), Icon: 1}); r == nil || r.Err != 0 {
					rt.Fatalf("after a user at 10.6.4.9 was kicked (option %d), the protected user at %s - never kicked, never banned - cannot log in again: %s", option, vipAddr, replySummary(r))
				}
			}
		})
		ev.Case(evid.Hash("bystander", option, wait, vipFirst), option != 0, "bystander")
	})
}
