// srvchild starts a mobius server the way cmd/mobius-hotline-server does (same stores, same
// handlers, production ListenAndServe) so that the harness can drive the real accept loops
// over loopback TCP and observe the process itself.
package main

import (
	"context"
	"flag"
	"fmt"
	"os"
	"path"
	"path/filepath"

	"github.com/jhalter/mobius/hotline"
	"github.com/jhalter/mobius/verifhooks"
)

func die(f string, a ...any) {
	fmt.Fprintf(os.Stderr, "srvchild: "+f+"\n", a...)
	os.Exit(2)
}

func main() {
	netInterface := flag.String("interface", "127.0.0.1", "interface to listen on")
	basePort := flag.Int("bind", 5500, "base port")
	configDir := flag.String("config", "", "config dir")
	logLevel := flag.String("log-level", "error", "log level")
	logFile := flag.String("log-file", "", "log file")
	flag.Parse()

	slogger := verifhooks.NewLogger(logLevel, logFile)
	config, err := verifhooks.LoadConfig(path.Join(*configDir, "config.yaml"))
	if err != nil {
		die("config: %v", err)
	}
	srv, err := hotline.NewServer(hotline.WithInterface(*netInterface), hotline.WithLogger(slogger), hotline.WithPort(*basePort), hotline.WithConfig(*config))
	if err != nil {
		die("server: %v", err)
	}
	if srv.MessageBoard, err = verifhooks.NewFlatNews(path.Join(*configDir, "MessageBoard.txt")); err != nil {
		die("board: %v", err)
	}
	if srv.BanList, err = verifhooks.NewBanFile(path.Join(*configDir, "Banlist.yaml")); err != nil {
		die("bans: %v", err)
	}
	if srv.ThreadedNewsMgr, err = verifhooks.NewThreadedNewsYAML(path.Join(*configDir, "ThreadedNews.yaml")); err != nil {
		die("news: %v", err)
	}
	if srv.AccountManager, err = verifhooks.NewYAMLAccountManager(filepath.Join(*configDir, "Users/")); err != nil {
		die("accounts: %v", err)
	}
	if srv.Agreement, err = verifhooks.NewAgreement(*configDir, "\r"); err != nil {
		die("agreement: %v", err)
	}
	if srv.Banner, err = os.ReadFile(filepath.Join(*configDir, config.BannerFile)); err != nil {
		die("banner: %v", err)
	}
	verifhooks.RegisterHandlers(srv)
	fmt.Fprintln(os.Stderr, "srvchild: serving")
	err = srv.ListenAndServe(context.Background())
	die("ListenAndServe returned: %v", err)
}
