// crashhelper applies one persistent update with the production stores and prints ACK.
// It is run under strace with a SIGKILL injected before one chosen system call; its main
// goroutine is pinned to the main thread so that the file system calls of the update are
// made by one thread in a reproducible order.
package main

import (
	"encoding/json"
	"fmt"
	"os"
	"path/filepath"
	"runtime"
	"time"

	"github.com/jhalter/mobius/hotline"
	"github.com/jhalter/mobius/verifhooks"
)

func init() { runtime.LockOSThread() }

type Op struct {
	Store    string   `json:"store"`
	Op       string   `json:"op"`
	Text     string   `json:"text,omitempty"`
	Path     []string `json:"path,omitempty"`
	Name     string   `json:"name,omitempty"`
	Title    string   `json:"title,omitempty"`
	Body     string   `json:"body,omitempty"`
	Parent   uint32   `json:"parent,omitempty"`
	ID       uint32   `json:"id,omitempty"`
	Login    string   `json:"login,omitempty"`
	NewLogin string   `json:"newlogin,omitempty"`
	Access   []byte   `json:"access,omitempty"`
	Password string   `json:"password,omitempty"`
	IP       string   `json:"ip,omitempty"`
	Perm     bool     `json:"perm,omitempty"`
	Unix     int64    `json:"unix,omitempty"`
}

func fail(code int, f string, a ...any) {
	fmt.Fprintf(os.Stderr, f+"\n", a...)
	os.Exit(code)
}

// Apply performs op on the stores found in dir (exported logic shared with the harness
// through copy: the harness applies the prefix of a sequence with the same function).
func Apply(dir string, op Op) error {
	switch op.Store {
	case "board":
		fn, err := verifhooks.NewFlatNews(filepath.Join(dir, "MessageBoard.txt"))
		if err != nil {
			return fmt.Errorf("load: %w", err)
		}
		_, err = fn.Write([]byte(op.Text))
		return err
	case "news":
		tn, err := verifhooks.NewThreadedNewsYAML(filepath.Join(dir, "ThreadedNews.yaml"))
		if err != nil {
			return fmt.Errorf("load: %w", err)
		}
		switch op.Op {
		case "bundle":
			return tn.CreateGrouping(op.Path, op.Name, hotline.NewsBundle)
		case "category":
			return tn.CreateGrouping(op.Path, op.Name, hotline.NewsCategory)
		case "post":
			return tn.PostArticle(op.Path, op.Parent, hotline.NewsArtData{Title: op.Title, Poster: "poster", Data: op.Body, Date: [8]byte{7, 208, 0, 0, 0, 0, 0, 1}})
		case "delart":
			return tn.DeleteArticle(op.Path, op.ID, false)
		case "delitem":
			return tn.DeleteNewsItem(op.Path)
		}
	case "acct":
		am, err := verifhooks.NewYAMLAccountManager(filepath.Join(dir, "Users"))
		if err != nil {
			return fmt.Errorf("load: %w", err)
		}
		var acc hotline.AccessBitmap
		copy(acc[:], op.Access)
		switch op.Op {
		case "create":
			return am.Create(hotline.Account{Login: op.Login, Name: op.Name, Password: op.Password, Access: acc})
		case "update", "rename":
			a := am.Get(op.Login)
			if a == nil {
				return fmt.Errorf("no such account %q", op.Login)
			}
			a.Name, a.Access = op.Name, acc
			nl := op.Login
			if op.Op == "rename" {
				nl = op.NewLogin
			}
			return am.Update(*a, nl)
		case "delete":
			return am.Delete(op.Login)
		}
	case "ban":
		bf, err := verifhooks.NewBanFile(filepath.Join(dir, "Banlist.yaml"))
		if err != nil {
			return fmt.Errorf("load: %w", err)
		}
		if op.Perm {
			return bf.Add(op.IP, nil)
		}
		t := time.Unix(op.Unix, 0).UTC()
		return bf.Add(op.IP, &t)
	}
	return fmt.Errorf("unknown op %+v", op)
}

func main() {
	if len(os.Args) != 3 {
		fail(2, "usage: crashhelper <dir> <op-json>")
	}
	var op Op
	if err := json.Unmarshal([]byte(os.Args[2]), &op); err != nil {
		fail(2, "bad op: %v", err)
	}
	if err := Apply(os.Args[1], op); err != nil {
		fail(3, "apply: %v", err)
	}
	os.Stdout.WriteString("ACK\n")
}
