// crashhelper applies one persistent update with the production stores and prints ACK.
// It is run under strace with a SIGKILL injected before one chosen system call; its main
// goroutine is pinned to the main thread so that the file system calls of the update are
// made by one thread in a reproducible order.
package main

import (
	"encoding/json"
	"fmt"
	"os"
	"path/filepath"
	"runtime"
	"sync"
	"time"

	"github.com/jhalter/mobius/hotline"
	"github.com/jhalter/mobius/verifhooks"
)

func init() { runtime.LockOSThread() }

type Op struct {
	Store    string   `json:"store"`
	Op       string   `json:"op"`
	Text     string   `json:"text,omitempty"`
	Path     []string `json:"path,omitempty"`
	Name     string   `json:"name,omitempty"`
	Title    string   `json:"title,omitempty"`
	Body     string   `json:"body,omitempty"`
	Parent   uint32   `json:"parent,omitempty"`
	ID       uint32   `json:"id,omitempty"`
	Login    string   `json:"login,omitempty"`
	NewLogin string   `json:"newlogin,omitempty"`
	Access   []byte   `json:"access,omitempty"`
	Password string   `json:"password,omitempty"`
	IP       string   `json:"ip,omitempty"`
	Perm     bool     `json:"perm,omitempty"`
	Unix     int64    `json:"unix,omitempty"`
	Burst    []Op     `json:"burst,omitempty"` // op "burst": these updates of the same store are made at the same time, on one store object
}

func fail(code int, f string, a ...any) {
	fmt.Fprintf(os.Stderr, f+"\n", a...)
	os.Exit(code)
}

// Apply performs op on the stores found in dir (exported logic shared with the harness
// through copy: the harness applies the prefix of a sequence with the same function).
// Apply performs op on the store found in dir.  A "burst" opens the store once and applies its
// parts from as many goroutines at the same time (the way concurrent connections use one store).
func Apply(dir string, op Op) error {
	do, err := open(dir, op.Store)
	if err != nil {
		return fmt.Errorf("load: %w", err)
	}
	if op.Op == "seq" {
		// several updates one after the other on one store object (no restart in between)
		for i, o := range op.Burst {
			if err := do(o); err != nil {
				return fmt.Errorf("step %d (%s): %w", i+1, o.Op, err)
			}
		}
		return nil
	}
	if op.Op != "burst" {
		return do(op)
	}
	var wg sync.WaitGroup
	errs := make([]error, len(op.Burst))
	start := make(chan struct{})
	for i, sub := range op.Burst {
		wg.Add(1)
		go func() {
			defer wg.Done()
			<-start
			errs[i] = do(sub)
		}()
	}
	close(start)
	wg.Wait()
	for _, e := range errs {
		if e != nil {
			return e
		}
	}
	return nil
}

// open loads one store and returns the function that applies a single update to it.
func open(dir, store string) (func(Op) error, error) {
	switch store {
	case "board":
		fn, err := verifhooks.NewFlatNews(filepath.Join(dir, "MessageBoard.txt"))
		if err != nil {
			return nil, err
		}
		var mu sync.Mutex // the server serialises board writes with Server.TextMU
		return func(op Op) error {
			mu.Lock()
			defer mu.Unlock()
			_, err := fn.Write([]byte(op.Text))
			return err
		}, nil
	case "news":
		tn, err := verifhooks.NewThreadedNewsYAML(filepath.Join(dir, "ThreadedNews.yaml"))
		if err != nil {
			return nil, err
		}
		return func(op Op) error {
			switch op.Op {
			case "bundle":
				return tn.CreateGrouping(op.Path, op.Name, hotline.NewsBundle)
			case "category":
				return tn.CreateGrouping(op.Path, op.Name, hotline.NewsCategory)
			case "post":
				return tn.PostArticle(op.Path, op.Parent, hotline.NewsArtData{Title: op.Title, Poster: "poster", Data: op.Body, Date: [8]byte{7, 208, 0, 0, 0, 0, 0, 1}})
			case "delart":
				return tn.DeleteArticle(op.Path, op.ID, false)
			case "delitem":
				return tn.DeleteNewsItem(op.Path)
			}
			return fmt.Errorf("unknown op %+v", op)
		}, nil
	case "acct":
		am, err := verifhooks.NewYAMLAccountManager(filepath.Join(dir, "Users"))
		if err != nil {
			return nil, err
		}
		return func(op Op) error {
			var acc hotline.AccessBitmap
			copy(acc[:], op.Access)
			switch op.Op {
			case "create":
				return am.Create(hotline.Account{Login: op.Login, Name: op.Name, Password: op.Password, Access: acc})
			case "update", "rename":
				a := am.Get(op.Login)
				if a == nil {
					return fmt.Errorf("no such account %q", op.Login)
				}
				a.Name, a.Access = op.Name, acc
				nl := op.Login
				if op.Op == "rename" {
					nl = op.NewLogin
				}
				return am.Update(*a, nl)
			case "delete":
				return am.Delete(op.Login)
			}
			return fmt.Errorf("unknown op %+v", op)
		}, nil
	case "ban":
		bf, err := verifhooks.NewBanFile(filepath.Join(dir, "Banlist.yaml"))
		if err != nil {
			return nil, err
		}
		return func(op Op) error {
			if op.Perm {
				return bf.Add(op.IP, nil)
			}
			t := time.Unix(op.Unix, 0).UTC()
			return bf.Add(op.IP, &t)
		}, nil
	}
	return nil, fmt.Errorf("unknown store %q", store)
}

func main() {
	if len(os.Args) != 3 {
		fail(2, "usage: crashhelper <dir> <op-json>")
	}
	var op Op
	if err := json.Unmarshal([]byte(os.Args[2]), &op); err != nil {
		fail(2, "bad op: %v", err)
	}
	if err := Apply(os.Args[1], op); err != nil {
		fail(3, "apply: %v", err)
	}
	os.Stdout.WriteString("ACK\n")
}
