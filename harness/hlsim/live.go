package hlsim

import (
	"io"
	"regexp"
	"runtime"
	"strings"
	"sync"
	"testing/synctest"
	"time"
)

// Quiesce blocks until the world is quiescent.  Inside a synctest bubble (the default)
// this is synctest.Wait, an exact barrier.  Live (real-time) tests replace it with
// LiveQuiesce.
var Quiesce = synctest.Wait

var goroutineHdr = regexp.MustCompile(`^goroutine (\d+) \[([^\],]+)`)

// quiescentNow reports whether every goroutine that has a mobius or hlsim frame is parked
// (blocked on a channel, select, condition variable, semaphore, mutex or network/pipe
// I/O) and none is running, runnable, in a system call or sleeping.  The calling goroutine
// is ignored.  The predicate depends on no function names inside mobius.
func quiescentNow() (bool, string) {
	buf := make([]byte, 1<<20)
	for {
		n := runtime.Stack(buf, true)
		if n < len(buf) {
			buf = buf[:n]
			break
		}
		buf = make([]byte, 2*len(buf))
	}
	for i, g := range strings.Split(string(buf), "\n\n") {
		if i == 0 {
			continue // the caller
		}
		if !strings.Contains(g, "github.com/jhalter/mobius/") && !strings.Contains(g, "verif/harness/hlsim.") {
			continue
		}
		m := goroutineHdr.FindStringSubmatch(g)
		if m == nil {
			return false, "unparsed goroutine header"
		}
		switch m[2] {
		case "chan receive", "chan send", "select", "sync.Cond.Wait", "semacquire", "IO wait", "sync.Mutex.Lock", "sync.RWMutex.Lock",
			"sync.RWMutex.RLock", "sync.WaitGroup.Wait", "chan receive (nil chan)", "chan send (nil chan)", "select (no cases)":
		default:
			return false, m[2]
		}
	}
	return true, ""
}

// LiveTimeout bounds LiveQuiesce; when it is hit LiveStuck is set (the caller reports
// "inconclusive", never a violation).
var (
	LiveTimeout = 60 * time.Second
	LiveStuck   string
)

// LiveQuiesce polls until the predicate holds on three consecutive stack dumps.
func LiveQuiesce() {
	ok := 0
	deadline := time.Now().Add(LiveTimeout)
	for ok < 3 {
		q, why := quiescentNow()
		if q {
			ok++
		} else {
			ok = 0
			if time.Now().After(deadline) {
				LiveStuck = why
				return
			}
		}
		runtime.Gosched()
		time.Sleep(300 * time.Microsecond)
	}
}

// FairWriter serves Write calls strictly in arrival order, one at a time (a ticket lock:
// a legitimate model of a socket's write lock).  Waiting writers block on a condition
// variable, which synctest treats as durably blocked.  It records how often a Write had
// to wait behind another and the largest Write seen.
type FairWriter struct {
	io.ReadWriteCloser
	mu       sync.Mutex
	cond     *sync.Cond
	next     int
	serving  int
	Waited   int
	Writes   int
	MaxWrite int
}

func NewFairWriter(inner io.ReadWriteCloser) *FairWriter {
	f := &FairWriter{ReadWriteCloser: inner}
	f.cond = sync.NewCond(&f.mu)
	return f
}

func (f *FairWriter) Write(p []byte) (int, error) {
	f.mu.Lock()
	my := f.next
	f.next++
	if f.serving != my {
		f.Waited++
	}
	for f.serving != my {
		f.cond.Wait()
	}
	f.Writes++
	if len(p) > f.MaxWrite {
		f.MaxWrite = len(p)
	}
	f.mu.Unlock()
	n, err := f.ReadWriteCloser.Write(p)
	f.mu.Lock()
	f.serving++
	f.cond.Broadcast()
	f.mu.Unlock()
	return n, err
}

func (f *FairWriter) Stats() (writes, waited, maxWrite int) {
	f.mu.Lock()
	defer f.mu.Unlock()
	return f.Writes, f.Waited, f.MaxWrite
}
