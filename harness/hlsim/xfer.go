package hlsim

import (
	"fmt"
	"sort"
	"strings"
	"time"

	"verif/harness/hlref"
)

// ---------------------------------------------------------------------------------------
// Reference client: file transfers (written from the protocol document's transfer
// chapters; nothing here uses mobius code).

// UploadStream builds the byte stream a client sends after the HTXF preamble for a file
// upload: flattened file header with INFO fork, DATA fork, and (forks == 3) a MACR fork.
// The dates every uploaded information fork carries: created in 1996, modified in 2024 (two different values).
var (
	UploadCreateDate = [8]byte{0x07, 0xcc, 0, 0, 0x00, 0x10, 0x00, 0x02}
	UploadModifyDate = [8]byte{0x07, 0xe8, 0, 0, 0x01, 0x00, 0x03, 0x04}
)

func UploadStream(name []byte, comment []byte, data, rsrc []byte, forks int) []byte {
	info := hlref.InfoFork{Platform: [4]byte{'A', 'M', 'A', 'C'}, Type: [4]byte{'T', 'E', 'X', 'T'}, Creator: [4]byte{'t', 't', 'x', 't'}, Name: name, Comment: comment,
		Create: UploadCreateDate, Modify: UploadModifyDate}
	out := hlref.FlatHeader(forks, info, len(data))
	out = append(out, data...)
	if forks == 3 {
		out = append(out, hlref.ForkHeader("MACR", len(rsrc))...)
		out = append(out, rsrc...)
	}
	return out
}

// UploadHeaderLen returns the number of stream bytes that precede the data fork content.
func UploadHeaderLen(name, comment []byte) int {
	return len(hlref.FlatHeader(2, hlref.InfoFork{Name: name, Comment: comment}, 0))
}

// Transfer opens a transfer connection, sends the preamble followed by payload (if any),
// optionally cut: only the first cut bytes of preamble+payload are written (cut < 0 = all)
// and the connection is then closed by the client.  It waits for the server's 3-second
// tail and returns everything the server sent.
func (w *World) Transfer(remote string, ref []byte, declared int, payload []byte, cut int) (rx []byte, c *Conn) {
	var r4 [4]byte
	copy(r4[:], ref)
	stream := append(hlref.Preamble(r4, declared), payload...)
	c = w.OpenTransfer(remote)
	if cut >= 0 && cut < len(stream) {
		if cut > 0 {
			c.Send(stream[:cut])
		}
		c.Close()
	} else {
		c.Send(stream)
	}
	settleFake(4 * time.Second)
	return c.Bytes(), c
}

func settleFake(d time.Duration) {
	time.Sleep(d)
	Quiesce()
}

// ---------------------------------------------------------------------------------------
// Folder download (client side)

type FolderItem struct {
	Path  []string // relative path items
	IsDir bool
	Data  []byte // bytes received for this item after the size prefix (header + content), nil if skipped / folder
	Size  int    // announced size prefix (-1 if none)
}

// FolderAction decides what the client answers for a file item: 1 send, 2 resume (offset),
// 3 skip.
type FolderAction func(path []string, isDir bool) (action int, offset int)

// FolderDownload runs the client side of a folder download on an opened transfer
// connection until the server stops sending item headers.  It returns the items in the
// order received and any protocol error it observed.
func (w *World) FolderDownload(remote string, ref []byte, act FolderAction, maxItems int) (items []FolderItem, leftover []byte, err error) {
	var r4 [4]byte
	copy(r4[:], ref)
	c := w.OpenTransfer(remote)
	defer c.Close()
	c.Send(hlref.Preamble(r4, 0))
	c.Send([]byte{0, 3}) // ready for the first item
	for n := 0; n < maxItems+2; n++ {
		hdr, ok := c.Take(2)
		if !ok {
			break
		}
		rest, ok := c.Take(hlref.U16(hdr))
		if !ok || len(rest) < 2 {
			return items, c.Rest(), fmt.Errorf("item %d: header announces %d bytes, fewer arrived", n, hlref.U16(hdr))
		}
		isDir := hlref.U16(rest[0:2]) == 1
		p, perr := hlref.DecodePath(rest[2:])
		if perr != nil {
			return items, c.Rest(), fmt.Errorf("item %d: %v", n, perr)
		}
		it := FolderItem{IsDir: isDir, Size: -1}
		for _, x := range p {
			it.Path = append(it.Path, string(x))
		}
		a, off := act(it.Path, isDir)
		switch {
		case a == 3 || isDir:
			c.Send([]byte{0, 3})
			items = append(items, it)
			continue
		case a == 2:
			rd := hlref.ResumeData(off)
			c.Send(append(append([]byte{0, 2}, hlref.BE16(len(rd))...), rd...))
		default:
			c.Send([]byte{0, 1})
		}
		sz, ok := c.Take(4)
		if !ok {
			items = append(items, it)
			return items, c.Rest(), fmt.Errorf("item %d (%v): no size prefix after requesting the file", n, it.Path)
		}
		it.Size = hlref.U32(sz)
		// everything that arrives before we acknowledge belongs to this item
		it.Data = c.Rest()
		items = append(items, it)
		c.Send([]byte{0, 3})
	}
	leftover = c.Rest()
	c.Close()
	settleFake(4 * time.Second)
	return items, leftover, nil
}

// ---------------------------------------------------------------------------------------
// Folder upload (client side)

type UploadItem struct {
	Path  [][]byte // path items relative to the uploaded folder (raw bytes, may be hostile)
	IsDir bool
	Data  []byte
	Rsrc  []byte // non-nil: the item is streamed with three forks (this one as the resource fork)
}

// FolderUploadItemHeader: data size (2) = 4 + len(path items bytes)... the client-side
// item header is: size(2) is-folder(2) path-item-count(2) items.
func FolderUploadItemHeader(it UploadItem) []byte {
	p := hlref.EncodePath(it.Path) // count(2) + items
	items := p[2:]
	t := 0
	if it.IsDir {
		t = 1
	}
	out := hlref.BE16(len(items) + 4)
	out = append(out, hlref.BE16(t)...)
	out = append(out, hlref.BE16(len(it.Path))...)
	return append(out, items...)
}

func forksOf(it UploadItem) int {
	if it.Rsrc != nil {
		return 3
	}
	return 2
}

type UploadTrace struct {
	Actions []string // per item: "next", "send", "resume:<offset>", or an error description
}

// FolderUpload runs the client side of a folder upload.
func (w *World) FolderUpload(remote string, ref []byte, items []UploadItem) (tr UploadTrace, err error) {
	return w.FolderUploadCut(remote, ref, items, -1)
}

// ErrCut is returned by FolderUploadCut when the byte budget was used up and the connection was closed.
var ErrCut = fmt.Errorf("connection cut by the harness")

// cutConn lets a reference client send at most budget bytes, then closes the connection.
type cutConn struct {
	*Conn
	budget int // < 0: unlimited
	cut    bool
}

func (c *cutConn) Send(b []byte) {
	if c.cut {
		return
	}
	if c.budget >= 0 && len(b) > c.budget {
		if c.budget > 0 {
			c.Conn.Send(b[:c.budget])
		}
		c.budget, c.cut = 0, true
		c.Conn.Close()
		Quiesce()
		return
	}
	if c.budget >= 0 {
		c.budget -= len(b)
	}
	c.Conn.Send(b)
}

// FolderUploadCut is FolderUpload with the connection dying after the client sent cut bytes (cut < 0: never).
func (w *World) FolderUploadCut(remote string, ref []byte, items []UploadItem, cut int) (tr UploadTrace, err error) {
	var r4 [4]byte
	copy(r4[:], ref)
	c := &cutConn{Conn: w.OpenTransfer(remote), budget: cut}
	defer func() {
		if c.cut {
			err = ErrCut
		}
	}()
	defer func() {
		c.Close()
		settleFake(4 * time.Second)
	}()
	c.Send(hlref.Preamble(r4, 0))
	a, ok := c.Take(2)
	if !ok || hlref.U16(a) != 3 {
		return tr, fmt.Errorf("server did not open the folder upload with a next-file action (got %x)", a)
	}
	for i, it := range items {
		c.Send(FolderUploadItemHeader(it))
		a, ok := c.Take(2)
		if !ok {
			tr.Actions = append(tr.Actions, "no-answer")
			return tr, fmt.Errorf("item %d: no answer to the item header", i)
		}
		name := []byte{}
		if len(it.Path) > 0 {
			name = it.Path[len(it.Path)-1]
		}
		switch hlref.U16(a) {
		case 3:
			tr.Actions = append(tr.Actions, "next")
		case 1:
			tr.Actions = append(tr.Actions, "send")
			s := UploadStream(name, nil, it.Data, it.Rsrc, forksOf(it))
			c.Send(append(hlref.BE32(len(s)), s...))
			if a, ok := c.Take(2); !ok || hlref.U16(a) != 3 {
				return tr, fmt.Errorf("item %d: no next-file action after the file data (got %x)", i, a)
			}
		case 2:
			l, ok := c.Take(2)
			if !ok {
				return tr, fmt.Errorf("item %d: resume without resume data", i)
			}
			rd, ok := c.Take(hlref.U16(l))
			if !ok {
				return tr, fmt.Errorf("item %d: short resume data", i)
			}
			forks, e := hlref.DecodeResume(rd)
			if e != nil || len(forks) == 0 {
				return tr, fmt.Errorf("item %d: bad resume data: %v", i, e)
			}
			off := int(forks[0].Offset)
			tr.Actions = append(tr.Actions, fmt.Sprintf("resume:%d", off))
			if off > len(it.Data) {
				off = len(it.Data)
			}
			s := UploadStream(name, nil, it.Data[off:], it.Rsrc, forksOf(it))
			c.Send(append(hlref.BE32(len(s)), s...))
			if a, ok := c.Take(2); !ok || hlref.U16(a) != 3 {
				return tr, fmt.Errorf("item %d: no next-file action after the resumed data (got %x)", i, a)
			}
		default:
			tr.Actions = append(tr.Actions, fmt.Sprintf("unknown:%x", a))
			return tr, fmt.Errorf("item %d: unknown action %x", i, a)
		}
	}
	return tr, nil
}

// ---------------------------------------------------------------------------------------
// File list helper

type ListedFile struct {
	Name    string
	Type    string
	Creator string
	Size    uint32
}

func (c *Conn) ListFiles(path []byte) ([]ListedFile, *hlref.Tran, error) {
	var fs []hlref.Field
	if path != nil {
		fs = append(fs, hlref.F(hlref.FFilePath, path))
	}
	r := c.Request(hlref.TranGetFileNameList, fs...)
	if r == nil {
		return nil, nil, fmt.Errorf("no reply to file list request")
	}
	if r.Err != 0 {
		return nil, r, fmt.Errorf("file list refused")
	}
	var out []ListedFile
	for _, d := range r.GetAll(hlref.FFileNameWithInfo) {
		f, err := hlref.DecodeFileNameWithInfo(d)
		if err != nil {
			return nil, r, err
		}
		out = append(out, ListedFile{Name: string(f.Name), Type: string(f.Type[:]), Creator: string(f.Creator[:]), Size: f.Size})
	}
	sort.Slice(out, func(i, j int) bool { return out[i].Name < out[j].Name })
	return out, r, nil
}

func JoinPath(items []string) string { return strings.Join(items, "/") }
