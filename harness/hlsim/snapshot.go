package hlsim

import (
	"crypto/sha256"
	"fmt"
	"io/fs"
	"os"
	"path/filepath"
	"sort"
	"strings"
)

// Entry describes one directory entry in a snapshot.
type Entry struct {
	Kind   string // "dir", "file", "link", "other"
	Size   int64
	Sum    string // sha256 of content (files)
	Target string // link target
}

type Snapshot map[string]Entry

// Snap walks root (not following symlinks) and records every entry, including root itself
// under ".".
func Snap(root string) Snapshot {
	s := Snapshot{}
	_ = filepath.Walk(root, func(p string, info fs.FileInfo, err error) error {
		rel, _ := filepath.Rel(root, p)
		if err != nil {
			s[rel] = Entry{Kind: "error:" + err.Error()}
			return nil
		}
		switch {
		case info.Mode()&os.ModeSymlink != 0:
			t, _ := os.Readlink(p)
			s[rel] = Entry{Kind: "link", Target: t}
		case info.IsDir():
			s[rel] = Entry{Kind: "dir"}
		case info.Mode().IsRegular():
			b, _ := os.ReadFile(p)
			s[rel] = Entry{Kind: "file", Size: info.Size(), Sum: fmt.Sprintf("%x", sha256.Sum256(b))}
		default:
			s[rel] = Entry{Kind: "other"}
		}
		return nil
	})
	return s
}

// Without returns a copy of s without the subtree at rel (rel itself included unless
// keepRoot).
func (s Snapshot) Without(rel string, keepRoot bool) Snapshot {
	o := Snapshot{}
	for k, v := range s {
		if k == rel {
			if keepRoot {
				o[k] = v
			}
			continue
		}
		if strings.HasPrefix(k, rel+string(filepath.Separator)) {
			continue
		}
		o[k] = v
	}
	return o
}

// Diff lists differences between two snapshots (empty = identical).
func (s Snapshot) Diff(o Snapshot) []string {
	var d []string
	for k, v := range s {
		w, ok := o[k]
		if !ok {
			d = append(d, "removed: "+k)
		} else if v != w {
			d = append(d, fmt.Sprintf("changed: %s (%v -> %v)", k, v, w))
		}
	}
	for k, w := range o {
		if _, ok := s[k]; !ok {
			d = append(d, fmt.Sprintf("created: %s (%v)", k, w))
		}
	}
	sort.Strings(d)
	return d
}
