// Package hlsim builds a complete mobius server (production handlers, production
// file-backed stores) inside a temp directory and drives it with simulated clients over
// net.Pipe.  It is meant to run inside a testing/synctest bubble: every stimulus is
// followed by Quiesce(), all assertions are made at quiescence.
package hlsim

import (
	"context"
	"fmt"
	"io"
	"log/slog"
	"os"
	"path/filepath"
	"strings"
	"sync"
	"sync/atomic"
	"time"

	"github.com/jhalter/mobius/hotline"
	"github.com/jhalter/mobius/verifhooks"
	"golang.org/x/crypto/bcrypt"
	"gopkg.in/yaml.v3"

	"verif/harness/hlref"
)

type AccountSpec struct {
	Login, Name, Password string
	Access                hlref.Access
	FileRoot              string
	RawPassword           *string // when set, written verbatim as the stored Password field (e.g. not a bcrypt hash)
}

type Options struct {
	Accounts              []AccountSpec
	Agreement             string
	Board                 string
	NewsYAML              string // initial ThreadedNews.yaml ("" = empty tree)
	BanYAML               string // initial Banlist.yaml ("" = no file)
	SparseAccountFiles    bool   // account files list only the privileges that are granted (hand-written files)
	ServerName            string
	PreserveResourceForks bool
	IgnoreFiles           []string
	NoDefaultIgnore       bool
	BannerFile            string
	NewsDateFormat        string // config.yaml NewsDateFormat ("" = default)
	NewsDelimiter         string // config.yaml NewsDelimiter: the post template ("" = default)
	ProductionPump        bool   // use the production processOutbox (never terminates: only outside bubbles)
	Keepalive             bool   // run the production idle/keep-alive handler (10 s ticker) for the life of the world
	RootSpelling          int    // how the operator spelled the file root in the configuration (SpellRoot); 0 = canonical
}

type World struct {
	Sandbox   string // S
	Cfg       string // S/cfg
	FileRoot  string // S/cfg/Files
	UsersDir  string
	Srv       *hotline.Server
	Log       *LogSink
	Accounts  *verifhooks.YAMLAccountManager
	Board     *verifhooks.FlatNews
	News      *verifhooks.ThreadedNewsYAML
	Bans      *verifhooks.BanFile
	Agreement *verifhooks.Agreement

	ctx      context.Context
	cancel   context.CancelFunc
	kaDone   chan struct{}
	pumpStop chan struct{}
	pumpDone chan struct{}
	sendWG   sync.WaitGroup

	// FieldOrder, when non-zero, makes Conn.Request send the fields of every request in an order derived from this
	// value and the request id (clients are free to order the fields of a request as they like); fields with the same
	// id keep their relative order (the entries of a batch are a sequence).
	FieldOrder uint64
	// NewSplit, when set, gives every new connection its Splitter ("ctl" / "xfer").
	NewSplit func(kind string) Splitter
	// XferSegGap, when set, is the (fake) time a transfer connection's writer lets pass between two segments.
	XferSegGap time.Duration

	mu      sync.Mutex
	conns   []*Conn
	srvWG   sync.WaitGroup
	stopped bool
	opt     Options
}

// LogSink is a slog.Handler that counts records; recovered panics are logged by mobius
// with the message "PANIC".
type LogSink struct {
	Panics  atomic.Int64
	Errors  atomic.Int64
	Records atomic.Int64
	mu      sync.Mutex
	last    []string
	Keep    bool
}

func (l *LogSink) Enabled(context.Context, slog.Level) bool { return true }
func (l *LogSink) Handle(_ context.Context, r slog.Record) error {
	l.Records.Add(1)
	if r.Message == "PANIC" {
		l.Panics.Add(1)
	}
	if r.Level >= slog.LevelError {
		l.Errors.Add(1)
	}
	if l.Keep {
		var sb strings.Builder
		sb.WriteString(r.Message)
		r.Attrs(func(a slog.Attr) bool {
			if a.Key != "trace" {
				fmt.Fprintf(&sb, " %s=%v", a.Key, a.Value)
			}
			return true
		})
		l.mu.Lock()
		if len(l.last) < 200 {
			l.last = append(l.last, sb.String())
		}
		l.mu.Unlock()
	}
	return nil
}
func (l *LogSink) WithAttrs([]slog.Attr) slog.Handler { return l }
func (l *LogSink) WithGroup(string) slog.Handler      { return l }
func (l *LogSink) Lines() []string {
	l.mu.Lock()
	defer l.mu.Unlock()
	return append([]string{}, l.last...)
}

var (
	hashMu    sync.Mutex
	hashCache = map[string]string{}
)

// HashPassword returns a bcrypt hash of the *obfuscated* password bytes, which is what
// mobius stores (the hash is taken over the bytes as they arrive on the wire).
func HashPassword(clear string) string {
	hashMu.Lock()
	defer hashMu.Unlock()
	if h, ok := hashCache[clear]; ok {
		return h
	}
	h, err := bcrypt.GenerateFromPassword(hlref.Obfuscate([]byte(clear)), bcrypt.MinCost)
	if err != nil {
		panic(err)
	}
	hashCache[clear] = string(h)
	return string(h)
}

type accountFile struct {
	Login    string          `yaml:"Login"`
	Name     string          `yaml:"Name"`
	Password string          `yaml:"Password"`
	Access   map[string]bool `yaml:"Access"`
	FileRoot string          `yaml:"FileRoot"`
}

// AccountYAML renders an account file in the named-flag format using the reference
// privilege names.
func AccountYAML(a AccountSpec) []byte { return accountYAML(a, false) }

// accountYAML: with sparse set the file is one an operator wrote or trimmed by hand - privileges that are not granted
// are simply not listed (DownloadFile always is: the server tells the named form from the older numeric one by it).
func accountYAML(a AccountSpec, sparse bool) []byte {
	af := accountFile{Login: a.Login, Name: a.Name, Password: HashPassword(a.Password), Access: map[string]bool{}, FileRoot: a.FileRoot}
	if a.RawPassword != nil {
		af.Password = *a.RawPassword
	}
	for i, n := range hlref.PrivilegeNames {
		if sparse && !a.Access.Has(i) && n != "DownloadFile" {
			continue
		}
		af.Access[n] = a.Access.Has(i)
	}
	b, err := yaml.Marshal(af)
	if err != nil {
		panic(err)
	}
	return b
}

var worldSeq atomic.Int64

// New writes the fixture directory and builds the server.  base must be a directory the
// caller owns (it is not removed here; Remove() deletes the sandbox).
func New(base string, opt Options) (*World, error) {
	w := &World{opt: opt}
	w.Sandbox = filepath.Join(base, fmt.Sprintf("w%d", worldSeq.Add(1)))
	w.Cfg = filepath.Join(w.Sandbox, "cfg")
	w.FileRoot = filepath.Join(w.Cfg, "Files")
	w.UsersDir = filepath.Join(w.Cfg, "Users")
	for _, d := range []string{w.FileRoot, w.UsersDir} {
		if err := os.MkdirAll(d, 0o755); err != nil {
			return nil, err
		}
	}
	for _, a := range opt.Accounts {
		if err := os.WriteFile(filepath.Join(w.UsersDir, a.Login+".yaml"), accountYAML(a, opt.SparseAccountFiles), 0o644); err != nil {
			return nil, err
		}
	}
	news := opt.NewsYAML
	if news == "" {
		news = "Categories: {}\n"
	}
	files := map[string]string{"MessageBoard.txt": opt.Board, "Agreement.txt": opt.Agreement, "ThreadedNews.yaml": news}
	if opt.BanYAML != "" {
		files["Banlist.yaml"] = opt.BanYAML
	}
	for n, c := range files {
		if err := os.WriteFile(filepath.Join(w.Cfg, n), []byte(c), 0o644); err != nil {
			return nil, err
		}
	}
	if err := w.build(); err != nil {
		return nil, err
	}
	return w, nil
}

// SpellRoot returns another spelling of the same directory, as an operator may write it into config.yaml or an
// account file: 1 trailing slash, 2 "/./" before the last element, 3 doubled slash, 4 a detour through "..".
func SpellRoot(root string, n int) string {
	dir, base := filepath.Dir(root), filepath.Base(root)
	switch n {
	case 1:
		return root + "/"
	case 2:
		return dir + "/./" + base
	case 3:
		return dir + "//" + base
	case 4:
		return dir + "/" + base + "/../" + base
	case 5:
		// the configured root is a symbolic link to the real folder (the operator keeps the files on another volume)
		link := filepath.Join(dir, base+" (link)")
		if _, err := os.Lstat(link); err != nil {
			if err := os.Symlink(root, link); err != nil {
				return root
			}
		}
		return link
	}
	return root
}

// RootSpelling is the spelling variant this world's configuration uses for file roots.
func (w *World) RootSpelling() int { return w.opt.RootSpelling }

func (w *World) build() error {
	w.Log = &LogSink{}
	ignore := w.opt.IgnoreFiles
	if !w.opt.NoDefaultIgnore && ignore == nil {
		ignore = []string{`^\.`, `^@`} // the defaults shipped in mobius's config.yaml
	}
	name := w.opt.ServerName
	if name == "" {
		name = "verif"
	}
	srv, err := hotline.NewServer(
		hotline.WithLogger(slog.New(w.Log)),
		hotline.WithConfig(hotline.Config{Name: name, Description: "d", FileRoot: SpellRoot(w.FileRoot, w.opt.RootSpelling),
			PreserveResourceForks: w.opt.PreserveResourceForks, IgnoreFiles: ignore, BannerFile: w.opt.BannerFile,
			NewsDateFormat: w.opt.NewsDateFormat, NewsDelimiter: w.opt.NewsDelimiter}),
	)
	if err != nil {
		return err
	}
	w.Srv = srv
	if w.opt.BannerFile != "" {
		srv.Banner = []byte("\xff\xd8\xff banner bytes")
		if err := os.WriteFile(filepath.Join(w.Cfg, w.opt.BannerFile), srv.Banner, 0o644); err != nil {
			return err
		}
	}
	if w.Accounts, err = verifhooks.NewYAMLAccountManager(w.UsersDir); err != nil {
		return fmt.Errorf("accounts: %w", err)
	}
	srv.AccountManager = w.Accounts
	if w.Board, err = verifhooks.NewFlatNews(filepath.Join(w.Cfg, "MessageBoard.txt")); err != nil {
		return fmt.Errorf("board: %w", err)
	}
	srv.MessageBoard = w.Board
	ag, err := verifhooks.NewAgreement(w.Cfg, "\r")
	if err != nil {
		return fmt.Errorf("agreement: %w", err)
	}
	srv.Agreement = ag
	w.Agreement = ag
	if w.News, err = verifhooks.NewThreadedNewsYAML(filepath.Join(w.Cfg, "ThreadedNews.yaml")); err != nil {
		return fmt.Errorf("news: %w", err)
	}
	srv.ThreadedNewsMgr = w.News
	if w.Bans, err = verifhooks.NewBanFile(filepath.Join(w.Cfg, "Banlist.yaml")); err != nil {
		return fmt.Errorf("bans: %w", err)
	}
	srv.BanList = w.Bans
	verifhooks.RegisterHandlers(srv)
	return nil
}

// Start launches the outbox pump.  Inside a bubble this is a stoppable replica of
// processOutbox that calls the production sendTransaction for every transaction.
func (w *World) Start() {
	w.ctx, w.cancel = context.WithCancel(context.Background())
	if w.opt.Keepalive {
		w.kaDone = make(chan struct{})
		go func() {
			defer close(w.kaDone)
			w.Srv.VerifKeepaliveHandler(w.ctx)
		}()
	}
	if w.opt.ProductionPump {
		go w.Srv.VerifProcessOutbox()
		return
	}
	w.pumpStop = make(chan struct{})
	w.pumpDone = make(chan struct{})
	go func() {
		defer close(w.pumpDone)
		for {
			select {
			case t := <-w.Srv.VerifOutbox():
				// the body of the production loop (processOutbox never terminates, so the loop itself is ours)
				done := w.Srv.VerifDispatch(t)
				w.sendWG.Add(1)
				go func() {
					defer w.sendWG.Done()
					<-done
				}()
			case <-w.pumpStop:
				return
			}
		}
	}()
}

// Restart simulates a server restart: all connections are closed, then every store and
// the server are rebuilt from the files on disk.
func (w *World) Restart() error {
	w.closeAll()
	w.stopPump()
	if err := w.build(); err != nil {
		return err
	}
	w.Start()
	return nil
}

func (w *World) closeAll() {
	w.mu.Lock()
	conns := w.conns
	w.conns = nil
	w.mu.Unlock()
	for _, c := range conns {
		c.Close()
	}
	for _, c := range conns {
		<-c.readerDone
		<-c.writerDone
	}
	Quiesce()
	// let delayed goroutines (1 s ban message, 1-3 s delayed disconnects, 3 s transfer tail) finish
	if !w.opt.ProductionPump {
		time.Sleep(5 * time.Second)
	}
	Quiesce()
	w.srvWG.Wait()
}

func (w *World) stopPump() {
	if w.pumpStop != nil {
		close(w.pumpStop)
		<-w.pumpDone
		w.sendWG.Wait()
		w.pumpStop = nil
	}
	if w.cancel != nil {
		w.cancel()
	}
	if w.kaDone != nil {
		<-w.kaDone
		w.kaDone = nil
	}
	Quiesce()
}

// Stop tears the world down in the order a bubble needs: close clients, join readers,
// wait, let timers fire, stop pump.
func (w *World) Stop() {
	if w.stopped {
		return
	}
	w.stopped = true
	w.closeAll()
	w.stopPump()
}

func (w *World) Remove() { _ = os.RemoveAll(w.Sandbox) }

// Connect opens a control connection from the given remote address ("ip:port").
func (w *World) Connect(remote string, opts ...func(*Conn)) *Conn {
	c := newConnOpts(w, remote, opts)
	if w.NewSplit != nil {
		c.Split = w.NewSplit("ctl")
	}
	w.srvWG.Add(1)
	go func() {
		defer w.srvWG.Done()
		c.srvErr = w.Srv.VerifHandleNewConnection(w.ctx, c.srvSide(), remote)
		_ = c.server.Close()
		close(c.srvDone)
	}()
	return c
}

// OpenTransfer opens a transfer-port connection.
func (w *World) OpenTransfer(remote string) *Conn {
	c := newConn(w, remote)
	c.SegGap = w.XferSegGap
	if w.NewSplit != nil {
		c.Split = w.NewSplit("xfer")
	}
	w.srvWG.Add(1)
	go func() {
		defer w.srvWG.Done()
		c.srvErr = w.Srv.VerifHandleFileTransfer(w.ctx, remote, c.srvSide())
		_ = c.server.Close() // what ServeFileTransfers' deferred conn.Close() does
		close(c.srvDone)
	}()
	return c
}

var _ = io.Discard

func (w *World) orderFields(fs []hlref.Field, reqID uint32) []hlref.Field {
	if w == nil || w.FieldOrder == 0 || len(fs) < 2 {
		return fs
	}
	// splitmix64 over (FieldOrder, request id): a pure function, so a replay sends the same bytes
	x := w.FieldOrder*0x9e3779b97f4a7c15 + uint64(reqID)
	next := func() uint64 {
		x += 0x9e3779b97f4a7c15
		z := x
		z = (z ^ (z >> 30)) * 0xbf58476d1ce4e5b9
		z = (z ^ (z >> 27)) * 0x94d049bb133111eb
		return z ^ (z >> 31)
	}
	perm := make([]int, len(fs))
	for i := range perm {
		perm[i] = i
	}
	for i := len(perm) - 1; i > 0; i-- {
		j := int(next() % uint64(i+1))
		perm[i], perm[j] = perm[j], perm[i]
	}
	out := make([]hlref.Field, len(fs))
	for pos, src := range perm {
		out[pos] = fs[src]
	}
	// fields that share an id go back into their original relative order
	byID := map[int][]hlref.Field{}
	for _, f := range fs {
		byID[f.ID] = append(byID[f.ID], f)
	}
	for i, f := range out {
		out[i] = byID[f.ID][0]
		byID[f.ID] = byID[f.ID][1:]
	}
	return out
}
