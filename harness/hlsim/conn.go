package hlsim

import (
	"io"
	"net"
	"sync"
	"sync/atomic"
	"time"

	"verif/harness/hlref"
)

// Conn is the harness side of one simulated TCP connection.  A dedicated reader
// goroutine drains everything the server writes into an unbounded buffer (net.Pipe has no
// buffer of its own); writes are issued from a separate goroutine and followed by
// Quiesce(), so protocol logic only looks at the buffer at quiescence.
type Conn struct {
	w          *World
	Remote     string
	client     net.Conn
	server     net.Conn
	Wrap       func(io.ReadWriteCloser) io.ReadWriteCloser // optional wrapper of the server side
	mu         sync.Mutex
	rx         []byte
	eof        bool
	taken      int
	readerDone chan struct{}
	stopSleep  chan struct{} // closed by Close: ends a slow reader's pause
	srvDone    chan struct{}
	srvErr     error
	wq         chan []byte // write queue: one writer goroutine issues the Write calls in order
	writerDone chan struct{}
	closed     bool
	ReadHook   func(n int)   // called by the reader goroutine after each read
	readChunk  atomic.Int64  // size of the reader's buffer (0 = 64 KiB); small values make a slow consumer
	readDelay  atomic.Int64  // nanoseconds to sleep after each read (fake time inside a bubble)
	Split      Splitter      // optional: how Send / SendParts cut their bytes into separate Write calls
	SegGap     time.Duration // optional: (fake) time that passes between two segments of SendSegments - a slow writer

	// protocol state (control connections)
	nextID uint32
	Inbox  []hlref.Tran // server-initiated transactions and unmatched replies, in arrival order
	Bad    error        // first framing error seen while parsing the stream
}

func newConn(w *World, remote string) *Conn { return newConnOpts(w, remote, nil) }

func newConnOpts(w *World, remote string, opts []func(*Conn)) *Conn {
	c1, c2 := net.Pipe()
	c := &Conn{w: w, Remote: remote, client: c1, server: c2, readerDone: make(chan struct{}), stopSleep: make(chan struct{}), srvDone: make(chan struct{}), nextID: 1,
		wq: make(chan []byte, 1<<14), writerDone: make(chan struct{})}
	for _, o := range opts {
		o(c)
	}
	w.mu.Lock()
	w.conns = append(w.conns, c)
	w.mu.Unlock()
	go c.reader()
	go c.writer()
	return c
}

// writer issues the queued Write calls one after another.  (Two goroutines writing to one
// net.Pipe end would contend on a mutex, and a goroutine blocked on a mutex is not durably
// blocked for synctest - the bubble could never go idle.)
func (c *Conn) writer() {
	defer close(c.writerDone)
	failed := false
	for b := range c.wq {
		if failed {
			continue
		}
		if _, err := c.client.Write(b); err != nil {
			failed = true
		}
	}
}

func (c *Conn) srvSide() io.ReadWriteCloser {
	if c.Wrap != nil {
		return c.Wrap(c.server)
	}
	return c.server
}

func (c *Conn) reader() {
	defer close(c.readerDone)
	buf := make([]byte, 1<<16)
	for {
		sz := int(c.readChunk.Load())
		if sz <= 0 || sz > len(buf) {
			sz = len(buf)
		}
		n, err := c.client.Read(buf[:sz])
		c.mu.Lock()
		c.rx = append(c.rx, buf[:n]...)
		if err != nil {
			c.eof = true
		}
		c.mu.Unlock()
		if c.ReadHook != nil && n > 0 {
			c.ReadHook(n)
		}
		if d := c.readDelay.Load(); d > 0 && err == nil {
			// (a select, not a sleep: Close ends the pause, and a goroutine waiting here counts as parked for the live engine)
			tm := time.NewTimer(time.Duration(d))
			select {
			case <-tm.C:
			case <-c.stopSleep:
				tm.Stop()
			}
		}
		if err != nil {
			return
		}
	}
}

// Splitter decides the segmentation of outgoing bytes: Cuts returns cut offsets inside one
// message, Boundary whether two adjacent messages of one SendParts call are separated.
type Splitter interface {
	Cuts(b []byte) []int
	Boundary() bool
}

// SetSlow turns the connection's reader into a slow consumer: at most chunk bytes per read,
// then a pause.  While it is slow, quiescence (synctest.Wait) can be reached with data
// still in flight, so callers let fake time pass before inspecting the buffer.
func (c *Conn) SetSlow(chunk int, delay time.Duration) {
	c.readChunk.Store(int64(chunk))
	c.readDelay.Store(int64(delay))
}

// Send writes b and waits for quiescence: with a single Write call (one "segment"), or cut
// into several Write calls when a Splitter is installed.
func (c *Conn) Send(b []byte) {
	if c.Split != nil {
		c.SendSegments(b, c.Split.Cuts(b))
		return
	}
	c.SendAsync(b)
	Quiesce()
}

// SendParts sends several messages back to back.  Without a Splitter each message is one
// Write followed by a wait (the baseline segmentation); with one, the messages are
// concatenated and cut as the Splitter says (possibly coalescing messages into one Write).
func (c *Conn) SendParts(parts [][]byte) {
	if c.Split == nil {
		for _, p := range parts {
			c.SendAsync(p)
			Quiesce()
		}
		return
	}
	var whole []byte
	var cuts []int
	for i, p := range parts {
		if i > 0 && c.Split.Boundary() {
			cuts = append(cuts, len(whole))
		}
		for _, k := range c.Split.Cuts(p) {
			if k > 0 && k < len(p) {
				cuts = append(cuts, len(whole)+k)
			}
		}
		whole = append(whole, p...)
	}
	c.SendSegments(whole, cuts)
}

// SendAsync issues the write without waiting.
func (c *Conn) SendAsync(b []byte) {
	c.mu.Lock()
	defer c.mu.Unlock()
	if c.closed {
		return
	}
	c.wq <- append([]byte{}, b...)
}

// SendSegments writes b cut at the given offsets, one Write call per piece, in order.
// On a pipe one server-side Read never spans two Write calls, so this is exactly the
// segmentation the server observes.
func (c *Conn) SendSegments(b []byte, cuts []int) {
	prev := 0
	for _, k := range cuts {
		if k <= prev || k >= len(b) {
			continue
		}
		c.SendAsync(b[prev:k])
		prev = k
		if c.SegGap > 0 {
			Quiesce()
			time.Sleep(c.SegGap)
		}
	}
	c.SendAsync(b[prev:])
	Quiesce()
}

// Close closes the client end (the server sees EOF / closed pipe).
func (c *Conn) Close() {
	c.mu.Lock()
	if c.closed {
		c.mu.Unlock()
		return
	}
	c.closed = true
	close(c.wq)
	close(c.stopSleep)
	c.mu.Unlock()
	_ = c.client.Close()
}

// Bytes returns everything received so far (at quiescence).
func (c *Conn) Bytes() []byte {
	Quiesce()
	c.mu.Lock()
	defer c.mu.Unlock()
	return append([]byte{}, c.rx...)
}

// EOF reports whether the server closed the connection.
func (c *Conn) EOF() bool {
	Quiesce()
	c.mu.Lock()
	defer c.mu.Unlock()
	return c.eof
}

// Take consumes exactly n not-yet-taken bytes if they are available at quiescence.
func (c *Conn) Take(n int) ([]byte, bool) {
	Quiesce()
	c.mu.Lock()
	defer c.mu.Unlock()
	if len(c.rx)-c.taken < n {
		return nil, false
	}
	out := append([]byte{}, c.rx[c.taken:c.taken+n]...)
	c.taken += n
	return out, true
}

// Rest consumes all not-yet-taken bytes.
func (c *Conn) Rest() []byte {
	Quiesce()
	c.mu.Lock()
	defer c.mu.Unlock()
	out := append([]byte{}, c.rx[c.taken:]...)
	c.taken = len(c.rx)
	return out
}

// Pending returns the number of not-yet-taken bytes.
func (c *Conn) Pending() int {
	Quiesce()
	c.mu.Lock()
	defer c.mu.Unlock()
	return len(c.rx) - c.taken
}

// ServerDone reports whether the server-side handler for this connection has returned.
func (c *Conn) ServerDone() (bool, error) {
	Quiesce()
	select {
	case <-c.srvDone:
		return true, c.srvErr
	default:
		return false, nil
	}
}

// ---------------------------------------------------------------------------------------
// control-connection protocol helpers (reference client)

// Handshake sends the 12-byte client handshake and consumes the 8-byte reply.
func (c *Conn) Handshake() bool {
	c.Send(hlref.Handshake(1, 2))
	r, ok := c.Take(8)
	if !ok {
		return false
	}
	return string(r[0:4]) == "TRTP" && hlref.U32(r[4:8]) == 0
}

// pump parses newly received bytes into transactions.
func (c *Conn) pump() []hlref.Tran {
	Quiesce()
	c.mu.Lock()
	defer c.mu.Unlock()
	ts, rest, err := hlref.DecodeStream(c.rx[c.taken:])
	if err != nil && c.Bad == nil {
		c.Bad = err
	}
	c.taken = len(c.rx) - len(rest)
	return ts
}

// Tail returns a copy of the last n bytes received so far (for a ReadHook that wants to look at what just arrived).
func (c *Conn) Tail(n int) []byte {
	c.mu.Lock()
	defer c.mu.Unlock()
	if n > len(c.rx) {
		n = len(c.rx)
	}
	return append([]byte{}, c.rx[len(c.rx)-n:]...)
}

// Poll moves newly arrived transactions into the inbox and returns them.
func (c *Conn) Poll() []hlref.Tran {
	ts := c.pump()
	c.Inbox = append(c.Inbox, ts...)
	return ts
}

// Partial returns the number of received bytes that do not yet form a whole transaction.
func (c *Conn) Partial() int {
	Quiesce()
	c.mu.Lock()
	defer c.mu.Unlock()
	return len(c.rx) - c.taken
}

// NewID allocates a request id.
func (c *Conn) NewID() uint32 { id := c.nextID; c.nextID++; return id }

// Request sends one request and returns its reply (nil if none arrived by quiescence).
// Everything else that arrived is appended to the inbox.
func (c *Conn) Request(typ int, fields ...hlref.Field) *hlref.Tran {
	id := c.NewID()
	c.Send(hlref.Tran{Type: typ, ID: id, Fields: c.w.orderFields(fields, id)}.Encode())
	var reply *hlref.Tran
	for _, t := range c.pump() {
		if t.IsReply == 1 && t.ID == id && reply == nil {
			tt := t
			reply = &tt
			continue
		}
		c.Inbox = append(c.Inbox, t)
	}
	return reply
}

// TakeInbox returns and clears the inbox (after polling).
func (c *Conn) TakeInbox() []hlref.Tran {
	c.Poll()
	out := c.Inbox
	c.Inbox = nil
	return out
}

// LoginOpts describes a login transaction.
type LoginOpts struct {
	Login, Password string
	Name            []byte // non-nil: 1.2.3 flow (name and icon in the login transaction)
	Icon            int
	Version         []byte // non-nil: 1.5+ flow
	Extra           []hlref.Field
	Icon4           bool // send the icon as a 4-byte field (some third-party clients do)
}

func (o LoginOpts) Fields() []hlref.Field {
	fs := []hlref.Field{hlref.F(hlref.FUserLogin, hlref.Obfuscate([]byte(o.Login))), hlref.F(hlref.FUserPassword, hlref.Obfuscate([]byte(o.Password)))}
	if o.Name != nil {
		icon := hlref.BE16(o.Icon)
		if o.Icon4 {
			icon = hlref.BE32(o.Icon)
		}
		fs = append(fs, hlref.F(hlref.FUserName, o.Name), hlref.F(hlref.FUserIconID, icon))
	}
	if o.Version != nil {
		fs = append(fs, hlref.F(hlref.FVersion, o.Version))
	}
	return append(fs, o.Extra...)
}

// Login performs handshake + login; returns the login reply (nil = not logged in).
func (c *Conn) Login(o LoginOpts) *hlref.Tran {
	if !c.Handshake() {
		return nil
	}
	r := c.Request(hlref.TranLogin, o.Fields()...)
	if r == nil || r.Err != 0 {
		return nil
	}
	return r
}

// Agreed sends transaction 121 (1.5+ flow).
func (c *Conn) Agreed(name []byte, icon int, options int, autoReply []byte) *hlref.Tran {
	return c.AgreedWide(name, icon, options, autoReply, false)
}

// AgreedWide is Agreed with the icon sent as a 4-byte field when wide is set.
func (c *Conn) AgreedWide(name []byte, icon int, options int, autoReply []byte, wide bool) *hlref.Tran {
	ic := hlref.BE16(icon)
	if wide {
		ic = hlref.BE32(icon)
	}
	fs := []hlref.Field{hlref.F(hlref.FUserName, name), hlref.F(hlref.FUserIconID, ic), hlref.F(hlref.FOptions, hlref.BE16(options))}
	if autoReply != nil {
		fs = append(fs, hlref.F(hlref.FAutomaticResponse, autoReply))
	}
	return c.Request(hlref.TranAgreed, fs...)
}

// UserList fetches and decodes the user list.
func (c *Conn) UserList() ([]hlref.User, error) {
	r := c.Request(hlref.TranGetUserNameList)
	if r == nil {
		return nil, io.ErrUnexpectedEOF
	}
	var us []hlref.User
	for _, d := range r.GetAll(hlref.FUsernameWithInfo) {
		u, err := hlref.DecodeUser(d)
		if err != nil {
			return nil, err
		}
		us = append(us, u)
	}
	return us, nil
}

// PeekTrans parses the not-yet-taken bytes into transactions without waiting for
// quiescence and without consuming them (live tests: observe the instant a reply arrives).
func (c *Conn) PeekTrans() []hlref.Tran {
	c.mu.Lock()
	defer c.mu.Unlock()
	ts, _, _ := hlref.DecodeStream(c.rx[c.taken:])
	return ts
}
