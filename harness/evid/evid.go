// Package evid collects per-run coverage evidence (case counts, distinct non-trivial
// case hashes, label histogram, samples, known findings) and writes it as JSON for the
// driver to merge.
package evid

import (
	"encoding/json"
	"fmt"
	"hash/fnv"
	"os"
	"path/filepath"
	"sort"
	"strings"
	"sync"
)

type Rec struct {
	mu       sync.Mutex
	Prop     string            `json:"prop"`
	Test     string            `json:"test"`
	Evals    int               `json:"evaluations"`
	NT       map[string]bool   `json:"-"`
	NTList   []string          `json:"nontrivial_hashes"`
	Labels   map[string]int    `json:"labels"`
	Samples  []any             `json:"samples"`
	Known    map[string]string `json:"known"`    // signature -> what
	Excluded map[string]int    `json:"excluded"` // class -> count of cases excluded by construction
	Extra    map[string]any    `json:"extra"`
	maxSamp  int
}

// LastProp is the property id of the most recently created recorder (tests run one after another in a process).
var LastProp, LastTest string

func New(prop, test string) *Rec {
	LastProp, LastTest = prop, test
	return &Rec{Prop: prop, Test: test, NT: map[string]bool{}, Labels: map[string]int{},
		Known: map[string]string{}, Excluded: map[string]int{}, Extra: map[string]any{}, maxSamp: 4}
}

// Hash returns a short stable hash of the given parts.
func Hash(parts ...any) string {
	h := fnv.New64a()
	for _, p := range parts {
		switch v := p.(type) {
		case []byte:
			h.Write(v)
		case string:
			h.Write([]byte(v))
		default:
			fmt.Fprintf(h, "%v", v)
		}
		h.Write([]byte{0xff, 0})
	}
	return fmt.Sprintf("%016x", h.Sum64())
}

// Case records one completed (not discarded, not failed) property evaluation.
func (r *Rec) Case(hash string, nontrivial bool, labels ...string) {
	r.mu.Lock()
	defer r.mu.Unlock()
	r.Evals++
	if nontrivial {
		r.NT[hash] = true
	}
	for _, l := range labels {
		if l != "" {
			r.Labels[l]++
		}
	}
}

func (r *Rec) Label(l string, n int) {
	r.mu.Lock()
	defer r.mu.Unlock()
	r.Labels[l] += n
}

func (r *Rec) Sample(v any) {
	r.mu.Lock()
	defer r.mu.Unlock()
	if len(r.Samples) < r.maxSamp {
		r.Samples = append(r.Samples, v)
	}
}

func (r *Rec) WantSample() bool {
	r.mu.Lock()
	defer r.mu.Unlock()
	return len(r.Samples) < r.maxSamp
}

func (r *Rec) Exclude(class string) {
	r.mu.Lock()
	defer r.mu.Unlock()
	r.Excluded[class]++
}

func (r *Rec) SetExtra(k string, v any) {
	r.mu.Lock()
	defer r.mu.Unlock()
	r.Extra[k] = v
}

// ---- known findings -------------------------------------------------------------------

var (
	kfOnce sync.Once
	kfMap  map[string]string
)

func loadKnown() {
	kfMap = map[string]string{}
	p := os.Getenv("VERIF_KNOWN")
	if p == "" {
		p = "/verif/known_findings.txt"
	}
	b, err := os.ReadFile(p)
	if err != nil {
		return
	}
	for _, line := range strings.Split(string(b), "\n") {
		line = strings.TrimSpace(line)
		// format: known: property=<ID> sig=<signature> <free text>
		if !strings.HasPrefix(line, "known:") {
			continue
		}
		var prop, sig string
		rest := strings.Fields(strings.TrimPrefix(line, "known:"))
		var text []string
		for _, f := range rest {
			switch {
			case strings.HasPrefix(f, "property=") && prop == "":
				prop = strings.TrimPrefix(f, "property=")
			case strings.HasPrefix(f, "sig=") && sig == "":
				sig = strings.TrimPrefix(f, "sig=")
			default:
				text = append(text, f)
			}
		}
		if prop != "" && sig != "" {
			kfMap[prop+"|"+sig] = strings.Join(text, " ")
		}
	}
}

// IsKnown reports whether (prop, sig) is listed as a known finding; if so the
// occurrence is recorded so the driver prints a KNOWN-FINDING line.
func (r *Rec) IsKnown(sig string) bool {
	kfOnce.Do(loadKnown)
	what, ok := kfMap[r.Prop+"|"+sig]
	if ok {
		r.mu.Lock()
		r.Known[sig] = what
		r.mu.Unlock()
	}
	return ok
}

// Listed reports whether sig is listed without recording an occurrence.
func (r *Rec) Listed(sig string) bool {
	kfOnce.Do(loadKnown)
	_, ok := kfMap[r.Prop+"|"+sig]
	return ok
}

// Flush writes the record to $VERIF_EVID_DIR/<prop>-<test>-<shard>.json (no-op if unset).
func (r *Rec) Flush() {
	dir := os.Getenv("VERIF_EVID_DIR")
	if dir == "" {
		return
	}
	r.mu.Lock()
	defer r.mu.Unlock()
	r.NTList = r.NTList[:0]
	for h := range r.NT {
		r.NTList = append(r.NTList, h)
	}
	sort.Strings(r.NTList)
	b, err := json.Marshal(r)
	if err != nil {
		fmt.Fprintln(os.Stderr, "evid: marshal:", err)
		return
	}
	shard := os.Getenv("VERIF_SHARD")
	_ = os.MkdirAll(dir, 0o755)
	name := filepath.Join(dir, fmt.Sprintf("%s-%s-%s.json", r.Prop, r.Test, shard))
	if err := os.WriteFile(name, b, 0o644); err != nil {
		fmt.Fprintln(os.Stderr, "evid: write:", err)
	}
}
