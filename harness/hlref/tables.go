package hlref

// Independent tables written from the Hotline 1.9 protocol document (access privileges
// list) - not copied from mobius.

// Privilege numbers (bit i counted from the most significant bit of the first byte).
const (
	PrivDeleteFile       = 0
	PrivUploadFile       = 1
	PrivDownloadFile     = 2
	PrivRenameFile       = 3
	PrivMoveFile         = 4
	PrivCreateFolder     = 5
	PrivDeleteFolder     = 6
	PrivRenameFolder     = 7
	PrivMoveFolder       = 8
	PrivReadChat         = 9
	PrivSendChat         = 10
	PrivOpenChat         = 11
	PrivCloseChat        = 12
	PrivShowInList       = 13
	PrivCreateUser       = 14
	PrivDeleteUser       = 15
	PrivOpenUser         = 16
	PrivModifyUser       = 17
	PrivChangeOwnPass    = 18
	PrivNewsReadArt      = 20
	PrivNewsPostArt      = 21
	PrivDisconUser       = 22
	PrivCannotBeDiscon   = 23
	PrivGetClientInfo    = 24
	PrivUploadAnywhere   = 25
	PrivAnyName          = 26
	PrivNoAgreement      = 27
	PrivSetFileComment   = 28
	PrivSetFolderComment = 29
	PrivViewDropBoxes    = 30
	PrivMakeAlias        = 31
	PrivBroadcast        = 32
	PrivNewsDeleteArt    = 33
	PrivNewsCreateCat    = 34
	PrivNewsDeleteCat    = 35
	PrivNewsCreateFldr   = 36
	PrivNewsDeleteFldr   = 37
	PrivUploadFolder     = 38
	PrivDownloadFolder   = 39
	PrivSendPrivMsg      = 40
)

// PrivilegeNames maps privilege number -> key used in the account file.
var PrivilegeNames = map[int]string{
	0: "DeleteFile", 1: "UploadFile", 2: "DownloadFile", 3: "RenameFile", 4: "MoveFile",
	5: "CreateFolder", 6: "DeleteFolder", 7: "RenameFolder", 8: "MoveFolder",
	9: "ReadChat", 10: "SendChat", 11: "OpenChat", 12: "CloseChat", 13: "ShowInList",
	14: "CreateUser", 15: "DeleteUser", 16: "OpenUser", 17: "ModifyUser", 18: "ChangeOwnPass",
	20: "NewsReadArt", 21: "NewsPostArt", 22: "DisconnectUser", 23: "CannotBeDisconnected",
	24: "GetClientInfo", 25: "UploadAnywhere", 26: "AnyName", 27: "NoAgreement",
	28: "SetFileComment", 29: "SetFolderComment", 30: "ViewDropBoxes", 31: "MakeAlias",
	32: "Broadcast", 33: "NewsDeleteArt", 34: "NewsCreateCat", 35: "NewsDeleteCat",
	36: "NewsCreateFldr", 37: "NewsDeleteFldr", 38: "UploadFolder", 39: "DownloadFolder",
	40: "SendPrivMsg",
}

// DefinedPrivs lists the 40 defined privilege numbers in ascending order.
var DefinedPrivs = func() []int {
	var out []int
	for i := 0; i < 64; i++ {
		if _, ok := PrivilegeNames[i]; ok {
			out = append(out, i)
		}
	}
	return out
}()

type Access [8]byte

func (a *Access) Set(i int)     { a[i/8] |= 0x80 >> uint(i%8) }
func (a *Access) Clear(i int)   { a[i/8] &^= 0x80 >> uint(i%8) }
func (a Access) Has(i int) bool { return a[i/8]&(0x80>>uint(i%8)) != 0 }
func AllAccess() (a Access) {
	for i := range a {
		a[i] = 0xff
	}
	return
}
func AccessOf(bits ...int) (a Access) {
	for _, b := range bits {
		a.Set(b)
	}
	return
}

// Defined returns a with only the 40 defined privilege bits kept.
func (a Access) Defined() (o Access) {
	for _, i := range DefinedPrivs {
		if a.Has(i) {
			o.Set(i)
		}
	}
	return
}

// Transaction types.
const (
	TranError                = 0
	TranGetMsgs              = 101
	TranNewMsg               = 102
	TranOldPostNews          = 103
	TranServerMsg            = 104
	TranChatSend             = 105
	TranChatMsg              = 106
	TranLogin                = 107
	TranSendInstantMsg       = 108
	TranShowAgreement        = 109
	TranDisconnectUser       = 110
	TranDisconnectMsg        = 111
	TranInviteNewChat        = 112
	TranInviteToChat         = 113
	TranRejectChatInvite     = 114
	TranJoinChat             = 115
	TranLeaveChat            = 116
	TranNotifyChatChangeUser = 117
	TranNotifyChatDeleteUser = 118
	TranNotifyChatSubject    = 119
	TranSetChatSubject       = 120
	TranAgreed               = 121
	TranServerBanner         = 122
	TranGetFileNameList      = 200
	TranDownloadFile         = 202
	TranUploadFile           = 203
	TranDeleteFile           = 204
	TranNewFolder            = 205
	TranGetFileInfo          = 206
	TranSetFileInfo          = 207
	TranMoveFile             = 208
	TranMakeFileAlias        = 209
	TranDownloadFldr         = 210
	TranDownloadInfo         = 211
	TranDownloadBanner       = 212
	TranUploadFldr           = 213
	TranGetUserNameList      = 300
	TranNotifyChangeUser     = 301
	TranNotifyDeleteUser     = 302
	TranGetClientInfoText    = 303
	TranSetClientUserInfo    = 304
	TranListUsers            = 348
	TranUpdateUser           = 349
	TranNewUser              = 350
	TranDeleteUser           = 351
	TranGetUser              = 352
	TranSetUser              = 353
	TranUserAccess           = 354
	TranUserBroadcast        = 355
	TranGetNewsCatNameList   = 370
	TranGetNewsArtNameList   = 371
	TranDelNewsItem          = 380
	TranNewNewsFldr          = 381
	TranNewNewsCat           = 382
	TranGetNewsArtData       = 400
	TranPostNewsArt          = 410
	TranDelNewsArt           = 411
	TranKeepAlive            = 500
)

// Field ids.
const (
	FError               = 100
	FData                = 101
	FUserName            = 102
	FUserID              = 103
	FUserIconID          = 104
	FUserLogin           = 105
	FUserPassword        = 106
	FRefNum              = 107
	FTransferSize        = 108
	FChatOptions         = 109
	FUserAccess          = 110
	FUserFlags           = 112
	FOptions             = 113
	FChatID              = 114
	FChatSubject         = 115
	FWaitingCount        = 116
	FBannerType          = 152
	FNoServerAgreement   = 152
	FVersion             = 160
	FCommunityBannerID   = 161
	FServerName          = 162
	FFileNameWithInfo    = 200
	FFileName            = 201
	FFilePath            = 202
	FFileResumeData      = 203
	FFileTransferOptions = 204
	FFileTypeString      = 205
	FFileCreatorString   = 206
	FFileSize            = 207
	FFileCreateDate      = 208
	FFileModifyDate      = 209
	FFileComment         = 210
	FFileNewName         = 211
	FFileNewPath         = 212
	FFileType            = 213
	FQuotingMsg          = 214
	FAutomaticResponse   = 215
	FFolderItemCount     = 220
	FUsernameWithInfo    = 300
	FNewsArtListData     = 321
	FNewsCatName         = 322
	FNewsCatListData15   = 323
	FNewsPath            = 325
	FNewsArtID           = 326
	FNewsArtDataFlav     = 327
	FNewsArtTitle        = 328
	FNewsArtPoster       = 329
	FNewsArtDate         = 330
	FNewsArtPrevArt      = 331
	FNewsArtNextArt      = 332
	FNewsArtData         = 333
	FNewsArtFlags        = 334
	FNewsArtParentArt    = 335
	FNewsArt1stChildArt  = 336
	FNewsArtRecurseDel   = 337
)
