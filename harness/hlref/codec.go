// Package hlref is an independent reference implementation of the Hotline wire format
// (Hotline protocol 1.9 document) used as oracle.  Nothing in this package imports mobius.
package hlref

import (
	"encoding/binary"
	"errors"
	"fmt"
)

func be16(v int) []byte { b := make([]byte, 2); binary.BigEndian.PutUint16(b, uint16(v)); return b }
func be32(v int) []byte { b := make([]byte, 4); binary.BigEndian.PutUint32(b, uint32(v)); return b }
func U16(b []byte) int  { return int(binary.BigEndian.Uint16(b)) }
func U32(b []byte) int  { return int(binary.BigEndian.Uint32(b)) }
func BE16(v int) []byte { return be16(v) }
func BE32(v int) []byte { return be32(v) }

func cat(parts ...[]byte) []byte {
	var out []byte
	for _, p := range parts {
		out = append(out, p...)
	}
	if out == nil {
		out = []byte{}
	}
	return out
}

// ---------------------------------------------------------------------------------------
// Transaction / field

type Field struct {
	ID   int
	Data []byte
}

type Tran struct {
	Flags   byte
	IsReply byte
	Type    int
	ID      uint32
	Err     uint32
	Fields  []Field
}

func F(id int, data []byte) Field { return Field{ID: id, Data: data} }

func (f Field) Encode() []byte { return cat(be16(f.ID), be16(len(f.Data)), f.Data) }

func EncodeFields(fs []Field) []byte {
	out := be16(len(fs))
	for _, f := range fs {
		out = append(out, f.Encode()...)
	}
	return out
}

// Encode emits the 20-byte header (flags, is-reply, type, id, error, total size, data
// size) followed by the parameter count and the parameters.  Total size = data size =
// 2 + sum(4 + len(field)).
func (t Tran) Encode() []byte {
	body := EncodeFields(t.Fields)
	return cat([]byte{t.Flags, t.IsReply}, be16(t.Type), be32(int(t.ID)), be32(int(t.Err)),
		be32(len(body)), be32(len(body)), body)
}

func (t *Tran) Get(id int) ([]byte, bool) {
	if t == nil {
		return nil, false
	}
	for _, f := range t.Fields {
		if f.ID == id {
			return f.Data, true
		}
	}
	return nil, false
}

func (t *Tran) GetAll(id int) [][]byte {
	var out [][]byte
	if t == nil {
		return nil
	}
	for _, f := range t.Fields {
		if f.ID == id {
			out = append(out, f.Data)
		}
	}
	return out
}

var ErrShort = errors.New("hlref: incomplete")

// DecodeTran strictly parses one transaction from the front of b and returns the number
// of bytes consumed.  ErrShort means more bytes are needed; any other error means the
// bytes cannot be a well-formed transaction.
func DecodeTran(b []byte) (Tran, int, error) {
	var t Tran
	if len(b) < 20 {
		return t, 0, ErrShort
	}
	t.Flags, t.IsReply = b[0], b[1]
	t.Type = U16(b[2:4])
	t.ID = binary.BigEndian.Uint32(b[4:8])
	t.Err = binary.BigEndian.Uint32(b[8:12])
	total := U32(b[12:16])
	data := U32(b[16:20])
	if total != data {
		return t, 0, fmt.Errorf("hlref: total size %d != data size %d", total, data)
	}
	if total < 2 {
		return t, 0, fmt.Errorf("hlref: total size %d < 2", total)
	}
	if total > 1<<24 {
		return t, 0, fmt.Errorf("hlref: absurd total size %d", total)
	}
	if len(b) < 20+total {
		return t, 0, ErrShort
	}
	body := b[20 : 20+total]
	n := U16(body[0:2])
	p := 2
	for i := 0; i < n; i++ {
		if p+4 > len(body) {
			return t, 0, fmt.Errorf("hlref: field %d header beyond body", i)
		}
		id, sz := U16(body[p:]), U16(body[p+2:])
		p += 4
		if p+sz > len(body) {
			return t, 0, fmt.Errorf("hlref: field %d (id %d) size %d beyond body", i, id, sz)
		}
		t.Fields = append(t.Fields, Field{ID: id, Data: append([]byte{}, body[p:p+sz]...)})
		p += sz
	}
	if p != len(body) {
		return t, 0, fmt.Errorf("hlref: %d trailing bytes in transaction body", len(body)-p)
	}
	return t, 20 + total, nil
}

// DecodeStream strictly parses a byte stream into whole transactions.  rest is the
// unparsed tail (non-empty only when the stream ends inside a transaction).
func DecodeStream(b []byte) (ts []Tran, rest []byte, err error) {
	for len(b) > 0 {
		t, n, e := DecodeTran(b)
		if e == ErrShort {
			return ts, b, nil
		}
		if e != nil {
			return ts, b, e
		}
		ts = append(ts, t)
		b = b[n:]
	}
	return ts, nil, nil
}

// ---------------------------------------------------------------------------------------
// User name with info (field 300)

type User struct {
	ID, Icon, Flags int
	Name            []byte
}

func (u User) Encode() []byte {
	return cat(be16(u.ID), be16(u.Icon), be16(u.Flags), be16(len(u.Name)), u.Name)
}

func DecodeUser(b []byte) (User, error) {
	if len(b) < 8 {
		return User{}, fmt.Errorf("hlref: user record %d bytes", len(b))
	}
	n := U16(b[6:8])
	if len(b) != 8+n {
		return User{}, fmt.Errorf("hlref: user record name size %d but %d bytes follow", n, len(b)-8)
	}
	return User{U16(b[0:2]), U16(b[2:4]), U16(b[4:6]), append([]byte{}, b[8:]...)}, nil
}

// ---------------------------------------------------------------------------------------
// Account record (list-users data field): count + sub-fields

func Obfuscate(b []byte) []byte {
	o := make([]byte, len(b))
	for i := range b {
		o[i] = 255 - b[i]
	}
	return o
}

func EncodeAccountRecord(name, login []byte, access [8]byte, hasPassword bool) []byte {
	fs := []Field{F(102, name), F(105, Obfuscate(login)), F(110, access[:])}
	if hasPassword {
		fs = append(fs, F(106, []byte("x")))
	}
	return EncodeFields(fs)
}

// DecodeSubFields strictly parses count + fields.
func DecodeSubFields(b []byte) ([]Field, error) {
	if len(b) < 2 {
		return nil, fmt.Errorf("hlref: sub-field list %d bytes", len(b))
	}
	n := U16(b)
	p := 2
	var fs []Field
	for i := 0; i < n; i++ {
		if p+4 > len(b) {
			return nil, fmt.Errorf("hlref: sub-field %d header beyond data", i)
		}
		id, sz := U16(b[p:]), U16(b[p+2:])
		p += 4
		if p+sz > len(b) {
			return nil, fmt.Errorf("hlref: sub-field %d size beyond data", i)
		}
		fs = append(fs, Field{id, append([]byte{}, b[p:p+sz]...)})
		p += sz
	}
	if p != len(b) {
		return nil, fmt.Errorf("hlref: %d trailing bytes after sub-fields", len(b)-p)
	}
	return fs, nil
}

// ---------------------------------------------------------------------------------------
// File name with info (field 200)

type FileNameWithInfo struct {
	Type, Creator [4]byte
	Size          uint32
	RSVD          [4]byte
	NameScript    int
	Name          []byte
}

func (f FileNameWithInfo) Encode() []byte {
	return cat(f.Type[:], f.Creator[:], be32(int(f.Size)), f.RSVD[:], be16(f.NameScript), be16(len(f.Name)), f.Name)
}

func DecodeFileNameWithInfo(b []byte) (FileNameWithInfo, error) {
	var f FileNameWithInfo
	if len(b) < 20 {
		return f, fmt.Errorf("hlref: file name with info %d bytes", len(b))
	}
	copy(f.Type[:], b[0:4])
	copy(f.Creator[:], b[4:8])
	f.Size = binary.BigEndian.Uint32(b[8:12])
	copy(f.RSVD[:], b[12:16])
	f.NameScript = U16(b[16:18])
	n := U16(b[18:20])
	if len(b) != 20+n {
		return f, fmt.Errorf("hlref: file name size %d but %d bytes follow", n, len(b)-20)
	}
	f.Name = append([]byte{}, b[20:]...)
	return f, nil
}

// ---------------------------------------------------------------------------------------
// Flattened file object

type InfoFork struct {
	Platform, Type, Creator, Flags, PlatformFlags [4]byte
	RSVD                                          [32]byte
	Create, Modify                                [8]byte
	NameScript                                    int
	Name, Comment                                 []byte
}

// ShortInfoFork: some clients end the information fork right after the name when there is no comment (they leave out
// the zero comment size).  When set, Encode writes that form for forks without a comment.
var ShortInfoFork bool

// Encode: 72 fixed bytes incl. name size, name, comment size, comment.
func (i InfoFork) Encode() []byte {
	if ShortInfoFork && len(i.Comment) == 0 {
		return cat(i.Platform[:], i.Type[:], i.Creator[:], i.Flags[:], i.PlatformFlags[:], i.RSVD[:],
			i.Create[:], i.Modify[:], be16(i.NameScript), be16(len(i.Name)), i.Name)
	}
	return cat(i.Platform[:], i.Type[:], i.Creator[:], i.Flags[:], i.PlatformFlags[:], i.RSVD[:],
		i.Create[:], i.Modify[:], be16(i.NameScript), be16(len(i.Name)), i.Name, be16(len(i.Comment)), i.Comment)
}

func DecodeInfoFork(b []byte) (InfoFork, error) {
	var i InfoFork
	if len(b) < 72 {
		return i, fmt.Errorf("hlref: info fork %d bytes", len(b))
	}
	copy(i.Platform[:], b[0:4])
	copy(i.Type[:], b[4:8])
	copy(i.Creator[:], b[8:12])
	copy(i.Flags[:], b[12:16])
	copy(i.PlatformFlags[:], b[16:20])
	copy(i.RSVD[:], b[20:52])
	copy(i.Create[:], b[52:60])
	copy(i.Modify[:], b[60:68])
	i.NameScript = U16(b[68:70])
	n := U16(b[70:72])
	if len(b) < 72+n+2 {
		return i, fmt.Errorf("hlref: info fork name size %d, only %d bytes follow", n, len(b)-72)
	}
	i.Name = append([]byte{}, b[72:72+n]...)
	c := U16(b[72+n:])
	if len(b) != 72+n+2+c {
		return i, fmt.Errorf("hlref: info fork comment size %d, %d bytes follow", c, len(b)-74-n)
	}
	i.Comment = append([]byte{}, b[74+n:]...)
	return i, nil
}

func ForkHeader(kind string, size int) []byte {
	return cat([]byte(kind), make([]byte, 8), be32(size))
}

// FlatHeader: "FILP", version 1, 16 reserved, fork count; INFO fork header + info fork;
// DATA fork header.
func FlatHeader(forkCount int, info InfoFork, dataSize int) []byte {
	ib := info.Encode()
	return cat([]byte("FILP"), be16(1), make([]byte, 16), be16(forkCount),
		ForkHeader("INFO", len(ib)), ib, ForkHeader("DATA", dataSize))
}

type FlatParsed struct {
	ForkCount int
	Info      InfoFork
	InfoSize  int
	DataSize  int
	HeaderLen int // bytes up to and including the DATA fork header
}

// ParseFlatHeader strictly parses FILP + INFO fork + DATA fork header from the front of b.
func ParseFlatHeader(b []byte) (FlatParsed, error) {
	var p FlatParsed
	if len(b) < 24+16 {
		return p, ErrShort
	}
	if string(b[0:4]) != "FILP" {
		return p, fmt.Errorf("hlref: flat file format %q", b[0:4])
	}
	if U16(b[4:6]) != 1 {
		return p, fmt.Errorf("hlref: flat file version %d", U16(b[4:6]))
	}
	p.ForkCount = U16(b[22:24])
	if string(b[24:28]) != "INFO" {
		return p, fmt.Errorf("hlref: first fork %q, want INFO", b[24:28])
	}
	p.InfoSize = U32(b[36:40])
	if len(b) < 40+p.InfoSize+16 {
		return p, ErrShort
	}
	info, err := DecodeInfoFork(b[40 : 40+p.InfoSize])
	if err != nil {
		return p, err
	}
	p.Info = info
	d := b[40+p.InfoSize:]
	if string(d[0:4]) != "DATA" {
		return p, fmt.Errorf("hlref: second fork %q, want DATA", d[0:4])
	}
	p.DataSize = U32(d[12:16])
	p.HeaderLen = 40 + p.InfoSize + 16
	return p, nil
}

// ---------------------------------------------------------------------------------------
// Resume data (RFLT)

type ForkOffset struct {
	Fork   [4]byte
	Offset uint32
}

func EncodeResume(forks []ForkOffset) []byte {
	out := cat([]byte("RFLT"), be16(1), make([]byte, 34), be16(len(forks)))
	for _, f := range forks {
		out = append(out, cat(f.Fork[:], be32(int(f.Offset)), make([]byte, 8))...)
	}
	return out
}

func DecodeResume(b []byte) ([]ForkOffset, error) {
	if len(b) < 42 || string(b[0:4]) != "RFLT" {
		return nil, fmt.Errorf("hlref: bad resume data")
	}
	n := U16(b[40:42])
	if len(b) != 42+16*n {
		return nil, fmt.Errorf("hlref: resume data fork count %d, %d bytes follow", n, len(b)-42)
	}
	var out []ForkOffset
	for i := 0; i < n; i++ {
		var f ForkOffset
		copy(f.Fork[:], b[42+16*i:])
		f.Offset = binary.BigEndian.Uint32(b[46+16*i:])
		out = append(out, f)
	}
	return out, nil
}

func ResumeData(offset int) []byte {
	return EncodeResume([]ForkOffset{{Fork: [4]byte{'D', 'A', 'T', 'A'}, Offset: uint32(offset)}})
}

// ---------------------------------------------------------------------------------------
// File path (field 202/212) and folder item header

// EncodePath: item count, then per item two zero bytes, one length byte, the name.
func EncodePath(items [][]byte) []byte {
	out := be16(len(items))
	for _, it := range items {
		out = append(out, 0, 0, byte(len(it)))
		out = append(out, it...)
	}
	return out
}

func DecodePath(b []byte) ([][]byte, error) {
	if len(b) < 2 {
		return nil, fmt.Errorf("hlref: path %d bytes", len(b))
	}
	n := U16(b)
	p := 2
	var items [][]byte
	for i := 0; i < n; i++ {
		if p+3 > len(b) {
			return nil, fmt.Errorf("hlref: path item %d header beyond data", i)
		}
		l := int(b[p+2])
		p += 3
		if p+l > len(b) {
			return nil, fmt.Errorf("hlref: path item %d beyond data", i)
		}
		items = append(items, append([]byte{}, b[p:p+l]...))
		p += l
	}
	if p != len(b) {
		return nil, fmt.Errorf("hlref: %d trailing bytes after path", len(b)-p)
	}
	return items, nil
}

// FolderItemHeader (server -> client in folder download): header size (2, counting type +
// path), type (2; 1 = folder), path.
func FolderItemHeader(isDir bool, items [][]byte) []byte {
	p := EncodePath(items)
	t := 0
	if isDir {
		t = 1
	}
	return cat(be16(len(p)+2), be16(t), p)
}

// ---------------------------------------------------------------------------------------
// News

type NewsArtListEntry struct {
	ID       uint32
	Date     [8]byte
	Parent   uint32
	Flags    [4]byte
	Title    []byte
	Poster   []byte
	Flavor   []byte
	BodySize int
}

func (e NewsArtListEntry) Encode() []byte {
	fl := e.Flavor
	if fl == nil {
		fl = []byte("text/plain")
	}
	return cat(be32(int(e.ID)), e.Date[:], be32(int(e.Parent)), e.Flags[:], be16(1),
		[]byte{byte(len(e.Title))}, e.Title, []byte{byte(len(e.Poster))}, e.Poster,
		[]byte{byte(len(fl))}, fl, be16(e.BodySize))
}

// EncodeNewsArtList: id(4) count(4) name(p-string) description(p-string) entries.
func EncodeNewsArtList(id [4]byte, name, desc []byte, entries []NewsArtListEntry) []byte {
	out := cat(id[:], be32(len(entries)), []byte{byte(len(name))}, name, []byte{byte(len(desc))}, desc)
	for _, e := range entries {
		out = append(out, e.Encode()...)
	}
	return out
}

func DecodeNewsArtList(b []byte) (id [4]byte, name, desc []byte, entries []NewsArtListEntry, err error) {
	bad := func(s string, a ...any) error { return fmt.Errorf("hlref: news article list: "+s, a...) }
	if len(b) < 10 {
		err = bad("%d bytes", len(b))
		return
	}
	copy(id[:], b[0:4])
	n := U32(b[4:8])
	p := 8
	pstr := func() ([]byte, bool) {
		if p >= len(b) {
			return nil, false
		}
		l := int(b[p])
		p++
		if p+l > len(b) {
			return nil, false
		}
		s := append([]byte{}, b[p:p+l]...)
		p += l
		return s, true
	}
	var ok bool
	if name, ok = pstr(); !ok {
		err = bad("name beyond data")
		return
	}
	if desc, ok = pstr(); !ok {
		err = bad("description beyond data")
		return
	}
	for i := 0; i < n; i++ {
		var e NewsArtListEntry
		if p+22 > len(b) {
			err = bad("entry %d header beyond data", i)
			return
		}
		e.ID = binary.BigEndian.Uint32(b[p:])
		copy(e.Date[:], b[p+4:p+12])
		e.Parent = binary.BigEndian.Uint32(b[p+12:])
		copy(e.Flags[:], b[p+16:p+20])
		fc := U16(b[p+20:])
		p += 22
		if e.Title, ok = pstr(); !ok {
			err = bad("entry %d title beyond data", i)
			return
		}
		if e.Poster, ok = pstr(); !ok {
			err = bad("entry %d poster beyond data", i)
			return
		}
		if fc != 1 {
			err = bad("entry %d flavor count %d", i, fc)
			return
		}
		if e.Flavor, ok = pstr(); !ok {
			err = bad("entry %d flavor beyond data", i)
			return
		}
		if p+2 > len(b) {
			err = bad("entry %d article size beyond data", i)
			return
		}
		e.BodySize = U16(b[p:])
		p += 2
		entries = append(entries, e)
	}
	if p != len(b) {
		err = bad("%d trailing bytes", len(b)-p)
	}
	return
}

type NewsCat struct {
	Kind  int // 2 bundle, 3 category
	Count int
	GUID  [16]byte
	AddSN [4]byte
	DelSN [4]byte
	Name  []byte
}

func (c NewsCat) Encode() []byte {
	if c.Kind == 3 {
		return cat(be16(3), be16(c.Count), c.GUID[:], c.AddSN[:], c.DelSN[:], []byte{byte(len(c.Name))}, c.Name)
	}
	return cat(be16(c.Kind), be16(c.Count), []byte{byte(len(c.Name))}, c.Name)
}

func DecodeNewsCat(b []byte) (NewsCat, error) {
	var c NewsCat
	if len(b) < 5 {
		return c, fmt.Errorf("hlref: news category record %d bytes", len(b))
	}
	c.Kind, c.Count = U16(b), U16(b[2:])
	p := 4
	switch c.Kind {
	case 2:
	case 3:
		if len(b) < 29 {
			return c, fmt.Errorf("hlref: news category record %d bytes", len(b))
		}
		copy(c.GUID[:], b[4:20])
		copy(c.AddSN[:], b[20:24])
		copy(c.DelSN[:], b[24:28])
		p = 28
	default:
		return c, fmt.Errorf("hlref: news category kind %d", c.Kind)
	}
	l := int(b[p])
	if len(b) != p+1+l {
		return c, fmt.Errorf("hlref: news category name size %d, %d bytes follow", l, len(b)-p-1)
	}
	c.Name = append([]byte{}, b[p+1:]...)
	return c, nil
}

// EncodeNewsPath: count, then per item two zero bytes, length byte, name.
func EncodeNewsPath(items []string) []byte {
	bs := make([][]byte, len(items))
	for i, s := range items {
		bs[i] = []byte(s)
	}
	return EncodePath(bs)
}

// ---------------------------------------------------------------------------------------
// Tracker registration, date

func EncodeTrackerRegistration(port, users int, passID [4]byte, name, desc, pass []byte) []byte {
	return cat(be16(1), be16(port), be16(users), be16(0), passID[:],
		[]byte{byte(len(name))}, name, []byte{byte(len(desc))}, desc, []byte{byte(len(pass))}, pass)
}

// Date: year (2), milliseconds (2), seconds since the start of that year (4).
func EncodeDate(year, msec int, secs uint32) [8]byte {
	var d [8]byte
	copy(d[:], cat(be16(year), be16(msec), be32(int(secs))))
	return d
}

// Handshake: "TRTP" "HOTL" version(2) sub-version(2).
func Handshake(version, sub int) []byte {
	return cat([]byte("TRTP"), []byte("HOTL"), be16(version), be16(sub))
}

// HTXF preamble: "HTXF" ref(4) data size(4) reserved(4).
func Preamble(ref [4]byte, size int) []byte {
	return cat([]byte("HTXF"), ref[:], be32(size), make([]byte, 4))
}

// ServerRecord (tracker listing entry)
func EncodeServerRecord(ip [4]byte, port, users int, name, desc []byte) []byte {
	return cat(ip[:], be16(port), be16(users), be16(0), []byte{byte(len(name))}, name, []byte{byte(len(desc))}, desc)
}
