#!/bin/bash
# usage: seedtest.sh <PROP> <outdir> <demo-file-name> <dest-path-in-repo> <go-test-pkg> <run-regex> [extra props to check...]
# 1) confirms in a scratch worktree: demo passes without the change, fails with it, suite passes with it
# 2) applies the change to /repo, runs the quick check(s), reverts
# 3) stores everything under /verif/seeded/<PROP>-<n>/
set -u
PROP=$1; OUT=$2; DEMO=$3; DEST=$4; PKG=$5; RUN=$6; shift 6; EXTRA="$*"
export GOFLAGS=-mod=mod GOPROXY=off GOSUMDB=off GOTOOLCHAIN=local
WT=$(mktemp -d /tmp/seedchk.XXXXXX); rmdir $WT
git -C /repo worktree add -q --detach $WT HEAD || exit 3
cleanup() { git -C /repo worktree remove --force $WT 2>/dev/null; rm -rf $WT; }
trap cleanup EXIT
cp "$OUT/$DEMO" "$WT/$DEST"
( cd $WT && go test ${SEED_TEST_FLAGS:-} $PKG -run "$RUN" -count=1 > /tmp/seed-without.log 2>&1 ); W=$?
( cd $WT && git apply "$OUT/patch.diff" ) || { echo "patch does not apply"; exit 3; }
( cd $WT && go build ./... ) || { echo "does not build"; exit 3; }
( cd $WT && go test ${SEED_TEST_FLAGS:-} $PKG -run "$RUN" -count=1 > /tmp/seed-with.log 2>&1 ); X=$?
rm "$WT/$DEST"
( cd $WT && go test -count=1 ./... > /tmp/seed-suite.log 2>&1 ); S=$?
echo "demo without change: rc=$W (want 0); with change: rc=$X (want !=0); suite with change: rc=$S (want 0)"
if [ $W != 0 ] || [ $X = 0 ] || [ $S != 0 ]; then echo "NOT CONFIRMED"; tail -5 /tmp/seed-without.log /tmp/seed-with.log /tmp/seed-suite.log; exit 1; fi
RES=""
for p in $PROP $EXTRA; do
  out=$(/verif/tools/isolated.sh "$OUT/patch.diff" $p 2>&1); echo "$out" | head -4
  rc=$(echo "$out" | sed -n 's/.*isolated result for [A-Z0-9]*: rc=\([0-9]*\).*/\1/p' | head -1)
  RES="$RES $p:rc=$rc"
done
n=1; while [ -e /verif/seeded/$PROP-$n ]; do n=$((n+1)); done
D=/verif/seeded/$PROP-$n; mkdir -p $D
cp "$OUT/patch.diff" $D/; cp "$OUT/$DEMO" $D/; [ -f "$OUT/notes.md" ] && cp "$OUT/notes.md" $D/
python3 - "$D" "$PROP" "$DEST" "$PKG" "$RUN" "$RES" <<'PY'
import json,sys,re
d,prop,dest,pkg,run,res=sys.argv[1:7]
notes=open(d+'/notes.md').read() if __import__('os').path.exists(d+'/notes.md') else ''
json.dump({"property":prop,"origin":"independent sub-agent given only the property text and a scratch worktree",
 "demo":{"file":dest,"command":f"go test {pkg} -run '{run}' -count=1"},
 "confirmed":{"demo_without_change":"pass","demo_with_change":"fail","existing_suite_with_change":"pass"},
 "checks_run_on_seeded_tree":res.split(),"needs_to_manifest":"see notes.md"},open(d+'/meta.json','w'),indent=1)
PY
echo "stored in $D"
