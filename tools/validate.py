#!/opt/veriftools/pyvenv/bin/python
import json, sys, glob, jsonschema
m=json.load(open('/verif/MANIFEST.json')); jsonschema.validate(m,json.load(open('/root/.vp/MANIFEST.schema.json')))
s=json.load(open('/root/.vp/EVIDENCE.schema.json'))
for f in sorted(glob.glob('/verif/evidence/*.json')):
    jsonschema.validate(json.load(open(f)), s)
    print("ok", f)
print("manifest valid; claimed:", [c['property_id'] for c in m['checks']])
