#!/bin/bash
# runs every claimed check (tier from $1, default quick) sequentially and prints a summary
TIER=${1:-quick}
cd /verif
for id in $(python3 -c "import json; print(' '.join(c['property_id'] for c in json.load(open('MANIFEST.json'))['checks']))"); do
  s=$(date +%s)
  out=$(./verif check $id --tier $TIER 2>&1); rc=$?
  e=$(( $(date +%s) - s ))
  echo "$id rc=$rc ${e}s $(echo "$out" | grep -c KNOWN-FINDING) known | $(echo "$out" | grep '^verif:' | tail -1)"
  if [ $rc != 0 ]; then echo "$out" | tail -30; fi
done
