#!/bin/bash
# usage: isolated.sh <patchfile|-> <PROP> [PROP...]
# Runs checks against a scratch copy of /repo (HEAD worktree + optional patch) through a scratch copy of the
# harness whose go.mod replace points at that copy.  /repo, /verif/evidence and /verif/replays are not touched.
set -u
PATCH=$1; shift
export GOFLAGS=-mod=mod GOPROXY=off GOSUMDB=off GOTOOLCHAIN=local
S=$(mktemp -d /tmp/iso.XXXXXX)
git -C /repo worktree add -q --detach $S/repo HEAD || exit 3
cleanup() { git -C /repo worktree remove --force $S/repo 2>/dev/null; rm -rf $S; }
trap cleanup EXIT
if [ "$PATCH" != "-" ]; then ( cd $S/repo && git apply "$PATCH" ) || { echo "patch does not apply"; exit 3; }; fi
( cd $S/repo && go build ./... ) || { echo "MUTANT DOES NOT COMPILE"; exit 3; }
cp -r /verif/harness $S/harness
sed -i "s#=> /repo#=> $S/repo#" $S/harness/go.mod
for P in "$@"; do
  ( cd /verif && VERIF_HARNESS_OVERRIDE=$S/harness VERIF_EVIDENCE_DIR=$S/evidence VERIF_REPLAY_DIR=$S/replays timeout 3000 ./verif check $P --tier ${TIER:-quick} > $S/$P.log 2>&1 ); rc=$?
  echo "isolated result for $P: rc=$rc ($( [ $rc = 1 ] && echo CAUGHT || { [ $rc = 0 ] && echo "MISSED/SILENT" || echo "rc=$rc"; } ))"
  grep -m3 "rapid\] failed\|rapid\] panic\|VERIF-VIOLATION\|inconclusive\|VERIF-INCONCLUSIVE" $S/$P.log | cut -c1-500
  [ $rc = 1 ] && ! grep -q "rapid\] failed\|rapid\] panic\|VERIF-VIOLATION" $S/$P.log && grep -m2 "VIOLATION" $S/$P.log
  cp $S/$P.log /tmp/iso-last-$P.log
done
exit 0
