#!/usr/bin/env python3
"""Mechanical mutation campaign: sensitivity of the checks to small syntactic changes of jhalter/mobius.

For every sampled mutant (one token / one line changed in a non-test Go file):
  1. it must compile (go build ./... and go vet of the package is not required),
  2. the pinned suite (go test ./...) must still pass - otherwise the existing tests already decide it and it is skipped,
  3. the quick tier of the checks mapped to the file / function runs against a scratch copy (tools/isolated.sh).
Results are appended to <out>.jsonl; /repo itself is never modified.

usage: mutcampaign.py <out.jsonl> <per-file-sample> [file-regex] [seed]
"""
import json, os, random, re, subprocess, sys, tempfile, shutil, hashlib

REPO = "/repo"
ENV = dict(os.environ, GOFLAGS="-mod=mod", GOPROXY="off", GOSUMDB="off", GOTOOLCHAIN="local")

FILE_PROPS = [
    (r"hotline/transaction\.go$", ["C01", "C02", "C14"]),
    (r"hotline/field\.go$", ["C01", "C14", "C02"]),
    (r"hotline/server\.go$", ["C02", "C03", "C04", "C13", "C14", "C17"]),
    (r"hotline/client_conn\.go$", ["C13", "C05", "C12", "C14"]),
    (r"hotline/client_manager\.go$", ["C13"]),
    (r"hotline/chat\.go$", ["C12"]),
    (r"hotline/file_transfer\.go$", ["C08", "C09", "C10", "C02"]),
    (r"hotline/flattened_file_object\.go$", ["C01", "C08", "C09"]),
    (r"hotline/file_wrapper\.go$", ["C11", "C08", "C09", "C10"]),
    (r"hotline/files\.go$", ["C11", "C01", "C10"]),
    (r"hotline/file_path\.go$", ["C07", "C11", "C05"]),
    (r"hotline/file_name_with_info\.go$", ["C01", "C11"]),
    (r"hotline/file_resume_data\.go$", ["C01", "C09", "C08"]),
    (r"hotline/transfer\.go$", ["C09", "C10", "C02", "C08"]),
    (r"hotline/account\.go$", ["C01", "C15"]),
    (r"hotline/access\.go$", ["C16", "C15", "C06"]),
    (r"hotline/news\.go$", ["C01", "C18"]),
    (r"hotline/user\.go$", ["C01", "C13"]),
    (r"hotline/handshake\.go$", ["C02", "C04"]),
    (r"hotline/tracker\.go$", ["C01"]),
    (r"hotline/time\.go$", ["C01"]),
    (r"hotline/yaml_string\.go$", ["C15", "C18"]),
    (r"internal/mobius/account_manager\.go$", ["C15", "C16", "C20", "C04"]),
    (r"internal/mobius/ban\.go$", ["C17", "C20"]),
    (r"internal/mobius/news\.go$", ["C19", "C20"]),
    (r"internal/mobius/threaded_news\.go$", ["C18", "C20"]),
]
HANDLER_PROPS = [
    (r"Chat|Invite", ["C12", "C05"]),
    (r"News|Art|Cat", ["C18", "C05"]),
    (r"Msgs|OldPost", ["C19", "C05"]),
    (r"Disconnect", ["C17", "C06", "C05", "C13"]),
    (r"User|Login|Agreed|ClientInfo|InstantMsg|Broadcast", ["C15", "C06", "C05", "C13"]),
    (r"File|Folder|Fldr|Alias|Download|Upload|Move|Delete", ["C07", "C11", "C05", "C08", "C09", "C10"]),
]


def sh(cmd, cwd=None, timeout=3600):
    p = subprocess.run(cmd, cwd=cwd, env=ENV, shell=isinstance(cmd, str), stdout=subprocess.PIPE, stderr=subprocess.STDOUT, timeout=timeout)
    return p.returncode, p.stdout.decode(errors="replace")


OPS = [
    ("rel", [(r"(?<![<>=!:+\-*/&|])<=(?!=)", "<"), (r"(?<![<>=!:\-])<(?![<=\-])", "<="), (r"(?<![<>=!\-])>=(?!=)", ">"), (r"(?<![<>=!\-])>(?![>=])", ">="), (r"==", "!="), (r"!=", "==")]),
    ("logic", [(r"&&", "||"), (r"\|\|", "&&")]),
    ("const", [(r"(?<![\w.\"x])(\d+)(?![\w.\"])", None)]),
    ("bool", [(r"\btrue\b", "false"), (r"\bfalse\b", "true")]),
    ("reterr", [(r"\breturn err\b", "return nil"), (r"\breturn (\w+), err\b", r"return \1, nil")]),
    ("negate", [(r"\bif !(\w)", r"if \1"), (r"\bif (\w[\w.]*\()", r"if !\1")]),
    ("arith", [(r"(?<![+\-])\+(?![+=])", "-"), (r"(?<![\-<])-(?![\-=>])", "+")]),
]


def mutants_of(path, text):
    lines = text.split("\n")
    out = []
    func = ""
    in_import = False
    in_block_comment = False
    for i, l in enumerate(lines):
        st = l.strip()
        m = re.match(r"func (?:\([^)]*\) )?(\w+)", l)
        if m:
            func = m.group(1)
            if "Mock" in l:
                func = ""  # testify mocks shipped in non-test files: not production behaviour
        if st.startswith("import ("):
            in_import = True
        if in_import:
            if st == ")":
                in_import = False
            continue
        if st.startswith("/*"):
            in_block_comment = True
        if in_block_comment:
            if "*/" in st:
                in_block_comment = False
            continue
        if not st or st.startswith("//") or st.startswith("package ") or st.startswith("import "):
            continue
        if not func:
            continue  # declarations before the first function: tables / constants are handled by "const" below only inside functions
        code = l.split("//")[0] if '"' not in l else l
        # token replacements
        for opname, pats in OPS:
            for pat, rep in pats:
                for mm in re.finditer(pat, code):
                    # skip matches inside string literals (rough: odd number of quotes before)
                    if code[:mm.start()].count('"') % 2 == 1 or code[:mm.start()].count('`') % 2 == 1:
                        continue
                    if opname == "const":
                        v = int(mm.group(1))
                        for nv in ({v + 1, max(v - 1, 0)} - {v}):
                            new = code[:mm.start(1)] + str(nv) + code[mm.end(1):]
                            out.append((i, func, "const", l, new))
                    else:
                        new = code[:mm.start()] + mm.expand(rep) + code[mm.end():]
                        if new != code:
                            out.append((i, func, opname, l, new))
        # statement deletion: simple statements (calls, assignments, defers) that open no block
        if not st.endswith("{") and not st.endswith(",") and not st.startswith(("}", "return", "case ", "default:", "var ", "type ", "const ", "break", "continue", "go func", ")")) and (st.endswith(")") or ("=" in st and not st.endswith("("))) and ":=" not in st:
            out.append((i, func, "delstmt", l, re.match(r"\s*", l).group(0) + "// (statement removed)"))
    return out


def props_for(path, func):
    for pat, props in FILE_PROPS:
        if re.search(pat, path):
            return props
    if path.endswith("internal/mobius/transaction_handlers.go"):
        for pat, props in HANDLER_PROPS:
            if re.search(pat, func):
                return props
        return ["C05"]
    return None


def main():
    out_path, per_file = sys.argv[1], int(sys.argv[2])
    file_re = re.compile(sys.argv[3]) if len(sys.argv) > 3 else re.compile(".")
    rng = random.Random(int(sys.argv[4]) if len(sys.argv) > 4 else 1)
    done = set()
    if os.path.exists(out_path):
        for l in open(out_path):
            try:
                done.add(json.loads(l)["key"])
            except Exception:
                pass
    files = subprocess.check_output(["git", "-C", REPO, "ls-files", "hotline/*.go", "internal/mobius/*.go"]).decode().split()
    files = [f for f in files if not f.endswith("_test.go") and "verif" not in f and "mock" not in f.lower() and file_re.search(f)]
    wt = tempfile.mkdtemp(prefix="mutwt.", dir="/tmp")
    os.rmdir(wt)
    subprocess.check_call(["git", "-C", REPO, "worktree", "add", "-q", "--detach", wt, "HEAD"])
    try:
        for f in files:
            text = open(os.path.join(wt, f)).read()
            ms = mutants_of(f, text)
            rng.shuffle(ms)
            taken = 0
            for (ln, func, op, old, new) in ms:
                if taken >= per_file:
                    break
                props = props_for(f, func)
                if not props:
                    continue
                key = hashlib.sha1(f"{f}:{ln}:{op}:{new}".encode()).hexdigest()[:16]
                if key in done:
                    taken += 1
                    continue
                lines = text.split("\n")
                lines[ln] = new
                open(os.path.join(wt, f), "w").write("\n".join(lines))
                rec = {"key": key, "file": f, "line": ln + 1, "func": func, "op": op, "before": old.strip(), "after": new.strip(), "props": props}
                try:
                    rcb, ob = sh("go build ./...", cwd=wt, timeout=600)
                    if rcb != 0:
                        rec["status"] = "nocompile"
                    else:
                        rct, ot = sh("go test -count=1 ./...", cwd=wt, timeout=900)
                        if rct != 0:
                            rec["status"] = "killed_by_suite"
                        else:
                            sh("git checkout -q -- internal/mobius/test; git clean -fdq internal/mobius/test", cwd=wt)
                            patch = os.path.join("/tmp", f"mut-{key}.diff")
                            _, d = sh(["git", "diff"], cwd=wt)
                            open(patch, "w").write(d)
                            caught = []
                            for p in props:
                                rci, oi = sh(["/verif/tools/isolated.sh", patch, p], timeout=3600)
                                m = re.search(r"isolated result for %s: rc=(\d+)" % p, oi)
                                r = int(m.group(1)) if m else -1
                                if r == 1:
                                    caught.append(p)
                                    break
                                if r not in (0, 1):
                                    rec.setdefault("odd", []).append(f"{p}:rc={r}")
                            os.remove(patch)
                            rec["status"] = "caught" if caught else "survived"
                            rec["caught_by"] = caught
                except subprocess.TimeoutExpired:
                    rec["status"] = "timeout"
                finally:
                    open(os.path.join(wt, f), "w").write(text)
                    sh("git checkout -q -- . ; git clean -fdq internal/mobius/test", cwd=wt)
                open(out_path, "a").write(json.dumps(rec) + "\n")
                print(rec["status"], f, ln + 1, op, "|", rec["before"][:60], "->", rec["after"][:60], rec.get("caught_by", ""), flush=True)
                taken += 1
    finally:
        subprocess.call(["git", "-C", REPO, "worktree", "remove", "--force", wt])
        shutil.rmtree(wt, ignore_errors=True)


if __name__ == "__main__":
    main()
