# Per-property run configuration for the driver (/verif/verif).
# runs: list of jobs; each job = one Go test selection run in `shards` processes.
#   checks  : -rapid.checks per shard (rapid properties)
#   fuzz    : native fuzz target (thorough only)
#   group   : groups run one after another; jobs inside a group share the 16 cores
#   weight  : cores one job of this run uses (parallelism = ncpu // weight)

PROPS = {
    "C01": {
        "title": "Wire format fidelity of every protocol object",
        "level": "exploration",
        "rule": "rapid-generated objects of 16 kinds (field, transaction, user record, account record, file-name-with-info, "
                "info fork, flattened-file header, resume data, folder-item header/file path, news article list entry/list/"
                "category record/whole category, tracker registration, date, decode-only types) drained through a generated "
                "script of read-buffer sizes and compared with the independent hlref encoder, then decoded back; "
                "non-trivial = at least one variable-length part non-empty AND the drain needed more than one Read with data; "
                "distinct = hash(kind, reference bytes, drain script); a tenth of the transactions carry 255-1000 fields; TestC01Tracker: the production registration loop in a child process with 1-4 trackers that are UDP sockets of the harness: each configured tracker must receive exactly one datagram equal to the reference encoding of the registration (port, 0 users, name, description; non-trivial = more than one tracker); TestC01Register: the per-tracker send function with name, description and password of 0-255 bytes each: one datagram equal to the reference record, also when it is longer than 508 bytes",
        "assumptions": ["hlref (written from the protocol document) is the wire-format oracle",
                        "TZ pinned to UTC for the date type",
                        "drain cost bounded: buffers >= len^2/2MiB (encoders rebuild their output per Read)"],
        "needs_cmds": True,
        "quick": {"runs": [{"test": "^TestC01$", "shards": 16, "checks": 5000, "timeout": 300},
                           {"test": "^TestC01Tracker$", "shards": 1, "checks": 8, "timeout": 600},
                           {"test": "^TestC01Register$", "shards": 1, "checks": 150, "timeout": 600}]},
        "thorough": {"runs": [
            {"test": "^TestC01$", "shards": 16, "checks": 97000, "timeout": 3000, "group": 0},
            {"test": "^TestC01Tracker$", "shards": 2, "checks": 150, "timeout": 3000, "group": 0},
            {"test": "^TestC01Register$", "shards": 1, "checks": 3200, "timeout": 3000, "group": 0},
            {"fuzz": "^FuzzC01$", "test": "FuzzC01", "fuzztime": "120s", "timeout": 400, "group": 1, "weight": 16},
            {"fuzz": "^FuzzC01Decode$", "test": "FuzzC01Decode", "fuzztime": "120s", "timeout": 400, "group": 2, "weight": 16},
        ]},
    },
    "C04": {
        "title": "Nothing is served before a successful login",
        "needs_cmds": True,
        "level": "exploration",
        "rule": "rapid-generated (account database, handshake bytes, first transaction with a credential variant, 0..5 appended "
                "state-changing transactions, ban state, 1-2 logged-in observers) run against the real server in a synctest bubble; "
                "oracle = login model (valid handshake AND account exists AND wire password == stored password AND address not banned) "
                "plus: bytes received, config/file snapshot unchanged, observers receive nothing, user list unchanged; "
                "non-trivial = valid handshake, complete first transaction, rejected, and (near-miss credentials for an existing account "
                "OR appended state-changing transactions); distinct = hash(handshake, first transaction, appended kinds, ban, accounts); in half of the cases an administrator first renames / re-passwords / deletes up to two accounts through the protocol and the attempt is aimed at the old or new login with the previous or current password (existing account and current password are meant at the time of the login)",
        "assumptions": ["synctest fake clock; stoppable replica of the 6-line outbox pump calling the production sendTransaction",
                        "passwords <= 72 bytes (bcrypt limit)"],
        "quick": {"runs": [{"test": "^TestC04$", "shards": 16, "checks": 500, "timeout": 300},
                           {"test": "^TestC04Net$", "shards": 1, "timeout": 600}]},
        "thorough": {"runs": [{"test": "^TestC04$", "shards": 16, "checks": 7800, "timeout": 3000},
                              {"test": "^TestC04Net$", "shards": 2, "timeout": 600}]},
    },
    "C16": {
        "title": "A privilege bit means the same on the wire, in memory and on disk",
        "level": "exploration",
        "rule": "exhaustive over the 64 single-bit bitmaps, the 780 pairs of defined privileges, the 40 all-but-one bitmaps and empty/all "
                "(TestC16Exhaustive), sampled 64-bit values and subsets beyond (TestC16Sampled), plus login-time wire check of the 354 "
                "user-access bytes for accounts stored in named and legacy form, and again after an administrator's set-user while the user is logged in (TestC16Wire), whole account directories of 2-6 files mixing the "
                "legacy and the named form in every load order, loaded twice (the migrating start and the next): every account holds exactly its own "
                "file's privileges (TestC16Dir), and per-bit authorization over all C05 cells "
                "(TestC16Authz); oracle = independent privilege-number -> account-file-key table (hlref.PrivilegeNames) and MSB-first bit "
                "numbering; non-trivial = bitmap has at least one defined privilege; distinct = hash(bitmap, storage form)",
        "assumptions": ["hlref.PrivilegeNames (written from the protocol's privilege list) is the naming oracle"],
        "quick": {"runs": [
            {"test": "^TestC16Exhaustive$", "shards": 4, "timeout": 300},
            {"test": "^TestC16Sampled$", "shards": 4, "checks": 2000, "timeout": 300},
            {"test": "^TestC16Wire$", "shards": 4, "checks": 150, "timeout": 300},
            {"test": "^TestC16Dir$", "shards": 2, "checks": 1500, "timeout": 300},
            {"test": "^TestC16Authz$", "shards": 16, "timeout": 600, "group": 1},
        ]},
        "thorough": {"runs": [
            {"test": "^TestC16Exhaustive$", "shards": 4, "timeout": 600},
            {"test": "^TestC16Sampled$", "shards": 8, "checks": 39000, "timeout": 3000},
            {"test": "^TestC16Wire$", "shards": 4, "checks": 2600, "timeout": 3000},
            {"test": "^TestC16Dir$", "shards": 4, "checks": 32000, "timeout": 3000},
            {"test": "^TestC16Authz$", "shards": 16, "timeout": 1200, "group": 1},
        ]},
    },
    "C15": {
        "title": "Accounts: what can log in = what is listed = what is on disk",
        "level": "exploration",
        "rule": "rapid state machine over new-user, set-user (password set / unchanged marker / absent), batched update-user "
                "(create/modify/rename/delete mixed), delete-user, get-user, login attempts and restarts, with logins/names/passwords "
                "from pools of awkward byte strings that are legal file names; after every step list-users and the accounts directory "
                "are compared with a model map, renamed-away/deleted logins are probed with every password ever used, and at the end "
                "every model login x every password is tried and a fresh account manager is loaded from the directory; new-user also with logins of 245-250 bytes (the account file name fits, the temporary name used while writing does not: a refused creation must leave no trace in any view); TestC15Unwritable: an edit (set-user / update-user; name, privileges, password set / kept / removed) of an account whose file cannot be rewritten (login of 247-250 bytes): the listing decides whether the edit counts, and files, a fresh manager and the logins must agree with it; TestC15Burst: 2-5 "
                "administrators create / set / delete the same logins at the same instant for 4-12 rounds; which request wins is not constrained, "
                "the listing is taken as reference and the files, a fresh manager and the logins that authenticate must equal it after every round; "
                "non-trivial = a rename or delete followed by login attempts with the old login, or a restart after >= 3 edits; "
                "distinct = hash(history)",
        "assumptions": ["edits of other accounts with live sessions and renames onto existing logins are excluded by construction (outside the statement); the administrator's edit of the name of its own account is included"],
        "quick": {"runs": [{"test": "^TestC15$", "shards": 12, "checks": 50, "timeout": 600},
                           {"test": "^TestC15Burst$", "shards": 3, "checks": 25, "timeout": 600},
                           {"test": "^TestC15Unwritable$", "shards": 1, "checks": 60, "timeout": 600},
                           {"test": "^TestC15LeadingNewline$", "shards": 1, "checks": 30, "timeout": 300},
                           {"test": "^TestC15OperatorFile$", "shards": 2, "checks": 30, "timeout": 600},
                           {"test": "^TestC15ManyAccounts$", "shards": 1, "checks": 3, "timeout": 600}]},
        "thorough": {"runs": [{"test": "^TestC15$", "shards": 12, "checks": 970, "timeout": 3400},
                              {"test": "^TestC15Burst$", "shards": 3, "checks": 970, "timeout": 3400},
                              {"test": "^TestC15Unwritable$", "shards": 1, "checks": 1900, "timeout": 3400},
                              {"test": "^TestC15LeadingNewline$", "shards": 1, "checks": 300, "timeout": 600},
                              {"test": "^TestC15OperatorFile$", "shards": 4, "checks": 970, "timeout": 3400},
                              {"test": "^TestC15ManyAccounts$", "shards": 2, "checks": 20, "timeout": 1800}]},
    },
    "C05": {
        "title": "Every privileged effect requires the governing privilege",
        "level": "exploration",
        "rule": "independent table of 111 cells (a folder upload into a missing path named like an upload folder, carried out on the transfer connection; path items holding separators and dot-dot after the name of an upload folder or drop box: the guard must judge the folder the request resolves to; a file list request that names a drop box in a file-name field: its content is revealed only with view-drop-boxes; an account record without a name logging in with a name of its choice; files and folders whose side file claims the other kind; names starting with ../ in uploads into an upload folder and in renames: the effect must happen in the folder the path field names; resumed uploads inside and outside upload folders; batched update-user requests mixing modify, rename, create and delete entries; news targets at depth 1 to 4; delete and move of a dangling alias, governed by either the file or the folder privilege) (request type x target kind -> governing privilege numbers, from the protocol's privilege list) "
                "covering all 43 registered transaction types; TestC05Matrix enumerates every cell x {each of the 40 single-privilege "
                "bitmaps, all, none, all-but-one-governing}; TestC05 draws cell x requester bitmap (random 64 bits with governing bits "
                "forced, all-but-governing, only-governing, missing-one) x how the requester came by them (account file at login, or an "
                "administrator's set-user that flips the governing bits while the account is logged in twice and the requester is the later "
                "session) with rapid; each case runs in a fresh world with two observers; "
                "oracle: effect observed only if its privileges are held; all held => effect observed and no error; any missing => error "
                "reply, file/config snapshot unchanged, observers and victim receive nothing, requester's transfer list unchanged; "
                "non-trivial = requester bitmap is neither empty nor all 40 privileges; distinct = hash(cell, bitmap, path); TestC05GhostCategory: a requester that may post articles but create neither categories nor bundles posts to a news path that does not exist (top level, inside a bundle, inside a category, depth 3): no grouping of that name may exist afterwards in the listing or in the news file, whatever the reply",
        "assumptions": ["upload / drop-box target folders are named unambiguously (Uploads, Drop Box, other)",
                        "the privilege table in harness/props/c05_test.go is the oracle (written from the protocol privilege list)"],
        "quick": {"runs": [{"test": "^TestC05Matrix$", "shards": 16, "timeout": 600},
                           {"test": "^TestC05$", "shards": 15, "checks": 160, "timeout": 600},
                           {"test": "^TestC05GhostCategory$", "shards": 1, "checks": 150, "timeout": 600}]},
        "thorough": {"runs": [{"test": "^TestC05Matrix$", "shards": 16, "timeout": 1200},
                              {"test": "^TestC05$", "shards": 15, "checks": 4100, "timeout": 3400},
                              {"test": "^TestC05GhostCategory$", "shards": 1, "checks": 3900, "timeout": 3400}]},
    },
    "C06": {
        "title": "No privilege amplification; protected users cannot be kicked",
        "level": "exploration",
        "rule": "TestC06Create: rapid-generated (creator bitmap, requested bitmap, creation path new-user|update-user) with modes random / "
                "subset / subset+one-extra-bit / equal / empty / full / defined+undefined-bit; TestC06ExtraBit: every extra-bit position "
                "0..63 x 3 creator backgrounds x both paths (enumerated); TestC06Kick: 1-4 targets with generated privileges (bit 23 or "
                "not), ban option none/temporary/permanent, checked 5 fake seconds later (connection, in-memory ban list, Banlist.yaml, "
                "fresh BanFile, reconnect from the address); oracle: created account bitmap (memory via admin get-user, file, fresh "
                "manager, 354 at its login) is a subset of the creator's over all 64 bits, and requested-subset => created exactly; "
                "non-trivial = requested not a subset of creator (create) / a protected target hit with a ban option (kick); "
                "distinct = hash(creator, requested, path) / hash(targets); in a third of the cases the creator's privileges (reduced) and the targets' protection bit (set or cleared) come from an administrator's set-user made while the account is logged in twice, and the request comes from / is aimed at the later session; TestC06LoginWindow: a disconnect request (every ban option) handled at the instant the protected user's connection enters the registry during its login (harness-owned schedule point, 1.2.3 and 1.5 flow); TestC06RenameForm: a creator that may create but not modify accounts makes an account without privileges and then sends the rename form of update-user (an entry naming an existing and a new login) with generated privileges: no login holding a privilege the creator lacks may exist afterwards in memory or on disk; TestC06LoginWindow also handles the disconnect request while the protected user hangs up (before-delete schedule point); TestC06GraceWindow: an unprotected user is kicked (any option) and hangs up by itself within the grace second, a protected user logs in 0-999 ms later: it must stay connected, listed, served and unbanned; TestC06TwoCreators: 10-40 rounds in which two creators with incomparable privileges ask for the same new login at the same instant (either creation request): the account holds no privilege that a creator who was told created lacks, in memory and in its file; TestC06Bystander: a protected user connected from the same address as an unprotected user who is kicked (any option) is still connected and served 2 s .. 6 min later, with the production idle loop running",
        "assumptions": ["creator bitmaps are what an account file can hold (40 defined privileges)"],
        "quick": {"runs": [{"test": "^TestC06Create$", "shards": 8, "checks": 400, "timeout": 600},
                           {"test": "^TestC06ExtraBit$", "shards": 4, "timeout": 600},
                           {"test": "^TestC06Kick$", "shards": 4, "checks": 100, "timeout": 600},
                           {"test": "^TestC06LoginWindow$", "shards": 1, "checks": 60, "timeout": 600},
                           {"test": "^TestC06RenameForm$", "shards": 1, "checks": 150, "timeout": 600},
                           {"test": "^TestC06GraceWindow$", "shards": 1, "checks": 100, "timeout": 600},
                           {"test": "^TestC06TwoCreators$", "shards": 2, "checks": 25, "timeout": 600},
                           {"test": "^TestC06Bystander$", "shards": 1, "checks": 60, "timeout": 600}]},
        "thorough": {"runs": [{"test": "^TestC06Create$", "shards": 10, "checks": 13000, "timeout": 3400},
                              {"test": "^TestC06ExtraBit$", "shards": 2, "timeout": 1200},
                              {"test": "^TestC06Kick$", "shards": 4, "checks": 3200, "timeout": 3400},
                              {"test": "^TestC06LoginWindow$", "shards": 1, "checks": 1900, "timeout": 3400},
                              {"test": "^TestC06RenameForm$", "shards": 2, "checks": 5200, "timeout": 3400},
                              {"test": "^TestC06GraceWindow$", "shards": 1, "checks": 3200, "timeout": 3400},
                              {"test": "^TestC06TwoCreators$", "shards": 2, "checks": 970, "timeout": 3400},
                              {"test": "^TestC06Bystander$", "shards": 1, "checks": 1900, "timeout": 3400}]},
    },
    "C07": {
        "title": "All filesystem effects stay inside the file root / config dir",
        "level": "exploration",
        "rule": "rapid-generated sequences of 1-3 requests out of 20 kinds (list, info, comment, rename, delete, move, new folder, alias, "
                "download + transfer, upload + transfer, folder download + transfer, folder upload with item headers from the stream, "
                "new/set/update(create,rename,delete)/delete/get user, login) whose names, path items, new names, destinations, item "
                "paths and logins are drawn 60% from a traversal-token dictionary ('..', '.', '', '/', absolute, NUL, '../x', 253-255 "
                "byte items, Mac-Roman high bytes, names of decoys) and whose path encodings are sometimes inconsistent (count / length "
                "byte / truncation); server config-wide or per-account file root; sandbox with decoy siblings (Files-evil, Users.bak, "
                "canary files with unique markers); oracle: snapshot of the sandbox minus the legitimate subtree (file root for file "
                "requests, Users for account requests) identical before/after each request, no alias pointing outside the root, no decoy "
                "marker in any reply or transfer stream, no decoy name in a file list; non-trivial = at least one traversal token or "
                "inconsistent encoding AND a request was answered; distinct = hash(request descriptions)",
        "assumptions": ["requester holds all privileges (C05 is checked separately)"],
        "quick": {"runs": [{"test": "^TestC07$", "shards": 16, "checks": 700, "timeout": 600},
                           {"test": "^TestC07LinkedRoot$", "shards": 2, "checks": 150, "timeout": 600}]},
        "thorough": {"runs": [{"test": "^TestC07$", "shards": 16, "checks": 9100, "timeout": 3400},
                              {"fuzz": "^FuzzC07$", "test": "FuzzC07", "fuzztime": "180s", "timeout": 600, "group": 1, "weight": 16},
                              {"test": "^TestC07LinkedRoot$", "shards": 4, "checks": 1900, "timeout": 1800}]},
    },
    "C08": {
        "title": "Downloads deliver exactly the file's bytes",
        "level": "exploration",
        "rule": "rapid-generated (Mac-Roman-representable file name with extension, content size from boundary set {0,1,511..513,4095..4097,"
                "32767..32769,65535..65537} or uniform up to 256 KiB quick / 8 MiB thorough, optional stored info fork with comment, optional "
                "stored resource fork, mode plain / resume at offset k in {0,1,size-1,size,uniform} / preview, in root or sub-folder); request "
                "through the control connection, transfer through the production transfer loop; oracle = reference client: reply field 207 == "
                "size-k, field 108 == header+size-k (no stored resource fork) or == size (preview), stream = strictly parsed FILP/INFO/DATA "
                "header + exactly content[k:] + (resource fork | nothing | empty MACR header); non-trivial = size>0 and (k>0 or a fork is "
                "stored or size>32 KiB); distinct = hash(name, content, mode, k, forks); in 3 of 5 cases the client's bytes on the transfer connection are cut into segments (random cuts, cuts inside the fixed-size headers, byte by byte); a quarter of the plain files are asked for through an alias (sizes and bytes are the target's); comments of the stored info fork up to 65535 bytes; TestC08Slow (child process, production listeners over loopback): the client reads 1 MiB of a 24 MiB file, pauses 33 s of real time, reads the rest and must hold exactly the file (one case per run); TestC08ManyGrants: a download is granted, 300 .. 131073 further transfers are granted to the same user, then a second download: both transfer connections must carry the file that was granted to them; files 254-300 folders deep with decoys of the same name nearer the root",
        "assumptions": ["the empty 16-byte MACR trailer mobius appends when no resource fork is stored is tolerated (DESIGN C08 interpretation note)",
                        "the encoding of the name inside the flattened-file header is not asserted (not part of the statement)"],
        "needs_cmds": True,
        "quick": {"runs": [{"test": "^TestC08Slow$", "shards": 1, "timeout": 900},
                           {"test": "^TestC08ManyGrants$", "shards": 1, "checks": 12, "timeout": 600},
                           {"test": "^TestC08$", "shards": 15, "checks": 430, "timeout": 600}]},
        "thorough": {"runs": [{"test": "^TestC08Slow$", "shards": 1, "timeout": 900},
                              {"test": "^TestC08ManyGrants$", "shards": 1, "checks": 300, "timeout": 3400},
                              {"test": "^TestC08$", "shards": 15, "checks": 4100, "timeout": 3400}]},
    },
    "C09": {
        "title": "Uploads are exact, published atomically, and resumable after any cut",
        "level": "exploration",
        "rule": "rapid-generated (name, content with boundary sizes up to 256 KiB quick / 8 MiB thorough, 2 or 3 forks, PreserveResourceForks "
                "on/off, target root or Uploads, optional pre-existing file) and a cut script of 0-4 connection cuts at offsets drawn from "
                "{inside the 16-byte preamble, inside the flattened header, first data bytes, 32 KiB boundaries +-1, last byte, after the data "
                "fork, uniform}, each followed by a resume from the offset the server reports, then a final uncut attempt; model = bytes "
                "consumed by the server per attempt (net.Pipe: a cut after n bytes means exactly n bytes were consumed); oracle after every "
                "cut: final name absent unless the data fork is complete, partial file == exact prefix, resume offset == prefix length; after "
                "completion: file == content, no partial, re-upload refused, stale reference harmless, download returns the content; "
                "non-trivial = at least one cut that left a non-empty partial file (followed by a resume); distinct = hash(name, content, cuts); in 3 of 5 cases the client's bytes on the transfer connection are cut into segments (random cuts, cuts inside the fixed-size headers, byte by byte); TestC09DoubleGrant: two uploads of one name granted while the name is free (a second plain grant, or two resume grants after a cut), the first transfer completes, then the second runs: the published file must keep the first upload's bytes and a third request is refused; with PreserveResourceForks and a three-fork upload whose completing attempt delivered its whole stream, the download returns exactly the uploaded resource fork; in a quarter of the cases the name has a history (a file with a resource fork and a comment was deleted through the protocol just before): a two-fork upload must come back without any resource fork and without the earlier file's information fork; TestC09HugeAnnounced: the data fork is announced with 2^24 .. 2^32-1 bytes and the connection dies after 0-40000 of them: no final name, the partial file holds exactly what arrived and the server reports that offset for a resume",
        "assumptions": ["each attempt is written with a single Write (segmentation is C02's subject)", "fork side files (.info_/.rsrc_) left after a cut are not constrained"],
        "quick": {"runs": [{"test": "^TestC09$", "shards": 13, "checks": 250, "timeout": 600},
                           {"test": "^TestC09DoubleGrant$", "shards": 2, "checks": 220, "timeout": 600},
                           {"test": "^TestC09HugeAnnounced$", "shards": 1, "checks": 120, "timeout": 600}]},
        "thorough": {"runs": [{"test": "^TestC09$", "shards": 13, "checks": 2600, "timeout": 3400},
                              {"test": "^TestC09DoubleGrant$", "shards": 2, "checks": 3900, "timeout": 3400},
                              {"test": "^TestC09HugeAnnounced$", "shards": 1, "checks": 2600, "timeout": 3400}]},
    },
    "C10": {
        "title": "Folder transfers reproduce the tree, item by item",
        "level": "exploration",
        "rule": "rapid-generated directory trees (depth <= 4, fan-out <= 6, <= 40 entries quick / 300 thorough, empty folders, zero-length files, "
                "dot-files and dot-folders in download trees, ASCII Mac-Roman names) and (download) a per-file action script send / resume at "
                "offset {size, 1, size-1, proportional} / skip, (upload) a server pre-seeded with complete files and partial .incomplete files, and in a third of the cases a first upload whose "
                "connection dies after a drawn number of bytes of the client's stream followed by the same upload again; "
                "oracle download: announced item count == headers received == depth-first lexical list of entries whose own name has no leading "
                "dot, each once with relative path and kind, size prefix == bytes that follow == header + size - offset, bytes == content[offset:]; "
                "oracle upload: server answers == {next, send, resume:<partial size>} per item (computed from the disk state when the upload starts), "
                "after a cut no file is under its final name with other bytes than the client's and partial data is a prefix, resulting tree == streamed tree, and downloading "
                "the uploaded folder returns the same tree; non-trivial = tree has a nested folder and a file AND (a resume/skip action | "
                "pre-seeded files | an earlier cut upload); distinct = hash(direction, tree, script/seed, cut); uploaded items are streamed with two forks or with a resource fork as third (0, 1 or 699 bytes), with PreserveResourceForks on or off: the items that follow must arrive either way (the download round trip is made when the server stored no forks); a fifth of the item names hold a byte beyond ASCII (what is uploaded comes back under the same bytes); in one case of forty the tree also has a folder of 254-300 tiny files (more items than fit one byte of the 16-bit item count)",
        "assumptions": ["PreserveResourceForks off, plain files without stored forks (the property's quantifier); stored-fork behaviour is only an observation in DESIGN.md"],
        "quick": {"runs": [{"test": "^TestC10Download$", "shards": 8, "checks": 250, "timeout": 600},
                           {"test": "^TestC10Upload$", "shards": 8, "checks": 250, "timeout": 600}]},
        "thorough": {"runs": [{"test": "^TestC10Download$", "shards": 8, "checks": 1900, "timeout": 3400},
                              {"test": "^TestC10Upload$", "shards": 8, "checks": 1900, "timeout": 3400}]},
    },
    "C02": {
        "title": "Segmentation-independent parsing of client byte streams",
        "level": "exploration",
        "rule": "rapid-generated well-formed sessions from a grammar (handshake, login in 1.2.3 or 1.5+agreed flow optionally pipelined with the "
                "first batch, then 1-6 ops: batches of 1-3 requests out of 17 deterministic request kinds, file download, file upload with 2 or 3 "
                "forks, folder download with an action script, folder upload of a small tree) played twice in identically built worlds: once "
                "with one Write per message (baseline) and once under a generated partition (every byte separately / random cuts / dense cuts "
                "inside the first 300 bytes of each message / one cut inside the first 23 bytes / messages coalesced into one Write), applied "
                "to the control connection and to every transfer connection incl. the interactive folder protocols; oracle (metamorphic): "
                "normalised multiset of transactions received by the client and by an observer, results of every transfer, final user list and "
                "snapshot of the config dir + file root are identical (random ids / reference numbers / real-time file dates masked); "
                "non-trivial = the partition put at least one cut strictly inside the first 22 bytes of a message (fixed-size header or length "
                "field); distinct = hash(session, partition mode, partition seed); TestC02Interleave: transfer connection A delivers its 16-byte preamble in two segments and transfer connection B (a download or an upload) delivers its whole preamble in between: both must get / store their own file",
        "assumptions": ["net.Pipe: one server-side Read never spans two client Writes, so the Write sequence is the segmentation the server sees"],
        "quick": {"runs": [{"test": "^TestC02Interleave$", "shards": 1, "checks": 80, "timeout": 600},
                           {"test": "^TestC02$", "shards": 15, "checks": 120, "timeout": 600}]},
        "thorough": {"runs": [{"test": "^TestC02Interleave$", "shards": 1, "checks": 1900, "timeout": 3400},
                              {"test": "^TestC02$", "shards": 15, "checks": 1900, "timeout": 3400},
                              {"fuzz": "^FuzzC02$", "test": "FuzzC02", "fuzztime": "180s", "timeout": 600, "group": 1, "weight": 16}]},
    },
    "C18": {
        "title": "Threaded news keeps every article and threads new ones correctly",
        "level": "exploration",
        "rule": "rapid state machine through the protocol: new bundle, new category (fresh names from a pool of awkward names incl. 255 bytes, "
                "YAML-significant text, Latin-1 bytes; depth <= 3), change poster name (0-255 bytes), post (parent 0 or an existing id, title "
                "0-255 bytes with boundary bias, body in {0,1,50,500,5000,60000} bytes), delete article, delete category/bundle, reload of the "
                "news file + fresh store; after every step every category's article list (strictly parsed by hlref), every article via "
                "get-article, and every path's category listing are compared with a model tree; post oracle: exactly one new id not in use, "
                "requested parent, prev == previously newest id, that article's next == new id, title/poster/body as posted; "
                "operator-edit action: a top-level item is removed from the news file by hand and the file is reloaded into the running server, which must then hold what the file holds; stale-path action: list / get / post / delete / create requests whose path has a component that does not exist (inserted anywhere, or a missing parent followed by an existing name) must show nothing and leave the whole tree as it was; TestC18Burst: 2-8 users post 0..6000-byte articles (optionally replies) to one category at the same instant in 3-10 rounds, with a "
                "concurrent delete of an older article; every accepted post present once under its own id with its content, older articles unchanged, "
                "reload reproduces the category; non-trivial = >= 1 delete and >= 2 posts in the history (every step lists everything), every burst; distinct = hash(history); delete-article requests carry the optional recursive flag (absent, 0 or 1): exactly the named article goes",
        "assumptions": ["creating over an existing name, replies to a missing parent and posts into a missing category are excluded (outside the statement / C03)",
                        "category / bundle names that hold a line break and start with a line break, tab or U+2028 are not in the name pool (known finding yaml-key-block-scalar, decided by TestC18KeyBlockScalar)"],
        "quick": {"runs": [{"test": "^TestC18$", "shards": 12, "checks": 60, "timeout": 600},
                           {"test": "^TestC18Burst$", "shards": 4, "checks": 40, "timeout": 600},
                           {"test": "^TestC18LeadingNewline$", "shards": 1, "checks": 20, "timeout": 300},
                           {"test": "^TestC18KeyBlockScalar$", "shards": 1, "checks": 20, "timeout": 300},
                           {"test": "^TestC18DeepPath$", "shards": 2, "checks": 40, "timeout": 600},
                           {"test": "^TestC18ListBurst$", "shards": 2, "checks": 40, "timeout": 600}]},
        "thorough": {"runs": [{"test": "^TestC18$", "shards": 12, "checks": 1600, "timeout": 3400},
                              {"test": "^TestC18Burst$", "shards": 4, "checks": 1600, "timeout": 3400},
                              {"test": "^TestC18LeadingNewline$", "shards": 1, "checks": 200, "timeout": 600},
                              {"test": "^TestC18KeyBlockScalar$", "shards": 1, "checks": 200, "timeout": 600},
                              {"test": "^TestC18DeepPath$", "shards": 2, "checks": 300, "timeout": 1800},
                              {"test": "^TestC18ListBurst$", "shards": 4, "checks": 970, "timeout": 3000}]},
    },
    "C12": {
        "title": "Chat reaches exactly its audience",
        "level": "exploration",
        "rule": "rapid state machine over up to 6 clients with generated read-chat / send-chat / open-chat privileges and names of 1-40 arbitrary "
                "bytes (13-column padding/truncation, invalid UTF-8): connect, disconnect, public send (plain / emote / options 0 / chat id 0), "
                "invite-new-chat, invite-to-chat, join, leave, decline, set-subject, private send (plain / emote); messages of "
                "{0,1,20,100,8000,8173..8175,8192,10000} bytes (crossing the 8192 limit); after every action each connected client's newly "
                "received chat transactions (106/113/117/118/119) are compared as a multiset with a reference chat model (text re-implemented "
                "from the protocol format); for a decline only the audience is asserted; a 'burst' action and TestC12Burst (6 members, 20-40 rounds per "
                "world) let several members send at the same instant while another member leaves: every staying member must receive every "
                "line exactly once (handlers of different connections run concurrently); non-trivial = some action whose audience was a "
                "strict non-empty subset of the connected clients; distinct = hash(history, client specs); leave requests by users who are not members of the chat (never were, only invited, left already) must not change the membership: the next line by a member reaches every member; clients come in pairs that are two sessions of one account, and an administrator changes an account's read/send/open-chat privileges by set-user while its sessions are connected (the audience follows the account, for every session); requests naming a chat the server does not know (set-subject, send, join, leave, decline) reach nobody and do not disturb later chat traffic (a wedged chat manager is reported by the real-time watchdog); restart action: the server is rebuilt from its files, every session and chat is gone and the accounts carry the chat privileges the files say",
        "assumptions": ["presence notifications (301/302) are ignored here (C13)", "refuse-private-chat option stays off (C13)", "only members send to / act on a chat; unknown chat ids are hostile input (C03)"],
        "quick": {"runs": [{"test": "^TestC12$", "shards": 10, "checks": 100, "timeout": 600},
                           {"test": "^TestC12Burst$", "shards": 6, "checks": 25, "timeout": 600},
                           {"test": "^TestC12ManyChats$", "shards": 2, "checks": 2, "timeout": 900}]},
        "thorough": {"runs": [{"test": "^TestC12$", "shards": 16, "checks": 1600, "timeout": 3400, "group": 0},
                              {"test": "^TestC12Burst$", "shards": 16, "checks": 400, "timeout": 3400, "group": 1},
                              {"test": "^TestC12ManyChats$", "shards": 4, "checks": 15, "timeout": 3000}]},
    },
    "C13": {
        "title": "Presence converges and user IDs address one live user",
        "level": "exploration",
        "rule": "rapid state machine over an administrator and up to 6 clients: connect in the 1.2.3 flow (name and a 2- or 4-byte icon in login) or the 1.5 flow (login, "
                "later agreed with name/2- or 4-byte icon/options/auto-reply), set-client-user-info (name incl. 505/600-byte names, 2- or 4-byte icon, options "
                "present or absent), administrator set-user toggling the disconnect privilege (admin flag), disconnect, kick, private message "
                "to a live or unused id, get-client-info and invitation addressed to an id, and fast-forward of the production client registry "
                "by {1,100,30000,65000,65530,65536,70000} add/delete cycles, and idling for {50 s, 295 s, 311 s, 10 min} of fake time with the production "
                "keep-alive loop running (users become away after 300 s and wake up with their next request: both must reach every roster); TestC13Wrap keeps two users connected, moves the counter to 10 before "
                "the 16-bit wrap and continues; TestC13AwayAtLeave: 1-4 users are kicked or close at the very instant the idle tick marks them away (timers aligned in fake time); TestC13SchedPoint owns one schedule point: an observer fetches the user list on the server's goroutine immediately "
                "before or after the registry Add/Delete of a user who joins, closes or is kicked (1-3 other users, observer with or without an earlier "
                "list), and must converge once everything settled; every client folds the 301/302 notifications it receives into the user list it fetched; after "
                "every step: registry size == live connections, ids distinct, each folded roster == fresh user list restricted to completed "
                "logins (id, name, icon, flags as integers), id-addressed requests reach exactly the holder, refuse-messages and auto-reply "
                "honoured; non-trivial = a change or departure after another client fetched its list; distinct = hash(history)",
        "assumptions": ["each step settles before the next (the statement quantifies over histories; delivery order of two notifications to one client is not constrained)",
                        "users logged in but not yet agreed are unconstrained in other clients' rosters"],
        "quick": {"runs": [{"test": "^TestC13$", "shards": 12, "checks": 60, "timeout": 900},
                           {"test": "^TestC13Wrap$", "shards": 3, "checks": 25, "timeout": 900},
                           {"test": "^TestC13AwayReorder$", "shards": 1, "checks": 40, "timeout": 900},
                           {"test": "^TestC13SchedPoint$", "shards": 1, "checks": 150, "timeout": 900},
                           {"test": "^TestC13AwayAtLeave$", "shards": 1, "checks": 100, "timeout": 900}]},
        "thorough": {"runs": [{"test": "^TestC13$", "shards": 11, "checks": 1300, "timeout": 3400},
                              {"test": "^TestC13Wrap$", "shards": 3, "checks": 500, "timeout": 3400},
                              {"test": "^TestC13AwayReorder$", "shards": 1, "checks": 970, "timeout": 3400},
                              {"test": "^TestC13SchedPoint$", "shards": 1, "checks": 3200, "timeout": 3400},
                              {"test": "^TestC13AwayAtLeave$", "shards": 1, "checks": 2600, "timeout": 3400}]},
    },
    "C17": {
        "title": "Disconnects and bans are enforced at the door",
        "needs_cmds": True,
        "level": "exploration",
        "rule": "rapid state machine in fake time: connect (handshake + login pipelined in one write; 1.2.3 flow, or 1.5 flow agreeing with or without a name field) from one of 7 addresses incl. near-misses "
                "(10.0.0.2 / 10.0.0.20 / 110.0.0.2 / 10.0.0.200), administrator kick with option none / temporary / permanent, advance the fake "
                "clock by {999 ms, 1 s, 61 s, 29 min, 29 min 58 s, 2 h}, direct ban-list add with expiry now + {-1 h, -1 s, -1 ns, 0, +1 ns, +1 s, "
                "+3 s, +30 min} or permanent, restart (fresh stores and server from the files); model = map address -> permanent | expiry, "
                "evaluated at the fake connection instant (exact, no margins); oracle: kicked connection closed after one second and every other "
                "client told (302); a connection is refused (handshake reply + exactly one server message + close, login not processed, not in "
                "the user list, nobody notified) iff the model says banned, otherwise it logs in; ban file reloaded by a fresh BanFile == model; "
                "non-trivial = a reconnect from a banned address, a reconnect after expiry, or a restart with >= 1 ban; distinct = hash(history); TestC17Burst: 2-8 administrators disconnect-and-ban 2-8 different users at the same instant (1-3 rounds), every ban must be in the ban file and enforced at the door before and after a restart; operator-unban action: an entry is removed from the ban file by hand and the file is reloaded, after which the address is admitted again; TestC17Net (child process, production listeners over loopback): an administrator from 127.0.0.2 kicks a user from 127.0.0.3 with a ban: the ban file names 127.0.0.3, that address is refused and 127.0.0.4 is admitted",
        "assumptions": ["testing/synctest fake clock: time.Now() in mobius and in the model are the same instant"],
        "needs_cmds": True,
        "quick": {"runs": [{"test": "^TestC17$", "shards": 13, "checks": 100, "timeout": 600},
                           {"test": "^TestC17Burst$", "shards": 2, "checks": 60, "timeout": 600},
                           {"test": "^TestC17Net$", "shards": 1, "timeout": 600},
                           {"test": "^TestC17Main$", "shards": 2, "checks": 3, "timeout": 900}]},
        "thorough": {"runs": [{"test": "^TestC17$", "shards": 13, "checks": 1600, "timeout": 3400},
                              {"test": "^TestC17Burst$", "shards": 2, "checks": 2400, "timeout": 3400},
                              {"test": "^TestC17Net$", "shards": 1, "timeout": 600},
                              {"test": "^TestC17Main$", "shards": 4, "checks": 40, "timeout": 3400}]},
    },
    "C11": {
        "title": "File views agree and file operations carry the whole file",
        "level": "exploration",
        "rule": "rapid state machine against a reference namespace model: random initial tree (files with content, some with a stored resource "
                "fork, a stored info fork with comment and custom type, or partial .incomplete data; folders to depth 3) under one of 8 "
                "ignore-pattern sets, then new-folder (fresh or over an existing entry), rename, move, delete, set-comment, make-alias (incl. "
                "alias chains and dangling aliases) and 'leave a partial upload' through the protocol; names from the Mac-Roman-representable "
                "set incl. 244/253/254/255-byte names and names containing '.incomplete', '.info_', '.rsrc_', '.bak', 'secret', '@'; after "
                "every step: every folder's parsed file list == model view (ignore patterns, partial under its final name, folder item counts, "
                "sizes, fldr typing), up to 3 listed complete entries per folder are addressed by their listed name for get-info and download "
                "(list size == info size == download size == bytes on disk, list type == info type, comment), and the on-disk tree incl. "
                ".info_/.rsrc_/.incomplete side files == model; TestC11Burst: 2-8 clients ask for the list, get-info or a download of different files "
                "(distinct sizes 0..70000) at the same instant for 5-20 rounds, every answer must carry the size of the file it is about; "
                "non-trivial = a mutating action on an entry that has side files followed by a view check, every burst; distinct = hash(history, ignore set); TestC11BigSizes: a sparse file of 2^24 .. 2^32-1 bytes (boundaries 2^31 and 2^32-1 +-2): size in the list = in get-info = in the download reply = bytes on disk; TestC11WideFolder: a folder with 65536 / 65537 / 65540 visible entries is listed with that number as its size; two of the ignore sets hold a pattern with an inline case-insensitivity flag (which must not spread to the other patterns) and a pattern that is not a regular expression (which matches nothing while the others still apply); rename-and-comment action: one set-file-info request carrying a comment and a new name",
        "assumptions": ["rename/move onto an existing name, rename/move of partial uploads and of aliases, set-comment on folders are excluded (outside the statement); counted in excluded_by_construction",
                        "a mutating request that changes the tree as requested but gets no reply (names whose side-file names exceed 255 bytes) is tolerated and counted"],
        "quick": {"runs": [{"test": "^TestC11$", "shards": 13, "checks": 80, "timeout": 600},
                           {"test": "^TestC11Burst$", "shards": 3, "checks": 100, "timeout": 600},
                           {"test": "^TestC11BigSizes$", "shards": 1, "checks": 60, "timeout": 600},
                           {"test": "^TestC11WideFolder$", "shards": 1, "checks": 1, "timeout": 600}]},
        "thorough": {"runs": [{"test": "^TestC11$", "shards": 13, "checks": 1600, "timeout": 3400},
                              {"test": "^TestC11Burst$", "shards": 3, "checks": 13000, "timeout": 3400},
                              {"test": "^TestC11BigSizes$", "shards": 2, "checks": 970, "timeout": 3400},
                              {"test": "^TestC11WideFolder$", "shards": 1, "checks": 6, "timeout": 3400}]},
    },
    "C14": {
        "title": "Each client receives whole, well-formed, correlated transactions",
        "level": "exploration",
        "rule": "TestC14 (bubble): rapid-generated plans of 2-14 requests by 3-8 clients (board fetch up to 60 KiB, 300-entry file list ~40 KiB, "
                "private messages and broadcasts of 100/33000/40000/60000 bytes aimed at client 1 / everyone, 60 KiB news body, user list, "
                "keep-alive, 8 KiB chat, board post), issued all at once; every server-side connection is wrapped in a FIFO-fair writer (each "
                "Write atomic, served in arrival order) and every client reads slowly (4 KiB per fake millisecond), so an implementation that "
                "emits one transaction in several Writes while another sender waits interleaves deterministically; the same plan is first run "
                "one request at a time (baseline). TestC14Live: one long-lived server with the production outbox pump, real time, real "
                "goroutines, GOMAXPROCS in {4,8,16}, rounds of 1-4 concurrent requests per client from 6 clients, quiescence decided "
                "structurally from goroutine dumps. Oracle: each client's byte stream parses strictly (hlref) into whole transactions with "
                "consistent field prefixes and no trailing partial frame; every reply has the reply flag and the id of a request sent on that "
                "connection, at most once; requests answered alone are answered exactly once under load; uniform-payload messages carry one "
                "message's bytes only; non-trivial (bubble) = some Write had to wait behind another transaction AND a transaction > 32 KiB was "
                "delivered; (live) = a client received > 64 KiB in the round; TestC14Sizes: exhaustive sweep, one server-originated transaction of every "
                "total wire length from 56 to ~9 050 bytes (quick) / ~65 050 bytes (thorough), each must arrive whole with nothing left over "
                "(non-trivial = longer than 512 bytes); distinct = hash(plan) | wire length; the request mix includes requests about another connected user (get-client-info, invite-to-new-chat), whose reply belongs to the requester; the mix also holds account edits that can collide (several administrators creating / deleting the same login, a stale rename onto a taken login); TestC14Stalled: 1..n-2 of 3-7 clients stop reading while 2-6 broadcasts (10 / 5000 / 40000 bytes) are queued for each of them; the other clients' requests are answered exactly once and they receive every broadcast while the stalled ones stay stalled; TestC14InfoTransfers: 2-3 rounds in which one user sends 40 or 120 download requests in one segment while 1-3 others send as many client-info requests about that user: every request of each is answered exactly once in whole transactions (a handler that waits for a lock forever is reported by the wedge watchdog)",
        "assumptions": ["goroutine schedules are sampled, not enumerated; the fair writer removes luck for the multi-Write class only",
                        "live engine inputs are a pure function of VERIF_SEED, the schedule is not reproducible (the failing round is printed)"],
        "quick": {"runs": [{"test": "^TestC14$", "shards": 10, "checks": 25, "timeout": 900},
                           {"test": "^TestC14Sizes$", "shards": 2, "timeout": 600},
                           {"test": "^TestC14Stalled$", "shards": 1, "checks": 40, "timeout": 600},
                           {"test": "^TestC14InfoTransfers$", "shards": 2, "checks": 10, "timeout": 900},
                           {"test": "^TestC14Live$", "shards": 2, "timeout": 600, "weight": 2},
                           {"test": "^TestC14LiveStalled$", "shards": 2, "timeout": 600}]},
        "thorough": {"runs": [{"test": "^TestC14$", "shards": 12, "checks": 780, "timeout": 3400, "group": 0},
                              {"test": "^TestC14Sizes$", "shards": 4, "timeout": 1800, "group": 0},
                              {"test": "^TestC14Stalled$", "shards": 2, "checks": 400, "timeout": 1800, "group": 0},
                              {"test": "^TestC14InfoTransfers$", "shards": 2, "checks": 390, "timeout": 3000, "group": 0},
                              {"test": "^TestC14Live$", "shards": 1, "timeout": 900, "group": 1, "weight": 16},
                              {"test": "^TestC14Live$", "shards": 1, "timeout": 900, "group": 2, "weight": 16, "race": True, "env": {"VERIF_LIVE_BUDGET": "120"}},
                              {"test": "^TestC14LiveStalled$", "shards": 4, "timeout": 900}]},
    },
    "C19": {
        "title": "Message board and agreement are served whole and lose no post",
        "needs_cmds": True,
        "level": "exploration",
        "rule": "TestC19 (bubble): rapid-generated board size and agreement size from {0,100,513,5000,33000,60000} bytes, 2-7 clients, 1-4 rounds in "
                "which 1-6 get-messages requests and 0-4 posts (1-2000 bytes incl. newlines; total kept within the 64 KiB field) are issued at "
                "the same instant, then 2-8 clients logging in at the same instant (both login flows); TestC19Live: the same with real goroutines, "
                "the production outbox pump and GOMAXPROCS in {4,8,16}, plus a poster-side check at the instant the acknowledgement arrives. "
                "Oracle: MessageBoard.txt == every acknowledged post exactly once, newest first, in the protocol's post format (date by pattern), "
                "followed by the initial text; every get-messages reply is the complete board at some instant of its round (a suffix of the final "
                "board starting at a post boundary, not older than posts acknowledged before); every post announced (102) exactly once to every "
                "connected client; every 109 carries exactly the agreement; non-trivial = two reads overlap on a board > 512 bytes, or a read "
                "overlaps a post, or simultaneous logins against an agreement > 512 bytes; distinct = hash(sizes, rounds, logins); in a quarter of the bubble cases a stale MessageBoard.txt.tmp (what a server that died between writing and renaming leaves behind) is present from the start; in a third of the bubble cases the operator edits the agreement file (LF line ends) and reloads it before the simultaneous logins, which must then be shown the new text with converted line ends; the post format is the default, or the operator configured a date layout (NewsDateFormat), a template (NewsDelimiter), or both: the reference renders the configured format; a post sent while the board file cannot be rewritten (unacknowledged: may or may not appear later; everything after it is served as usual); reload requests issued from four goroutines while a round of posts is in flight; the date stamp of every post is the time of the post in the configured layout, cases play at any minute of the day",
        "assumptions": ["goroutine schedules are sampled (bubble: Go scheduler inside the bubble; live: real scheduler)", "board text uses CR line ends (the store converts LF on load)"],
        "quick": {"runs": [{"test": "^TestC19$", "shards": 12, "checks": 60, "timeout": 900},
                           {"test": "^TestC19Live$", "shards": 2, "timeout": 600, "weight": 2},
                           {"test": "^TestC19Main$", "shards": 2, "checks": 3, "timeout": 900}]},
        "thorough": {"runs": [{"test": "^TestC19$", "shards": 12, "checks": 1600, "timeout": 3400, "group": 0},
                              {"test": "^TestC19Live$", "shards": 1, "timeout": 900, "group": 1, "weight": 16},
                              {"test": "^TestC19Live$", "shards": 1, "timeout": 900, "group": 2, "weight": 16, "race": True, "env": {"VERIF_LIVE_BUDGET": "120"}},
                              {"test": "^TestC19Main$", "shards": 4, "checks": 40, "timeout": 3400}]},
    },
    "C20": {
        "title": "A crash never leaves persistent state torn",
        "level": "fault_enumeration",
        "needs_cmds": True,
        "rule": "rapid-generated sequences of 1-5 updates on one store (message board post of 1-5000 bytes; threaded news: create bundle / category, "
                "post with body 1/300/6000 bytes, delete article, delete item; accounts: create / update in place / rename / delete; ban list: "
                "temporary or permanent ban of one of 3 addresses, re-bans); the prefix is applied normally (old state), the last update is "
                "performed by cmd/crashhelper (production stores, main goroutine locked to the main thread) under strace, which is re-run once "
                "per file system call of that thread with SIGKILL injected BEFORE the call (open/creat/write/close/rename/unlink/truncate/"
                "link/mkdir/fsync family; the kill before the final ACK write covers 'after the last call'); after every kill the directory "
                "is loaded with the production constructors: it must load, equal the complete old or the complete new observable value "
                "(board text, news tree, accounts with name/privileges/password hash, ban map), and be new if ACK was printed; "
                "evaluations = killed runs; non-trivial = crash point strictly after the first and not after the last mutating call of the "
                "update; distinct = hash(history, crash point index); exhaustive per generated update (all system-call boundaries); every update that was acknowledged by a process that then ended normally must be visible to a restart (independent per-operation expectation: post at the top of the board file, ban entry with its expiry, account present/renamed/absent with name and privileges, news item present/absent); after every kill point the restarted store makes one more, independent update without any fault: it must be acknowledged, visible, and the stores must equal that update applied to what the restart had loaded (nothing the crash left behind may leak into later updates); the updates before the in-flight one may be bursts of 2-6 commuting updates (bans of different addresses, creations of different accounts / bundles / categories) made at the same time on one store object, each of which must succeed and be visible to a restart; TestC20Acked: 1-6 changes made through the protocol (board post, disconnect with temporary / permanent ban, new / set / rename / delete account, news category / post / delete article); at the instant the client holds the positive reply the configuration directory is copied as a crash would leave it and fresh stores loaded from the copy must hold the change",
        "assumptions": ["fault model = process kill at system-call boundaries (page cache survives); torn single writes and power loss are not modelled",
                        "strace when= counters are per thread: kills caused by another runtime thread reaching the same ordinal are extra crash points, never missing ones"],
        "quick": {"runs": [{"test": "^TestC20$", "shards": 14, "checks": 6, "timeout": 900},
                           {"test": "^TestC20Acked$", "shards": 2, "checks": 60, "timeout": 900},
                           {"test": "^TestC20Main$", "shards": 2, "checks": 6, "timeout": 900}]},
        "thorough": {"runs": [{"test": "^TestC20$", "shards": 14, "checks": 150, "timeout": 3400},
                              {"test": "^TestC20Acked$", "shards": 2, "checks": 1900, "timeout": 3400},
                              {"test": "^TestC20Main$", "shards": 4, "checks": 120, "timeout": 3400}]},
    },
    "C03": {
        "title": "Hostile input is contained to the offending connection",
        "level": "exploration",
        "needs_cmds": True,
        "race_cmds": ("srvchild",),
        "hang_is_violation": True,
        "rule": "TestC03 (bubble): 1-3 well-behaved clients (one is the sentinel) and 1-6 hostile connections per case; hostile material is "
                "derived by structure-aware mutation from well-formed requests of all 43 registered types plus login: field data replaced by "
                "0/1/2/3/4/5-byte, truncated, extended, 255..65000-byte or random values (short ids where 2/4 bytes are converted to arrays, "
                "unknown chat/user/article ids), fields dropped / duplicated / swapped / retyped / added, transaction type replaced by "
                "server-only types, total-size / data-size / param-count / field-size overwritten with boundary values (0,1,2,21,22,0x7fff,"
                "0xffff,0x10000,0xffffffeb..0xffffffff), reply flag set, truncation, garbage tail; pre-login (random / truncated handshake, mutated "
                "login), post-login, pure random bytes, and transfer connections (unknown / valid reference, bad protocol, short preamble; upload "
                "streams with truncated or inconsistent FILP/INFO/DATA headers and declared sizes <= 1 MiB, folder-upload item headers with bad "
                "sizes/counts, folder-download action garbage and malformed resume data); all hostile payloads are issued before anything settles. "
                "Oracle: the test process survives (an unrecovered panic in any server goroutine kills it), the sentinel gets keep-alive and "
                "user-list replies at quiescence (a real-time watchdog turns a wedge into a violation), no well-behaved client is disconnected; "
                "after the hostile connections close: user list == registry == CurrentlyConnected == well-behaved clients, "
                "DownloadsInProgress == UploadsInProgress == 0, every well-behaved client still answered, including get-client-info requests about every connected user; the whole case (a few hundred hostile bytes) allocates less than 512 MiB in total (runtime.MemStats.TotalAlloc; the repaired tree peaks at 58 MiB). TestC03Net (child process, production "
                "ListenAndServe over loopback): 1500 (thorough 12000) connections from as many distinct 127.x.y.z source addresses, in batches of 500, 100 at a time, "
                "with handshake-only / garbage / bad login / immediate close / login + mutated requests / 1.5-flow login that never agrees; a "
                "well-behaved client that reads everything it is sent stays logged in; after every batch the child must still be running, the "
                "sentinel answered and the user list must converge back to 1 entry (closed loop: a falling count is waited for, a count stuck "
                "above 1 for 60 s is a leak), no 'fatal error' in its output; thorough adds a -race build where only race "
                "reports with runtime map frames count. non-trivial = a hostile connection got past handshake and login (bubble) / sent more "
                "than a handshake (net); distinct = hash(hostile descriptions) / hash(source, bytes); the requests that obtain a transfer reference number may lack (or shorten) the transfer-size / item-count fields; the loopback storm also hits the transfer port (garbage, truncated and well-formed preambles with reference numbers nobody was given), and the well-behaved client, whose account has a file root of its own, downloads a file through the transfer port before and after the storm; it also downloads while each batch of the storm is in flight, and before and after the storm opens 40 granted transfer connections at the same instant, each of which must deliver its file",
        "assumptions": ["the hostile account lacks delete-user / modify-user (removing other users' accounts with valid requests is not a containment failure); it may send disconnect requests, the well-behaved account cannot be disconnected",
                        "declared fork sizes <= 1 MiB (the property's bound)", "goroutine schedules are sampled"],
        "quick": {"runs": [{"test": "^TestC03$", "shards": 15, "checks": 100, "timeout": 900},
                           {"test": "^TestC03Net$", "shards": 1, "timeout": 900},
                           {"test": "^TestC03Stalled$", "shards": 1, "checks": 6, "timeout": 900}]},
        "thorough": {"runs": [{"test": "^TestC03$", "shards": 16, "checks": 1900, "timeout": 3400, "group": 0},
                              {"fuzz": "^FuzzC03$", "test": "FuzzC03", "fuzztime": "240s", "timeout": 900, "group": 1, "weight": 16},
                              {"test": "^TestC03Net$", "shards": 2, "timeout": 900, "group": 2, "weight": 8},
                              {"test": "^TestC03Stalled$", "shards": 2, "checks": 60, "timeout": 1800, "group": 2, "weight": 2},
                              {"test": "^TestC03Net$", "shards": 1, "timeout": 900, "group": 3, "weight": 16, "env": {"VERIF_C03_RACE": "1"}}]},
    },
}

# Additions made after the seeded-change waves 9-11 (kept apart so the older text above stays as it was reviewed).
_LATER = {
    "C01": "TestC01Register: the per-tracker send path (hook VerifRegister) with name / description / password lengths from {0,1,50,127,128,200,237..240,254,255}: the tracker socket receives exactly one datagram that equals the reference encoding (non-trivial = record longer than 508 bytes); TestC01 scribbles over the source buffer after constructing a field (the field must have kept its own copy); the date case draws the host's time zone (fixed offsets -12:00..+14:00 in quarter hours): the same wall-clock reading must encode to the same bytes",
    "C02": "folder uploads leave leftovers (partial and complete items) that both partitions must agree on; the session client's replies are compared in order; a banner may be configured (same in both worlds); the sessions also run against a server that keeps resource and information forks in side files (both worlds alike), so the stored forks are part of the compared state",
    "C03": "while the hostile connections end, three goroutines read the server counters (Stats.Values) in a loop: a reader that blocks forever is a wedge (watchdog); TestC03Net: transfer-port storm kinds, the sentinel downloads a file of its own root before, during and after each batch and after bursts of 40 simultaneous transfer connections, and must get the file's bytes; one valid transfer grant presented on three transfer connections at the same instant (XRef replayed); TestC03Stalled: 63-200 logged-in peers stop reading while a broadcast waits for each of them: the well-behaved client's requests are answered, a newcomer can log in, and the user list is back to the well-behaved clients once the peers are gone; in a third of the cases a hostile user invites the sentinel to a new private chat and leaves it at once, and the sentinel accepts: it gets an answer and stays connected; in a third of the cases a hostile user has a user of the privilege-less account disconnected with a well-formed request (the counters must still come out right)",
    "C04": "logins whose file names are odd (.ops, a.b, x.yaml, -dash, ~t, #h), the data-size word of the login transaction varied, creations that must be refused (login with a path separator, 250 bytes) made before the attempt: none of them may open a door; logins that are an existing login (or the empty guest login) followed by one or two NUL bytes, with that account's password: another byte string, no account; TestC04Net (child process, production accept loop): a wrong password, an unknown login and a correct login from a banned address each get the handshake reply, exactly one error reply or ban notice, and then the close (within 30 s)",
    "C05": "cells added: ../-names in upload / rename, side-file kinds, an account record without a name (the logged-in name must be the one the account allows); TestC05GhostCategory: post-article to a news path that does not exist, by a requester without create-category / create-bundle: no grouping may appear in memory or in the file",
    "C06": "TestC06RenameForm (update-user rename form), TestC06GraceWindow, TestC06TwoCreators (two creators at one instant: neither account holds a bit its creator lacks), TestC06Bystander (a protected user sharing the kicked user's address is neither dropped nor refused), schedule point before registry delete in TestC06LoginWindow; creators whose privileges were set at run time (set-user) keep the 24 bits that name no privilege, and may request them: the created account holds exactly what was requested; creations also arrive as the second entry of a batch request whose first entry edits another account (each entry is judged on its own; the edited account must still be there); in TestC06Kick a third of the requests against protected users carry the user id four bytes wide (sent from an administrator connection of their own)",
    "C07": "aliases are made in one folder and then moved to another (shallower or deeper) one: the link must still resolve inside the root; an account with a root of its own is edited through set-user and the server restarted; the file root is spelled with trailing separators / dot segments / relative forms; in a third of the per-account-root cases the root folder has been renamed away before the requests (the account then has no files; nothing of the server's tree may be touched, listed or disclosed instead); a third of the folder uploads go into a folder that holds partial files exactly where the server will look for the streamed items (the leftovers of a cut earlier upload), so that the resume branch is taken with traversal item paths; TestC07LinkedRoot: the file root is a symbolic link; delete / rename / move / comment / alias requests whose name resolves to the root itself (.., empty, ., /, dir/..) with and without a path: nothing outside the real root changes - the link and its would-be side files stay - and the root stays reachable",
    "C08": "client-info requests between grant and transfer; comments of 32 600-65 535 bytes; paths 254-300 folders deep; TestC08ManyGrants: up to hundreds of outstanding grants (files and banner) redeemed in drawn order, each delivers its own bytes; TestC08Slow (child process): 24 MiB file, the reader pauses 33 s after the first MiB and must still get every byte; previews that carry a resume offset (bare data from the offset on); resume data layouts: data fork entry alone, followed by a resource fork entry, or with the fork type in lower case / empty (then the server may resume at the offset or at 0, reply and stream must agree); a stored information fork may carry 1 or 3 bytes of padding after its comment",
    "C09": "a download of the name while the upload is partial (must not serve the partial under the final name); info forks without the comment-size word; TestC09HugeAnnounced: announced data-fork sizes of 2^31..2^32-1 with a stream that ends early: no file under the final name, the partial holds a prefix; between cut and resume a move request for the unfinished entry: whether the server leaves it or takes the partial data along, the name is not published and the upload goes on where the partial data is; slow writers: 2 / 11 / 45 fake seconds pass between the segments of the client's stream; every uploaded information fork carries two different dates; with kept forks a later download returns type, creator, both dates and the comment as uploaded",
    "C10": "download trees are decorated with stored resource / info side files, aliases and leftovers of interrupted uploads (X.incomplete): each item's bytes must match its own header and names arrive unchanged; PreserveResourceForks drawn in downloads; after preserve uploads the stored forks are checked; a third of the decorated files have an information fork only (what set-comment leaves behind): three forks with an empty resource fork are announced and the rest of the tree must still arrive; one name in fifteen is padded to 200-244 bytes (files; the .incomplete suffix must still fit the file system) or 244-255 bytes (folders); a sixth of the pre-seeded places hold an alias whose target is gone: there is no file yet, the item must be sent and stored; now and then an entry below has the name of the transferred folder itself (a file, or a folder holding a file of that name)",
    "C11": "comments of 33 000 / 60 000 bytes; every fourth listed file is downloaded through to its bytes; TestC11BigSizes: sparse files of 2^24..2^32-1 bytes, list == get-info == download reply == size on disk; TestC11WideFolder: folders of 65 536 / 65 537 / 65 540 visible entries plus hidden ones are listed with their entry count; create-folder requests whose path names a folder that is not there: nothing appears on disk; file names draw their extension from the server's type table plus thirty common ones it does not know; a folder is given a comment and then deleted: nothing of it stays on disk",
    "C12": "restarts (chats are gone afterwards), invitations by non-members, the refuse-private-chat preference (decline notice names the decliner, never addressed to chat 0), names containing %, unknown chat ids other than 0; users take another name in mid-session (with or without the options field) and speak under it; TestC12ManyChats: private chats are opened until the server hands out an id whose low or high half is zero (up to 300 000; non-trivial = found): a line said there reaches the member, with that chat id, and no connected non-member",
    "C13": "set-user edits of an account whose user is connected (disconnect / same / other name), followed by the same presence comparison; names with carriage returns and line feeds; chat lines (plain and emote) between presence events",
    "C14": "latecomers who log in while the plan runs (agreements of several sizes), a 300-article news listing, requests naming unknown chats sent by a connection of their own; TestC14Stalled: the stalled clients start reading again after 1 s .. 10 min of fake time and must receive whole transactions only, every queued broadcast at most once; disconnect requests naming user ids nobody has (with and without ban option), sent by the stranger connection; request ids 0, 0xFFFFFFFF and 0x80000000 (each at most once per client); TestC14Stalled: now and then 4200 or 6000 chat lines pile up for the stalled clients; TestC14LiveStalled (production pump, real scheduler): one peer stops reading while 4200-9000 chat lines are said: the active clients receive every line and every reply",
    "C15": "passwords of 73 / 100 / 255 bytes (bcrypt's limit is 72), names of 300 / 500 / 2000 bytes, new-user over a file that another login's record occupies; no two accounts may share a stored password hash (also the password-less ones); the administrator edits the name of the account it is logged in with and asks for it: get-user, list-users and the file show the new name; TestC15OperatorFile: the account lives in a file that is not named after its login (six file-name patterns sorting before and after <login>.yaml); 1-4 operations out of edit / password change / rename / delete / restart, and after each the listing, a fresh manager and login attempts with every password must agree with the model; TestC15ManyAccounts: 254-513 accounts exist as files at start-up (plus 0-3 made through the protocol): the listing shows each once, a sample logs in; TestC15OperatorFile also gives the login of a deleted account to a new one; in a third of TestC15OperatorFile's cases the operator's file is in the older numeric form (migrated at start-up); a new-user request for the login of such an account is refused",
    "C16": "TestC16Wire: creation of shadow logins (./u, u/., U) next to an existing one, set-user spelled in another case, and the account listing fetched before and after an edit must show the edit; TestC16Authz also runs every cell with each of the 24 bits that name no privilege alone (delivered by set-user): nothing may be granted; TestC05 keeps random undefined bits on the set-user path",
    "C17": "a protected account; kicks aimed at a user who is leaving at that instant; reloads of the ban file racing a ban (the in-memory answer is compared too); TestC17Net (child process, production accept loop): three clients from three loopback addresses, one is kicked with a ban: only its address is refused afterwards, the others reconnect; the ban file cannot be rewritten for a while (its temporary name is taken by a folder): a disconnect-with-ban that is acknowledged must be enforced by the running server; restarts and reloads go by the file; TestC17Main: the repository's main program as a child process with a configuration directory of the operator's choice (created by -init): a guest is disconnected with a temporary or permanent ban; the address is refused and another admitted, before and after a restart (SIGTERM or SIGKILL, with or without -init), and the ban file of that directory lists the address; a banned peer sends a valid login, a wrong password, an unknown login or only its handshake: each time exactly the ban notice and the end of the connection; an address is banned while a connection from it is open and silent; its handshake and login afterwards get the ban notice and the close",
    "C18": "stale paths whose last component is missing; the path field absent / empty / zero-count / truncated; delete-item followed by listings of the former sub-paths; posts after deletions keep their parent; TestC18DeepPath: bundles nested 1-40 deep with names of 1-255 bytes (encoded path up to ~5.3 KiB), a category with an article and a reply at the bottom, then nothing / reload / restart: every level lists exactly its child, the articles are listed and fetched, deleting the innermost bundle removes exactly it (non-trivial = encoded path longer than 512 bytes); the operator adds a category to the news file and reloads, a client deletes it: the file a restart would load does not hold it any more; TestC18ListBurst: 3-8 connections list the children of different bundles (3-124 categories each) and of the root at the same instant, for 3-8 rounds: every reply holds exactly the children of the path it asked about; now and then a grouping is created below a category, or an article posted to a bundle's path (the path names an item; it holds what it is given)",
    "C19": "reloads that fail (unreadable file) and posts that fail (unwritable file; the post may or may not count, nothing else may change), reloads during rounds, operator trims of the board between reads, the date stamp of each post compared with the fake clock (minute of day drawn); posts, the initial board and the agreement hold Mac Roman bytes that are not valid UTF-8; TestC19Main: the repository's main program as a child process: 1-3 times the operator rewrites Agreement.txt or MessageBoard.txt (20 / 600 / 33000 bytes) and sends SIGHUP - in half of the cases while Banlist.yaml or ThreadedNews.yaml cannot be parsed at that moment; the next guest is shown / the next reader is served exactly the rewritten text and the server is still running; when no operator edit is in the case, one more client reacts to every new-post announcement by asking for the board at once: the board it is served holds that post; a post made while the board file cannot be written is announced only if the board then holds it",
    "C20": "accounts in the legacy storage form are migrated at start-up (privileges compared over the defined bits); after every kill point the touched accounts are also deleted and, for a crashed rename, the new login is created afresh: both must be acknowledged and no other account may vanish; TestC20Acked also compares the in-memory category with the news file at each acknowledgement and includes news replies; after every kill point the accounts the interrupted update was about are also edited in place: the edit must be acknowledged, loaded by the next restart and leave every other account alone; TestC20Main: the repository's own main program (built from the current tree) is started with -init on a missing configuration directory, the administrator of the default configuration makes 1-4 acknowledged changes over loopback TCP (delete / rename / edit the default guest account, create and delete accounts, board post, news category), the process is killed at the last acknowledgement and started again with or without -init: the account directory (production loader) must hold exactly the accounts the acknowledged changes leave, board and news files the posts and categories, and the restarted server must admit the remaining accounts and refuse the deleted and renamed-away logins; after every kill point of a rename that did not go through, one process repeats the rename, creates a new account under the old login and edits it (no restart in between): both accounts are what the next restart loads",
}
for _k, _v in _LATER.items():
    PROPS[_k]["rule"] += "; LATER ADDITIONS: " + _v
