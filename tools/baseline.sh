#!/bin/bash
# Runs the repository's own test suite (guard OFF) on a scratch copy of /repo's working
# tree (the suite rewrites fixture files, so it is never run inside /repo).
set -u
export GOFLAGS=-mod=mod GOPROXY=off GOSUMDB=off GOTOOLCHAIN=local
D=$(mktemp -d /tmp/verif-baseline.XXXXXX)
trap 'rm -rf "$D"' EXIT
rsync -a --exclude .git /repo/ "$D/repo/"
cd "$D/repo" && go build ./... && go test -vet=off -count=1 -timeout 25m "$@" ./...
