#!/bin/bash
# usage: mut.sh <PROP> <file-in-repo> <python-expr old> <new>   (applies a one-line textual mutation in /repo, runs the quick check, reverts)
# or:    mut.sh <PROP> --patch <patchfile>
set -u
PROP=$1; shift
cd /repo || exit 3
if [ -n "$(git status --porcelain --untracked-files=no)" ]; then echo "repo dirty"; exit 3; fi
if [ "$1" = "--patch" ]; then
  git apply "$2" || { echo "patch failed"; exit 3; }
else
  python3 - "$1" "$2" "$3" <<'PY' || { git checkout -- .; exit 3; }
import sys
p,old,new=sys.argv[1:4]
s=open(p).read()
if s.count(old)!=1:
    print("mutation anchor count", s.count(old)); sys.exit(1)
open(p,'w').write(s.replace(old,new))
PY
fi
export GOFLAGS=-mod=mod GOPROXY=off GOSUMDB=off GOTOOLCHAIN=local
if ! go build ./... ; then echo "MUTANT DOES NOT COMPILE"; git checkout -- .; exit 3; fi
cd /verif && timeout 1200 ./verif check $PROP --tier ${TIER:-quick} > /tmp/mut-$PROP.log 2>&1; rc=$?
cd /repo && git checkout -- .
echo "mutant result for $PROP: rc=$rc ($( [ $rc = 1 ] && echo CAUGHT || echo MISSED ))"; grep -m3 "VIOLATION\|rapid\] failed\|inconclusive" /tmp/mut-$PROP.log
exit 0
