#!/bin/bash
# usage: mut.sh <PROP> <file-in-repo> <old> <new>     one textual mutation (anchor must occur exactly once)
#        mut.sh <PROP> --patch <patchfile>
# The mutation is applied to a scratch copy of /repo and the quick check is run against that copy
# (tools/isolated.sh): /repo and /verif/evidence are not touched.
set -u
PROP=$1; shift
if [ "$1" = "--patch" ]; then exec /verif/tools/isolated.sh "$2" $PROP; fi
W=$(mktemp -d /tmp/mutwt.XXXXXX); rmdir $W
git -C /repo worktree add -q --detach $W HEAD || exit 3
python3 - "$W/$1" "$2" "$3" <<'PY' || { git -C /repo worktree remove --force $W; exit 3; }
import sys
p,old,new=sys.argv[1:4]
s=open(p).read()
if s.count(old)!=1:
    print("mutation anchor count", s.count(old)); sys.exit(1)
open(p,'w').write(s.replace(old,new))
PY
P=$(mktemp /tmp/mut.XXXXXX.diff); git -C $W diff > $P; git -C /repo worktree remove --force $W
/verif/tools/isolated.sh $P $PROP; rm -f $P
