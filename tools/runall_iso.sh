#!/bin/bash
# runs every claimed check against /repo but writes evidence/replays to a scratch dir (does not disturb /verif/evidence)
TIER=${1:-quick}; S=$(mktemp -d /tmp/runall.XXXXXX)
cd /verif
for id in $(python3 -c "import json; print(' '.join(c['property_id'] for c in json.load(open('MANIFEST.json'))['checks']))"); do
  s=$(date +%s)
  out=$(VERIF_EVIDENCE_DIR=$S/evidence VERIF_REPLAY_DIR=$S/replays ./verif check $id --tier $TIER 2>&1); rc=$?
  e=$(( $(date +%s) - s ))
  echo "$id seed=${VERIF_SEED:-1} rc=$rc ${e}s | $(echo "$out" | grep '^verif:' | tail -1)"
  if [ $rc != 0 ]; then echo "$out" | tail -25; fi
done
rm -rf $S
