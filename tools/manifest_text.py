NOTES = ("Property-based testing / fuzzing only (pgregory.net/rapid v1.3.0 + native go fuzz, go1.26.8 for testing/synctest). "
         "Every check: ./verif check <ID> --tier quick|thorough; exit 0 held / 1 VIOLATION / 2 inconclusive. "
         "Known findings: /verif/known_findings.txt. See DESIGN.md.")

_PENDING = "check not built yet in this session (work in progress; see DESIGN.md section 6) - not claimed until its harness exists and is silent on the unchanged tree"
NOT_APPLICABLE = [{"property_id": "C%02d" % i, "reason": _PENDING} for i in range(1, 21)]

TEXT = {
    "C01": {
        "engine": "E5 codec PBT + E4 child server (tracker registration)",
        "technique": "property-based testing (rapid): differential against an independent reference codec + round-trip, over generated objects and generated read-buffer scripts; native fuzzing via rapid.MakeFuzz in thorough",
        "level_text": "Generated-input exploration: every encoder kind is drained through generated buffer-size scripts and must emit exactly the bytes of an independently written Hotline codec (so consistent encoder+decoder edits are caught), terminate, and decode back. No exhaustiveness is claimed; the evidence reports counts per kind and the multi-read fraction.",
        "design_ref": "DESIGN.md section 2, C01",
        "level_note": "Trusted base: harness/hlref (reference codec written from the protocol document), rapid, Go runtime. Large objects are only paired with buffers >= len^2/2MiB (harness cost bound).",
    },
    "C04": {
        "engine": "E1 bubble world + E4 child server (refused logins through the production accept loop)",
        "technique": "property-based testing (rapid) of the real connection loop in a synctest bubble against a login reference model, with observers and filesystem snapshots as effect oracles",
        "level_text": "Generated-input exploration of the login gate: account databases, handshake variants, near-miss credentials, pipelined state-changing requests and ban states are generated; the oracle is an explicit model of 'logged in' plus exact expectations on the bytes the peer receives, on-disk state and what other users receive. Sampled, not exhaustive.",
        "design_ref": "DESIGN.md section 2, C04",
        "level_note": "Trusted base: hlref codec/client, hlsim world (net.Pipe connections, replica of the outbox pump loop calling the production sendTransaction), testing/synctest, rapid.",
    },
    "C16": {
        "engine": "E5 codec PBT",
        "technique": "exhaustive enumeration of single/pair/all-but-one privilege bitmaps plus rapid sampling, against an independent privilege-name table; round-trip through both storage forms and through the account manager's migration; wire check at login",
        "level_text": "Exhaustive over the sub-spaces the property names (all 64 single bits, all 780 pairs of defined privileges, all 40 all-but-one) and sampled beyond; each bitmap is written by mobius and parsed generically against the reference names, loaded back, loaded from the legacy array form (directly and through the manager's migration) and compared bit for bit; the 354 bytes sent at login are compared with the stored bitmap.",
        "design_ref": "DESIGN.md section 2, C16",
        "level_note": "Trusted base: hlref.PrivilegeNames / hlref.Access bit numbering (independent of mobius), yaml.v3 generic parser, rapid.",
    },
    "C15": {
        "engine": "E1 bubble world",
        "technique": "model-based stateful property testing (rapid state machine) through the protocol against a reference account map; login attempts, list-users, directory contents and a fresh manager as views",
        "level_text": "Generated histories of account edits through all four editing requests, with restarts; after every step the three views the property names (who can log in, what administrators see, what is on disk) are compared with one model. Sampled histories, bounded length (~30 steps).",
        "design_ref": "DESIGN.md section 2, C15",
        "level_note": "Trusted base: hlref, hlsim, rapid, synctest; bcrypt at MinCost as shipped.",
    },
    "C05": {
        "engine": "E1 bubble world",
        "technique": "table-driven property-based testing: independent privilege table x generated requester bitmaps (enumerated single bits + rapid-generated backgrounds), metamorphic has/hasn't oracle with effect observers, snapshots and observer clients",
        "level_text": "Every one of the 43 registered transaction types is placed in one or more cells (by target kind) with its governing privilege numbers taken from the protocol's privilege list; each cell is run with every single-privilege bitmap, all, none, all-but-one-governing (enumerated) and with rapid-generated 64-bit backgrounds. Both directions are checked: no effect without the privilege (error reply, nothing changes anywhere observable) and no refusal with it.",
        "design_ref": "DESIGN.md section 2, C05",
        "level_note": "Trusted base: the cell table in harness/props/c05_test.go, hlref, hlsim, rapid, synctest. Field contents are fixed valid values per cell (the property's 'all field contents' is covered for well-formed requests only; hostile fields are C03/C07).",
    },
    "C06": {
        "engine": "E1 bubble world",
        "technique": "property-based testing (rapid) of both account-creation requests against the subset relation over generated bitmap pairs, exhaustive enumeration of the one-extra-bit positions, and generated kick scenarios in fake time",
        "level_text": "Generated bitmap pairs biased to the boundary of the subset relation (one extra bit at each of the 64 positions is enumerated for both creation paths); the created account is inspected in memory, on disk, after reload and at its own login. Kick scenarios check connection, ban list (memory, file, fresh load) and reconnect for protected targets under every ban option.",
        "design_ref": "DESIGN.md section 2, C06",
        "level_note": "Trusted base: hlref.Access bit numbering, hlsim, rapid, synctest fake clock (5 s settle covers the 1 s delayed disconnect).",
    },
    "C07": {
        "engine": "E1 bubble world",
        "technique": "property-based testing / structure-aware fuzzing (rapid, native go fuzz via rapid.MakeFuzz in thorough) of every file- and account-touching request incl. the transfer phase, with a traversal-token dictionary; invariant oracle = directory snapshots outside the legitimate subtree + decoy markers",
        "level_text": "Generated hostile names, path items, new names, destinations, folder-upload item paths and logins are sent through the real handlers and transfer loops; after every request the whole sandbox outside the subtree the request may legitimately touch must be byte-identical, no alias may point outside, and no decoy content may appear in any reply or stream. Sampled.",
        "design_ref": "DESIGN.md section 2, C07",
        "level_note": "Trusted base: hlsim snapshot/diff, the decoy layout, hlref path encoder, reference transfer client. Symlinks pre-planted by an operator inside the root are not modelled.",
    },
    "C08": {
        "engine": "E1 bubble world + E4 child server (slow reader)",
        "technique": "property-based testing (rapid) with an independent reference download client: differential between bytes on disk and the strictly parsed transfer stream / reply size fields",
        "level_text": "Generated files (boundary sizes, names, stored forks) are downloaded plain, resumed at generated offsets and previewed through the real request handler and transfer loop; the reference client parses the stream strictly and compares every byte with the file on disk and every announced size with what follows.",
        "design_ref": "DESIGN.md section 2, C08",
        "level_note": "Trusted base: hlref flattened-file parser, hlsim transfer client, x/text Mac-Roman table (shared with mobius). Sizes bounded at 8 MiB (thorough).",
    },
    "C09": {
        "engine": "E1 bubble world",
        "technique": "property-based testing with generated fault sequences (connection cuts at generated byte offsets, then resume) against a byte-exact model of what the server consumed; round trip through the reference download client",
        "level_text": "Generated cut scripts over the upload stream (including cuts inside the preamble and the flattened header, at 32 KiB copy-buffer boundaries and after the data fork) are followed by resumes from the server-reported offset; after every cut and at completion the on-disk state is compared with the exact model. Cut offsets are sampled, not enumerated.",
        "design_ref": "DESIGN.md section 2, C09",
        "level_note": "Trusted base: net.Pipe semantics (a Write returns only when consumed), hlsim transfer client, hlref. Fault model: client-side connection close at a byte offset; server crashes are C20.",
    },
    "C10": {
        "engine": "E1 bubble world",
        "technique": "property-based testing (rapid) of both folder-transfer protocols with an independent reference client state machine over generated trees and action scripts; round trip upload -> download",
        "level_text": "Generated trees and per-item client choices are driven through the real folder download / upload loops; the reference client checks item count, order, paths, kinds, size prefixes and bytes item by item, the server's per-item answers during upload, the resulting tree, and the upload->download round trip.",
        "design_ref": "DESIGN.md section 2, C10",
        "level_note": "Trusted base: hlsim folder-transfer client (written from the protocol description), hlref parsers. Trees bounded at 300 entries / depth 4.",
    },
    "C02": {
        "engine": "E1 bubble world",
        "technique": "metamorphic property-based testing (rapid; native go fuzz via rapid.MakeFuzz in thorough): the same generated session bytes under a baseline and a generated partition into Write calls must produce identical replies, transfers and server state",
        "level_text": "Sessions come from a grammar of well-formed control and transfer streams; partitions include single bytes, dense cuts inside every fixed-size header (handshake, 20-byte transaction header and length fields, HTXF preamble, FILP/INFO/DATA headers, folder item prefixes, action words) and coalescing. Two full worlds are compared per case. Partitions are sampled from 2^(n-1).",
        "design_ref": "DESIGN.md section 2, C02",
        "level_note": "Trusted base: net.Pipe read/write semantics, hlsim reference client, normalisation (ids of server-initiated transactions, reference numbers, chat ids, file dates masked).",
    },
    "C18": {
        "engine": "E1 bubble world",
        "technique": "model-based stateful property testing (rapid state machine) through the protocol against a reference news tree, with strict reference decoding of list encodings and reload of the persisted file",
        "level_text": "Generated histories of create / post / reply / delete / reload; after every step the complete observable news tree (article lists, each article, category listings at every path) is compared with the model, so lost or altered articles, wrong links, unparseable list encodings and fields lost on reload are all visible.",
        "design_ref": "DESIGN.md section 2, C18",
        "level_note": "Trusted base: hlref news decoders, hlsim, rapid. Histories ~30 steps, depth <= 3, bodies <= 60000 bytes. One known finding (category/bundle names yaml.v3 cannot write back as mapping keys) is outside the name pool and decided by its own test.",
    },
    "C12": {
        "engine": "E1 bubble world",
        "technique": "model-based stateful property testing (rapid state machine): every client's received chat traffic after each step vs a reference chat/membership model with independently implemented text formatting",
        "level_text": "Generated histories of chat actions by clients with differing privileges; at quiescence after every step the exact multiset of chat transactions each connected client received is compared with the model (who, how many, which text), so a wrong audience, duplicate or missing delivery, wrong truncation or padding is visible.",
        "design_ref": "DESIGN.md section 2, C12",
        "level_note": "Trusted base: reference model in harness/props/c12_test.go (format from the protocol document), hlsim, synctest quiescence.",
    },
    "C13": {
        "engine": "E1 bubble world",
        "technique": "model-based stateful property testing (rapid state machine) with notification-folding reference clients; long histories across the 16-bit id wrap are reached by driving the production client registry directly",
        "level_text": "Generated presence histories; the oracle is the equivalence the property states: the roster every client obtains by folding the notifications it received equals a fresh user list, after every step; id uniqueness is checked on the registry and through id-addressed requests (message, invitation, info, kick). Histories with more than 65,535 connections are produced by fast-forwarding the real registry while users stay connected.",
        "design_ref": "DESIGN.md section 2, C13",
        "level_note": "Trusted base: folding rules of the reference client (protocol document), hlsim, synctest. The fast-forward uses throw-away registry entries (Add/Delete on the production MemClientMgr), not 65k real logins.",
    },
    "C17": {
        "engine": "E1 bubble world + E4 child processes (production listeners; the main program)",
        "technique": "model-based stateful property testing (rapid state machine) under a fake clock: ban model with exact expiry instants vs the real connection loop, ban file and restart",
        "level_text": "Generated histories of kicks, bans, clock advances, reconnects from exact and near-miss addresses and restarts; because the clock is synctest's fake clock the model's 'banned at t' is exact, including the instants right at expiry. Every connection attempt is checked in both directions (refused iff banned) together with its side effects.",
        "design_ref": "DESIGN.md section 2, C17",
        "level_note": "Trusted base: synctest fake time, hlsim, reference client. IPv4 addresses from a fixed pool of 7; restart = rebuild of all stores and the server from disk in-process.",
    },
    "C11": {
        "engine": "E1 bubble world",
        "technique": "model-based stateful property testing (rapid state machine): file list, get-info, download reply and the on-disk tree compared with a reference namespace model after every generated file-management request",
        "level_text": "Generated histories of file-management requests on generated trees; three views (list, info, download reply) and the disk are reconciled with one model after every step, entries are always addressed by the name the list showed, and side files are tracked explicitly so a fork left behind by move/rename/delete is seen immediately.",
        "design_ref": "DESIGN.md section 2, C11",
        "level_note": "Trusted base: reference namespace model in harness/props/c11_test.go, hlref decoders, x/text Mac-Roman table (shared with mobius: encoder/decoder inverse-ness is checked, not the table), Go regexp for ignore patterns.",
    },
    "C14": {
        "engine": "E1 bubble world + E2 live world",
        "technique": "property-based testing over generated concurrent request mixes with a harness-owned I/O schedule (FIFO-fair writer, slow readers, fake clock) plus stress sampling of real goroutine schedules with the production pump; oracle = strict reference framing parser + request/reply correlation + differential against a sequential baseline",
        "level_text": "The bubble engine makes the multi-Write interleaving class deterministic (the harness owns write fairness and reader pace), the live engine samples real schedules at several GOMAXPROCS values with the unmodified outbox pump. Both decide the property on the bytes each client actually received. Schedules are sampled: absence of other races is not established.",
        "design_ref": "DESIGN.md section 2, C14",
        "level_note": "Trusted base: hlref strict stream decoder, hlsim FairWriter (a ticket lock modelling a socket write lock), structural quiescence predicate over runtime.Stack (all goroutines with mobius/hlsim frames parked on 3 consecutive dumps).",
    },
    "C19": {
        "engine": "E1 bubble world + E2 live world + E4 child process (the main program)",
        "technique": "property-based testing over generated concurrent reader/poster/login mixes; oracle = history invariant (every reply is a version of the board; final board is a permutation-free concatenation of acknowledged posts) in a synctest bubble, plus stress sampling of real schedules with the production pump",
        "level_text": "Generated concurrent mixes of board reads, posts and simultaneous logins at board/agreement sizes around the 512-byte ReadAll buffer and up to the 64 KiB field; each reply must be the whole board at some instant, no acknowledged post may be missing from MessageBoard.txt (also at the instant of the acknowledgement, live engine), announcements are counted per client. Schedules are sampled.",
        "design_ref": "DESIGN.md section 2, C19",
        "level_note": "Trusted base: board post format re-implemented from the protocol template, hlsim, structural quiescence predicate (live).",
    },
    "C20": {
        "engine": "E3 crash enumerator + E1 bubble world (acknowledgement instants) + E4 child process (the main program)",
        "technique": "fault enumeration over generated inputs: rapid generates update sequences, strace injects SIGKILL before every file system call of the in-flight update, the reloaded stores are compared with the old and the new value",
        "level_text": "For each generated update every system-call boundary of the updating process is materialised as an on-disk state (exhaustive per update) and reloaded with the real constructors; update sequences and payload sizes are sampled by rapid. Exactly the property's quantifier (crash points = system-call boundaries) within the stated fault model.",
        "design_ref": "DESIGN.md section 2, C20",
        "level_note": "Trusted base: strace 6.1 syscall injection (kill lands before the call executes - probed), the helper's thread pinning, production constructors as the reload oracle. No torn-write / fsync modelling.",
    },
    "C03": {
        "engine": "E1 bubble world + E4 child server",
        "technique": "structure-aware fuzzing / property-based testing (rapid, native go fuzz in thorough): hostile streams derived by mutation from valid sessions, run concurrently with well-behaved clients; invariant oracle on process survival, sentinel liveness at exact quiescence, and post-state; plus a child-process engine for the real accept loops",
        "level_text": "Generated hostile byte streams on control and transfer connections, before and after login, concurrently with well-behaved clients. Liveness is decided without latency thresholds in the bubble (reply present when the world is quiescent; a real-time watchdog reports a wedge). The child-process engine reaches code the in-process engines cannot (Serve, per-address limiter table) and observes process death directly. Sampled inputs and schedules.",
        "design_ref": "DESIGN.md section 2, C03",
        "level_note": "Trusted base: mutation grammar over hlref encodings, hlsim, synctest; loopback source-address binding for the child engine; race reports are filtered to map accesses (the only race class the runtime turns into process death).",
    },
}
