#!/usr/bin/env python3
"""Generates /verif/MANIFEST.json from tools/propcfg.py + tools/manifest_text.py."""
import json, os, subprocess, sys
sys.path.insert(0, os.path.dirname(os.path.abspath(__file__)))
from propcfg import PROPS
from manifest_text import TEXT, NOT_APPLICABLE, NOTES

hooks_commits = subprocess.run(["git", "-C", "/repo", "log", "--format=%H %s", "--grep=^verif hooks"], stdout=subprocess.PIPE, text=True).stdout.strip().splitlines()
m = {
    "version": 1,
    "setup_cmd": "./verif setup",
    "hooks": {
        "guard": "verif (Go build tag)",
        "enable": "go1.26.8 test -tags verif (harness module /verif/harness replaces github.com/jhalter/mobius => /repo, so every check recompiles /repo's working tree)",
        "baseline_off_cmd": "/verif/tools/baseline.sh -json",
        "source_commits": [c.split()[0] for c in hooks_commits],
        "add_only": True,
    },
    "engines": [
        {"name": "E1 bubble world", "path": "harness/hlsim", "serves_properties": ["C02", "C03", "C04", "C05", "C06", "C07", "C08", "C09", "C10", "C11", "C12", "C13", "C14", "C15", "C16", "C17", "C18", "C19"],
         "kind_free_text": "real mobius server + handlers + file-backed stores in a testing/synctest bubble (fake clock, exact quiescence), driven by rapid generators through an independent reference client over net.Pipe"},
        {"name": "E5 codec PBT", "path": "harness/props", "serves_properties": ["C01", "C16"],
         "kind_free_text": "rapid properties against the independent hlref codec; native go fuzz via rapid.MakeFuzz in the thorough tier"},
        {"name": "E3 crash enumerator", "path": "harness/cmd/crashhelper", "serves_properties": ["C20"],
         "kind_free_text": "strace SIGKILL injection before every file system call of one persistent update, over rapid-generated update sequences"},
        {"name": "E4 child server", "path": "harness/cmd/srvchild", "serves_properties": ["C03"],
         "kind_free_text": "production ListenAndServe in a child process over loopback TCP from many 127.x.y.z source addresses"},
    ],
    "checks": [],
    "notes": NOTES,
    "not_applicable": NOT_APPLICABLE,
}
for pid in sorted(PROPS):
    if pid not in TEXT:
        continue
    t = TEXT[pid]
    m["checks"].append({
        "property_id": pid,
        "quick_cmd": "./verif check %s --tier quick" % pid,
        "thorough_cmd": "./verif check %s --tier thorough" % pid,
        "evidence_file": "/verif/evidence/%s.json" % pid,
        "replay_cmd_template": "./verif replay %s {path}" % pid,
        "engine": t["engine"],
        "level_claimed": {"category": PROPS[pid].get("level", "exploration"), "text": t["level_text"], "design_ref": t["design_ref"]},
        "level_note": t["level_note"],
        "technique": t["technique"],
    })
claimed = {c["property_id"] for c in m["checks"]}
m["not_applicable"] = [n for n in NOT_APPLICABLE if n["property_id"] not in claimed]
json.dump(m, open("/verif/MANIFEST.json", "w"), indent=1)
print("claimed:", sorted(claimed), "not claimed:", [n["property_id"] for n in m["not_applicable"]])
